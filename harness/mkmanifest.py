#!/usr/bin/env python3
"""Regenerate /verif/MANIFEST.json from the table below (kept valid at all times)."""
import json
from pathlib import Path

ROOT = Path(__file__).resolve().parent.parent
PROPS = [json.loads(l) for l in (ROOT / "properties.jsonl").read_text().splitlines() if l.strip()]

COMMON_TB = ("Trusted: Lean 4.33 kernel (axioms propext, Classical.choice, Quot.sound only; no sorry/native_decide), the hand-written "
             "Lean model of the kernel (tied to /repo by the correspondence run of this check on every invocation), the native model "
             "driver, the Python harness/oracle. ")

# property id -> (text, design_ref, technique, level_note)
CLAIMS = {
    "C01": ("Lean theorems over any ordered field: for n>=4, lambda>0, w>=0 with two positive entries the ws2d model has positive pivots, "
            "satisfies the normal equations (W+lambda D'D)z=Wy (coefficients derived from D, not copied), is the unique solution and the "
            "unique PLS minimiser. The model is executed at Rat against ws2d.py_func run on Fractions (exact equality) and at Float against "
            "the compiled kernel (bit level); the float64 1e-6 clause is sampled against the exact rational solution.",
            "6/C01", "Lean 4 proof (LDL^T algebra, definiteness) + exact/bitwise model-code correspondence",
            COMMON_TB + "Not proved: IEEE rounding (float clause sampled)."),
    "C02": ("Lean theorems (any ordered field): for all seven kernels incl. robust GCV, two encodings of the same observations (same mask, same valid values, any placeholder) "
            "give the same curve and lambda (gu/pgu/wcv/wcvp by construction of the repaired kernels, V-curve kernels through ws2d_congr_masked and the w factor of fit / "
            "asymmetric weights); pass-through iff fewer than 2 (5) valid cells; the curve at missing cells is the unique solution of the normal equations with unit weight "
            "on valid cells (gap filling). Model tied to the compiled kernels bit for bit; oracle: real calls with placeholders below/inside/above the range, NaN, +-inf.",
            "6/C02", "Lean 4 proof (masked congruence of the LDL^T solve) + bitwise model-code correspondence", COMMON_TB + "Float rounding not proved; curves leaving int16 are outside the claim."),
    "C03": ("Lean theorems: gu returns the unique PLS minimiser with unit weight on valid cells, lambda=0 returns the input; half-even rounding spec (|r-x|<=1/2, ties to even); "
            "every re-weighting pass of pgu solves the weighted normal equations with weights w*p / w*(1-p) that stay in contract, and an early stop is a fixed point of the "
            "expectile equations (uniqueness of that fixed point proved). Compiled band compared with the rounding of the EXACT rational curve (model at Rat) and with the model at Float.",
            "6/C03", "Lean 4 proof (PLS minimiser, IRLS invariants) + exact/bitwise correspondence", COMMON_TB + "Float rounding sampled against the exact curve."),
    "C04": ("Lean theorems for arbitrary log/sqrt/pow: the selected index is the first strict minimum of the V-curve, lambda is the log10-midpoint of two consecutive grid entries, "
            "the returned curve is the fixed-lambda (asymmetric) smoother's curve at the reported lambda (warm start of the sweep does not leak), grid choice by lc. "
            "Oracle: V-curve recomputed with the compiled ws2d core, measured tie margin; real ws2dgu/ws2dpgu at the reported lambda; sgrid float32; lc grids; _tyx variant.",
            "6/C04", "Lean 4 proof (argmin, self-consistency) + bitwise correspondence", COMMON_TB + "Floating-point ties outside the theorems (measured margin). Known finding: lc = NaN in the gufunc."),
    "C05": ("Lean theorems: GCV sweep selects the first minimum below 1e15, lambda on the grid, non-robust curve = fixed-lambda smoother at that lambda; robust weights lie in [0,1] "
            "and vanish on missing cells, a MAD at noise level keeps the weights, and (after the repairs) at least two weighted cells always remain, hence the robust band is the unique "
            "weighted PLS curve at a grid lambda (never degenerate); constant/linear series returned; result depends on valid cells only.",
            "6/C05", "Lean 4 proof (sweep minimum, robust-weight invariants, InContract preservation) + bitwise correspondence", COMMON_TB + "Float ties by measured margin."),
    "C06": ("Lean theorems from uniqueness (C01): affine series reproduced (gap filling on the line), shift and reversal equivariance of ws2d, lifted to gu, optv (fit and roughness invariant), "
            "wcv incl. robust (threshold shift-invariant), affine preservation for all variants incl. asymmetric; asymmetric shift proved when both runs reach the (unique) expectile fixed point "
            "(unconditional statement is not a theorem of the algorithm: loop starts from the zero curve) and otherwise sampled by pairs of real calls.",
            "6/C06", "Lean 4 proof (uniqueness => equivariance) + bitwise correspondence + paired real calls", COMMON_TB + "Asymmetric offset: partial (converged case proved)."),
    "C07": ("Lean theorems with log/digamma/gammainc/ndtri/root as parameters: the loop/counter model of gammastd equals the declarative definition (p0, window, positive values, Thom start, +-40% bracket, "
            "nodata/negative -> nodata, four unfittable exits); gammafit uses exactly the window's positive cells; a*b = mean; brentq bracketing invariants and exits. Model tied to the compiled kernel bit for bit "
            "through an interactive SciPy oracle; independent SciPy evaluation of the formula as oracle.",
            "6/C07", "Lean 4 proof (refinement to a declarative spec) + bitwise correspondence with oracle-supplied special functions", COMMON_TB + "PARTIAL: bracketing of the MLE root by Thom +-40% and special-function accuracy are sampled."),
    "C08": ("Lean theorems: SPI is monotone in the observation within a pixel (under monotone gammainc/ndtri, root >= 0), stored index saturates in [-32768,32767] and is monotone (no wrap), "
            "total function of the right length, nodata/negative -> nodata, unfittable -> all nodata, grouped result is per-group (one bad pixel/group affects only itself).",
            "6/C08", "Lean 4 proof (monotonicity, saturation, totality) + bitwise correspondence", COMMON_TB + "Monotonicity of SciPy's float special functions is an assumption exercised by the oracle."),
    "C09": ("Lean theorems: searchsorted left/right on a sorted axis select exactly {t | begin<=t<=end}; the window checks raise iff fewer than two steps (per group); attributes are first/last step in the window; "
            "to_linspace induces exactly the label partition for any ordered label type; grouped SPI decomposes into per-group ungrouped SPI, is invariant under injective relabelling, single group = ungrouped.",
            "6/C09", "Lean 4 proof (sorted-list search, gather/scatter decomposition) + accessor-level correspondence", COMMON_TB + "pandas/NumPy searchsorted, unique, datetime64 are external."),
    "C10": ("Lean theorems: S = sum of signs over pairs, tau-a, tie-corrected variance (both branches), continuity-corrected Z, flag iff p<alpha under stated hypotheses on erf, Sen slope = median of the n(n-1)/2 "
            "pairwise slopes; invariance under strictly increasing maps, sign flip under negation/reversal, linear scaling of the slope. Exhaustive correspondence over all rank patterns up to length 6/7.",
            "6/C10", "Lean 4 proof (pair sums, multiset ties, median) + exhaustive bounded correspondence", COMMON_TB + "erf/sqrt/ndtri are parameters."),
    "C11": ("TRANSLATOR-TIED: the Lean model of dekad.py is regenerated from the source's AST on every run and 72 theorems are re-checked about the generated definitions: partition of every instant "
            "(all dates 0001..9999, all microseconds), abutting dekads, ndays, round trips date/raw/label (incl. string formatting/parsing), order isomorphism, hash, integer-translation laws; "
            "CPython's ord2ymd/ymd2ord round trip proved. Correspondence: all 359,964 dekads vs the real class; PyDate vs CPython on all 3,652,059 days (thorough).",
            "6/C11", "Lean 4 proof about a translator-generated model + exhaustive correspondence", COMMON_TB + "translate_dekad.py and the PyDate model of CPython datetime are trusted (validated exhaustively)."),
    "C12": ("Lean theorems for every thread count and every interleaving: any wrapper program satisfying the decidable SafeLazyInit never calls None/placeholder and the cache is monotone; any prange body whose "
            "access summary is RowLocal gives the sequential store for every merge of row action lists (any thread count, any deal of rows); pixel-map equivariance under permutation/chunking. Instances by decide on "
            "summaries REGENERATED from _helper.py and ws2doptvplc.py. Runtime side sampled: all accessor ops numpy vs dask x chunkings x schedulers x dim orders, 1..16 Numba threads, first-call races.",
            "6/C12", "Lean 4 proof (schedule induction, commutation of independent actions) on generated effect summaries + configuration sampling", COMMON_TB + "PARTIAL: dask/xarray/Numba runtimes are not modelled."),
    "C13": ("Lean theorems on the logic that differs between the two worlds: int64 accumulators of autocorr / Mann-Kendall / run counters cannot overflow under the documented bounds (wrapping arithmetic = unbounded), "
            "int16 store is the identity exactly on in-range values. 35 programs compared compiled vs fully interpreted source, and the Lean model as pivot for the core.",
            "6/C13", "Lean 4 proof (no-overflow of fixed-width accumulators) + compiled-vs-interpreted differential runs", COMMON_TB + "PARTIAL: Numba/LLVM code generation and cython_special bindings are not verified."),
    "C14": ("Lean theorems for every shape in contract: every index of the ws2d trace is within -n..n-1 for n>=2 (incl. wrap-around reads at n=2,3; sharp at n=1), every output cell written; tinterpolate scatter/run loops, "
            "zonal ids, rolling windows (any window), V-curve grid indexing (sharp at one grid point), smoothers call ws2d in contract. Traces tied to the source by logged index sets and to compiled code by NUMBA_BOUNDSCHECK=1 runs; "
            "unwritten cells detected by differently prefilled output buffers.",
            "6/C14", "Lean 4 proof (index-trace bounds) + logged-index correspondence + bounds-checked execution", COMMON_TB + "Numba's bounds-check instrumentation trusted."),
    "C15": ("Lean theorems: the ten accumulators equal the declarative sums; the value is cov/sqrt(vX vY) of the mean-filled vectors; Cauchy-Schwarz gives [-1,1]; degenerate cases 0; positive affine invariance; "
            "int and float encodings share one model. Correspondence bit-level; oracle: NumPy mean-filled Pearson reference, both layouts, dask.",
            "6/C15", "Lean 4 proof (Cauchy-Schwarz, refinement to Pearson) + bitwise correspondence", COMMON_TB + "x^-1/2 is a parameter (hypothesis IsRsqrt); float accumulation sampled."),
    "C20": ("Lean theorems: scatter at marks, run-length means per maximal label run, constant series -> constant, series linear in day number -> exact period means (from ws2d_affine), output length = number of runs. "
            "Compiled kernel vs model at Float (bit level) and at Rat (exact daily curve).",
            "6/C20", "Lean 4 proof (scatter/run decomposition, affine preservation) + exact/bitwise correspondence", COMMON_TB + "Conditioning of the 1e-5 system in float64 sampled up to ~4000 days."),
    "C16": ("Lean theorems: per-zone (sum,count) equals sum/length of exactly the pixels with zone=k, value!=nodata, zone!=zone-nodata; "
            "permutation invariance; zone-nodata contributes nowhere; count<=#pixels and |sum|<=count*B (exactness bound for the float64/int64 "
            "accumulators); Float32 saturation witness of the pinned defect. Model tied to do_mean and the accessor (numpy+dask) by differential runs; "
            "accuracy clause sampled on zones up to 2.5e7 pixels.",
            "6/C16", "Lean 4 proof (list folds over Z) + model-code correspondence",
            COMMON_TB + "Not proved: rounding of float-valued sums (sampled)."),
    "C17": ("Lean theorems: every complete window yields the sum of its valid cells, nodata iff none is valid (all-valid / all-nodata / mixed cases), "
            "output lengths, refinement to an Option-level spec showing the sentinel value is irrelevant, grouped mean = (sum,count) of the group's valid "
            "cells, every cell written for in-range labels; regression witness of the pinned amalgam. Exhaustive correspondence up to length 6-8.",
            "6/C17", "Lean 4 proof (list induction) + exhaustive bounded model-code correspondence",
            COMMON_TB + "float32 accumulation in the kernel is exact on the enumerated domain; large values sampled."),
    "C18": ("Lean theorems: lroo equals the longest run of ones (upper bound for every run, attained, never 1, <= length, fits int32 for length<2^31; "
            "uint8 wrap witness of the pinned defect); croo model of the xarray pipeline equals the trailing run, is invariant under permutations of "
            "distinct time stamps, croo<=max(lroo,1). Exhaustive correspondence for all binary series up to length 12/16 and all permutations up to 5/6.",
            "6/C18", "Lean 4 proof (loop invariant over dots, sort/permutation) + exhaustive bounded correspondence",
            COMMON_TB + "xarray sortby/cumsum/argmax are modelled."),
    "C19": ("Lean theorems: the window list is exactly {(ii-n,ii) | end<ii<=begin, n<=ii}, newest first, without repetition; located labels never raise; "
            "get_indexer=-1 for begin or end raises ValueError; defaults. Exhaustive correspondence with the accessor for axis lengths 1..7/12.",
            "6/C19", "Lean 4 proof (recursion on the loop index) + exhaustive bounded correspondence",
            COMMON_TB + "pandas get_indexer and NumPy nansum/nanmean are external."),
}

PENDING = "check not built yet in this revision (its theorem file / correspondence is in progress); it will be claimed once both exist"


# translator-tied refinement theorems per property (generated Lean program, regenerated from /repo on every run, proved equal to the model)
TIED = {
    "C01": "TRANSLATOR-TIED: ws2d.py is translated statement by statement (Hdc/Gen/Ws2d.lean) and proved equal to the model for every n >= 3 (gen_ws2d_eq_model), hence to satisfy the normal equations.",
    "C02": "TRANSLATOR-TIED: ws2dgu / ws2dpgu sources (NumPy vector idioms) proved equal to the models gu / pgu incl. the pass-through branch (gen_ws2dgu_eq_model, gen_ws2dpgu_eq_model, _none).",
    "C03": "TRANSLATOR-TIED: ws2dgu / ws2dpgu sources proved equal to the models gu / pgu (10 passes, early break, final fit with the last weights).",
    "C04": "TRANSLATOR-TIED: ws2doptv, ws2doptvp, _ws2doptvp, ws2doptvplc sources proved equal to optv / optvp / optvpCore / optvplc (warm start across lambdas, grid choice by lc read from the source); ws2doptvplc_tyx per pixel (column of the cube and lambda = optvplc of the pixel's series with the grid chosen by the model autocorrelation; prange read as range, row independence by C12).",
    "C05": "TRANSLATOR-TIED: ws2dwcv / ws2dwcvp sources (whole functions incl. the robust loop and the unbound-local outcome) proved equal to wcv / wcvp modulo np.median/max/min = the model's definitions.",
    "C07": "TRANSLATOR-TIED: brentq (every f, every input), gammafit (with the brentq call and its lambda read from the source) and gammastd sources proved equal to their models.",
    "C08": "TRANSLATOR-TIED: gammastd / gammastd_yxt sources proved equal to the models; instrumented translations (Gen/Safe*.lean) prove that brentq and gammafit never divide a scalar by zero (no hypothesis, every f) and gammastd never indexes out of range / divides by zero for a genuine calibration window (Numba's error model would raise ZeroDivisionError).",
    "C09": "TRANSLATOR-TIED: gammastd_grp source proved equal to the gather / per-group gammastd / scatter model (gen_gammastd_grp_eq_model).",
    "C10": "TRANSLATOR-TIED: mk_score, mk_variance_s, mk_z_score, mk_p_value, mk_sens_slope, mann_kendall_trend_1d sources proved equal to the models (np.unique / np.nanmedian = the model's unique / median; erf, sqrt, ndtri(0.975) parameters).",
    "C14": "TRANSLATOR-TIED: instrumented translations (flag raised before every subscript outside Python's accepted range and every scalar division by zero) of rolling_sum, lroo, mean_grp, do_mean, autocorr_1d_int, mk_score, ws2d, tinterpolate, ws2doptv: first component = the plain translation, flag false under the stated contract (for rolling_sum: no condition on the window; exact characterisations safe_*_flag); instrumented twins also for ws2dgu / ws2dpgu (need 0 <= lambda, 0 < p < 1), ws2doptvp / _ws2doptvp, mk_sens_slope / mk_variance_s (no hypothesis), gammastd_grp / gammastd_yxt, ws2dwcv (non-robust); ws2doptvplc and ws2dwcvp: first-component theorem only.",
    "C15": "TRANSLATOR-TIED: the whole autocorr_1d_int and autocorr_1d_float sources and the autocorr_1d dispatcher (specialised per argument type as Numba does) proved equal to the model.",
    "C16": "TRANSLATOR-TIED: do_mean source (four loops, flattened n-d indexing) proved equal to zonalMean; exactness of the float64 accumulation stated with its range (sum of |valid cells| per zone <= 2^53, GenKDoMeanB).",
    "C17": "TRANSLATOR-TIED: rolling_sum and mean_grp sources proved equal to the models; rounding-aware variant (every store into the float32 output wrapped by a rounding parameter) proved equal to rollingSumR and exact iff window * max|x| is within the format's exact range (C17round: int16 data exact for windows <= 512).",
    "C18": "TRANSLATOR-TIED: lroo source proved equal to the model.",
    "C20": "TRANSLATOR-TIED: tinterpolate source proved equal to the model (scatter, ws2d through gen_ws2d_eq_model, run means).",
}

# accessor layer: control logic translated by harness/py2lean_glue*.py (library calls = parameters matched with their full literal text) and proved equal to decision models
ACC_TIED = {
    "C02": "ACCESSOR-TIED: WhittakerSmoother.whits translated (Gen/GlueWhits.lean) and proved equal to the decision table whitsPlan: nodata travels unchanged in the slot after lambda (GenGlueWhits).",
    "C03": "ACCESSOR-TIED: whits: sg wins over s, lambda = 10**sg, any given p (also 0.0) selects ws2dpgu else ws2dgu, argument slots, exceptions (gen_whits_eq_plan and corollaries).",
    "C04": "ACCESSOR-TIED: whitsvc: lc -> ws2doptvplc(nodata, p, lc) whatever srange, lc without p / neither lc nor srange -> ValueError, every truthy p (0.5 too) -> ws2doptvp, p = 0.0 or None -> ws2doptv (Python truthiness translated, gen_whitsvc_p_zero_symmetric), sgrid = float32(log10(lambda)) (GenGlueWhitsvc).",
    "C05": "ACCESSOR-TIED: whitswcv: default grid np.arange(-1.8, 4.2, 0.2) in both branches, truthy p -> ws2dwcvp(nodata, p, srange, robust) else ws2dwcv(nodata, srange, robust), robust default True (GenGlueWhitswcv).",
    "C10": "ACCESSOR-TIED: mktrend: kernel chosen by the nodata attribute (is None, not truthiness), output dtypes float32 x3 + int8, names tau/pvalue/slope/trend in order, trend nodata -2 (GenGlueMktrend).",
    "C11": "ACCESSOR-TIED: the .dekad accessor (Period / DekadPeriod / AccessorTimeBase) translated over the GENERATED Dekad class and proved equal, on every axis of valid instants, to a declarative spec from (year, month, day): idx, yidx, raw, label, linspace = yidx - 1 in 0..35, start <= t <= end, ndays = span, label parses back, equal labels iff same dekad; constructor decision table; Anomalies ratio / diff (GenGluePeriod, GenGlueAnomalies).",
    "C12": "ACCESSOR-TIED: zonal.mean: dask and eager branches call do_mean with the same five arguments and out_dtype; the dask key carries tokenize(data, zones, dtype) iff a name is given (GenGlueZonalMean).",
    "C15": "ACCESSOR-TIED: the (y,x,t) and (t,y,x) wrapper kernels autocorr / autocorr_tyx proved per pixel equal to the model on the pixel's series, pixel-local, tyx = yxt of the transposed cube (GenNumACYxt, GenNumACTyx); accessor dispatch (dims[0] == 'time', rechunk iff several time chunks, float32, nodata attribute is None test) (GenGlueAutocorrAcc).",
    "C16": "ACCESSOR-TIED: zonal.mean: four validation errors in order, NaN -> nodata before the kernel, num_zones = len(zone_ids), dims (first dim, dim_name, 'stat'), stat = ['mean','valid'] (GenGlueZonalMean).",
    "C17": "ACCESSOR-TIED: rolling.sum: nodata argument wins over the attribute (is None tests: 0 is a valid nodata), neither -> ValueError, kernel slots (window, nodata), trim of exactly window-1 leading cells (GenGlueRollingSumAcc).",
    "C18": "ACCESSOR-TIED: croo: the xarray pipeline (sortby descending, where == 1, cumsum skipna=False, where notnull else 0, argmax, + first) translated onto list-level semantics of xarray (Hdc/PyXr.lean, validated against xarray on every run) and proved equal to the model croo for every non-empty series, hence the trailing run of ones (GenGlueCroo); lroo accessor call (GenGlueLrooAcc).",
    "C20": "ACCESSOR-TIED: whitint: dtype other than int16 -> NotImplementedError, output length = number of distinct labels, template_out u1, output int16 (GenGlueWhitint).",
}


def main():
    checks = []
    for p in PROPS:
        pid = p["id"]
        if pid not in CLAIMS:
            continue
        text, ref, tech, note = CLAIMS[pid]
        if pid in TIED and "TRANSLATOR-TIED" not in text:
            text = text + " " + TIED[pid]
            tech = tech + " + statement translator with proved refinement (generated program = model)"
            note = note.replace("the hand-written Lean model of the kernel (tied to /repo by the correspondence run of this check on every invocation)",
                                "the hand-written Lean model of the kernel (tied to /repo by the correspondence run of this check on every invocation and, for the translated kernels, "
                                "by a refinement theorem about the program the translator regenerates from the source on every run; the translators harness/py2lean*.py, translate_ws2d.py are trusted)")
        if pid in ACC_TIED:
            text = text + " " + ACC_TIED[pid]
            if "accessor control logic" not in tech:
                tech = tech + " + accessor control logic translated and proved equal to a decision model"
        checks.append(dict(
            property_id=pid,
            quick_cmd=f"bin/check {pid} --tier quick",
            thorough_cmd=f"bin/check {pid} --tier thorough",
            evidence_file=f"evidence/{pid}.json",
            replay_cmd_template="bin/check replay {path}",
            engine="lean4+correspondence",
            level_claimed=dict(category="proof", text=text, design_ref=f"DESIGN.md section {ref}"),
            level_note=note, technique=tech))
    m = dict(
        version=1,
        setup_cmd="bin/setup",
        hooks=dict(guard="HDC_ALGO_VERIF",
                   enable="no hooks are needed: kernels expose their sources through .py_func/.__wrapped__; guard name reserved and unused",
                   baseline_off_cmd="cd /repo && /venv/bin/python -m pytest -ra -q -p no:cacheprovider --timeout=900 --continue-on-collection-errors",
                   source_commits=[], add_only=True),
        engines=[dict(name="lean4+correspondence", path="lean/", serves_properties=[c["property_id"] for c in checks],
                      kind_free_text="Lean 4 theorems about executable models (lean/Hdc); models tied to /repo by differential correspondence "
                                     "(compiled kernels / accessors vs the native model driver) and by statement translators (dekad.py; 30 numeric kernels: generated Lean program proved equal to the model)")],
        checks=checks,
        notes="see DESIGN.md; known defects repaired by fix: commits are listed in known_findings.json",
        not_applicable=[dict(property_id=p["id"], reason=PENDING) for p in PROPS if p["id"] not in CLAIMS],
    )
    (ROOT / "MANIFEST.json").write_text(json.dumps(m, indent=1))
    print("checks:", [c["property_id"] for c in checks])


if __name__ == "__main__":
    main()
