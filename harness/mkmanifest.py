#!/usr/bin/env python3
"""Regenerate /verif/MANIFEST.json from the table below (kept valid at all times)."""
import json
from pathlib import Path

ROOT = Path(__file__).resolve().parent.parent
PROPS = [json.loads(l) for l in (ROOT / "properties.jsonl").read_text().splitlines() if l.strip()]

COMMON_TB = ("Trusted: Lean 4.33 kernel (axioms propext, Classical.choice, Quot.sound only; no sorry/native_decide), the hand-written "
             "Lean model of the kernel (tied to /repo by the correspondence run of this check on every invocation), the native model "
             "driver, the Python harness/oracle. ")

# property id -> (text, design_ref, technique, level_note)
CLAIMS = {
    "C01": ("Lean theorems over any ordered field: for n>=4, lambda>0, w>=0 with two positive entries the ws2d model has positive pivots, "
            "satisfies the normal equations (W+lambda D'D)z=Wy (coefficients derived from D, not copied), is the unique solution and the "
            "unique PLS minimiser. The model is executed at Rat against ws2d.py_func run on Fractions (exact equality) and at Float against "
            "the compiled kernel (bit level); the float64 1e-6 clause is sampled against the exact rational solution.",
            "6/C01", "Lean 4 proof (LDL^T algebra, definiteness) + exact/bitwise model-code correspondence",
            COMMON_TB + "Not proved: IEEE rounding (float clause sampled)."),
    "C16": ("Lean theorems: per-zone (sum,count) equals sum/length of exactly the pixels with zone=k, value!=nodata, zone!=zone-nodata; "
            "permutation invariance; zone-nodata contributes nowhere; count<=#pixels and |sum|<=count*B (exactness bound for the float64/int64 "
            "accumulators); Float32 saturation witness of the pinned defect. Model tied to do_mean and the accessor (numpy+dask) by differential runs; "
            "accuracy clause sampled on zones up to 2.5e7 pixels.",
            "6/C16", "Lean 4 proof (list folds over Z) + model-code correspondence",
            COMMON_TB + "Not proved: rounding of float-valued sums (sampled)."),
    "C17": ("Lean theorems: every complete window yields the sum of its valid cells, nodata iff none is valid (all-valid / all-nodata / mixed cases), "
            "output lengths, refinement to an Option-level spec showing the sentinel value is irrelevant, grouped mean = (sum,count) of the group's valid "
            "cells, every cell written for in-range labels; regression witness of the pinned amalgam. Exhaustive correspondence up to length 6-8.",
            "6/C17", "Lean 4 proof (list induction) + exhaustive bounded model-code correspondence",
            COMMON_TB + "float32 accumulation in the kernel is exact on the enumerated domain; large values sampled."),
    "C18": ("Lean theorems: lroo equals the longest run of ones (upper bound for every run, attained, never 1, <= length, fits int32 for length<2^31; "
            "uint8 wrap witness of the pinned defect); croo model of the xarray pipeline equals the trailing run, is invariant under permutations of "
            "distinct time stamps, croo<=max(lroo,1). Exhaustive correspondence for all binary series up to length 12/16 and all permutations up to 5/6.",
            "6/C18", "Lean 4 proof (loop invariant over dots, sort/permutation) + exhaustive bounded correspondence",
            COMMON_TB + "xarray sortby/cumsum/argmax are modelled."),
    "C19": ("Lean theorems: the window list is exactly {(ii-n,ii) | end<ii<=begin, n<=ii}, newest first, without repetition; located labels never raise; "
            "get_indexer=-1 for begin or end raises ValueError; defaults. Exhaustive correspondence with the accessor for axis lengths 1..7/12.",
            "6/C19", "Lean 4 proof (recursion on the loop index) + exhaustive bounded correspondence",
            COMMON_TB + "pandas get_indexer and NumPy nansum/nanmean are external."),
}

PENDING = "check not built yet in this revision (its theorem file / correspondence is in progress); it will be claimed once both exist"


def main():
    checks = []
    for p in PROPS:
        pid = p["id"]
        if pid not in CLAIMS:
            continue
        text, ref, tech, note = CLAIMS[pid]
        checks.append(dict(
            property_id=pid,
            quick_cmd=f"bin/check {pid} --tier quick",
            thorough_cmd=f"bin/check {pid} --tier thorough",
            evidence_file=f"evidence/{pid}.json",
            replay_cmd_template="bin/check replay {path}",
            engine="lean4+correspondence",
            level_claimed=dict(category="proof", text=text, design_ref=f"DESIGN.md section {ref}"),
            level_note=note, technique=tech))
    m = dict(
        version=1,
        setup_cmd="bin/setup",
        hooks=dict(guard="HDC_ALGO_VERIF",
                   enable="no hooks are needed: kernels expose their sources through .py_func/.__wrapped__; guard name reserved and unused",
                   baseline_off_cmd="cd /repo && /venv/bin/python -m pytest -ra -q -p no:cacheprovider --timeout=900 --continue-on-collection-errors",
                   source_commits=[], add_only=True),
        engines=[dict(name="lean4+correspondence", path="lean/", serves_properties=[c["property_id"] for c in checks],
                      kind_free_text="Lean 4 theorems about executable models (lean/Hdc); models tied to /repo by differential correspondence "
                                     "(compiled kernels / accessors vs the native model driver) and, for dekad.py, by a translator")],
        checks=checks,
        notes="see DESIGN.md; known defects repaired by fix: commits are listed in known_findings.json",
        not_applicable=[dict(property_id=p["id"], reason=PENDING) for p in PROPS if p["id"] not in CLAIMS],
    )
    (ROOT / "MANIFEST.json").write_text(json.dumps(m, indent=1))
    print("checks:", [c["property_id"] for c in checks])


if __name__ == "__main__":
    main()
