#!/venv/bin/python
"""py2lean_fixed: translate the two fixed-lambda Whittaker wrappers `ws2dgu` (ops/ws2dgu.py) and `ws2dpgu` (ops/ws2dpgu.py)
from their current Python source (via `ast`), statement by statement, into imperative Lean 4 over an abstract carrier
-> lean/Hdc/Gen/NumWs2dgu.lean, lean/Hdc/Gen/NumWs2dpgu.lean.  `Hdc/Props/GenNumGu.lean`, `GenNumPgu.lean` prove the generated
programs equal the hand models `Hdc.gu` / `Hdc.pgu`.

Built on py2lean_num.py (scalar statements, `if`, `for … in range`, `break`, `ws2d(...)`, `np.zeros`, `x.shape[0]`); this file
adds the NumPy *vector* idioms, each translated compositionally (sub-expression by sub-expression) into one of the generic
combinators of the hand-written `Hdc/PyNpF.lean`:

  [e for x in a]                     PyNpF.npComp (fun x => e) a          (e boolean -> Array Bool, e numeric -> Array α)
  np.array(A, dtype=float64)         PyNpF.npBoolToNum A  (A boolean)  /  A  (A numeric)
  A op B, A op s, s op B             PyNpF.npZipAA / npZipAS / npZipSA (fun u v => u op v) …      op in + - * /
  A cmp B, A cmp s, s cmp B          the same with  cmp in == != < >  (result Array Bool)
  ~M                                 PyNpF.npMap (fun u => !u) M
  np.abs(A)                          PyNpF.npMap (fun u => absv u) A
  np.sum(A)                          PyNpF.npSum A
  np.where(C, X, Y)                  PyNpF.npWhereAA / npWhereSA / npWhereAS / npWhereSS  (by the shapes of X, Y)
  a[M] = s                           a := PyNpF.npMaskSetS a M s
  a[:] = B   /  a[:] = s             a := PyNpF.npSetAll a B  /  a := PyNpF.npSetAllS a s
  np.round(z, 0, out)                out := PyNpF.npRoundInto rnd z out
  np.isnan(x), np.isinf(x)           (isnan x), (isinf x)     - parameters of the generated function
  name = <array expression>          (re)binding; a rebound *parameter* gets a `let mut` shadow at the top

Anything else raises `Unsupported` (-> `FAILED <module>: reason`, exit 1).

Instrumentation mode (`SafeNp`, a subclass of py2lean_num.SafeMixin handed to `base.main` through the hook `safe_mixin`; both kernels
are declared with the `safe` key -> Hdc/Gen/SafeWs2dgu.lean, SafeWs2dpgu.lean, namespace `Hdc.Gen.Safe`): the vector idioms contain no
subscript and no scalar division; what NumPy can raise on is a SHAPE mismatch, so the flag `bad` is or-ed with
  * `lenDiffer A.size B.size`        (Hdc/PySafeF.lean) for every elementwise `A op B` / `A cmp B` of two arrays, every pair
                                     condition/array-alternative of `np.where(C, X, Y)`, every in-place store `a[:] = B`
                                     (source against target), `np.round(z, 0, out)` (`z` against `out`) and every boolean-mask store
                                     `a[M] = s` (mask against array)  - exactly the cases in which the combinators of PyNpF.lean
                                     truncate / keep the target instead of raising;
  * `(Gen.Safe.ws2d y l w).2`        for every call of the smoother (its own subscripts and divisions);
  * a comprehension `[e for x in a]` whose element expression contains a subscript, a division or a kernel call is refused
    (`Unsupported("safe: ...")`), as is every construct the mode does not know.
Scalar divisions / subscripts (none in the two kernels today) are instrumented by the base class.
"""
import ast
import sys

import py2lean_num as base

Unsupported = base.Unsupported

KERNELS = [
    dict(name="ws2dgu", file="hdc/algo/ops/ws2dgu.py", func="ws2dgu",
         params=[("y", "arrnum"), ("lmda", "num"), ("nodata", "num"), ("out", "arrnum")],
         consts={}, extra="(rnd : α → α) (isnan isinf : α → Bool)", ret="out", uses="",
         imports=["Hdc.Gen.Ws2d", "Hdc.PyNpF"], safe=True, safe_imports=["Hdc.Gen.SafeWs2d", "Hdc.PySafeF"]),
    dict(name="ws2dpgu", file="hdc/algo/ops/ws2dpgu.py", func="ws2dpgu",
         params=[("y", "arrnum"), ("lmda", "num"), ("nodata", "num"), ("p", "num"), ("out", "arrnum")],
         consts={}, extra="(rnd : α → α) (isnan isinf : α → Bool)", ret="out", uses="",
         imports=["Hdc.Gen.Ws2d", "Hdc.PyNpF"], safe=True, safe_imports=["Hdc.Gen.SafeWs2d", "Hdc.PySafeF"]),
]

ARR = ("arrnum", "arrbool")
ARITH = {ast.Add: "+", ast.Sub: "-", ast.Mult: "*", ast.Div: "/"}


def np_call(e, *names):
    """`np.<name>(...)` for one of the given names"""
    return (isinstance(e, ast.Call) and isinstance(e.func, ast.Attribute) and isinstance(e.func.value, ast.Name)
            and e.func.value.id == "np" and e.func.attr in names)


def paren(term):
    """parenthesise a term that is used as an argument"""
    return term if (" " not in term or term.startswith("(")) else f"({term})"


class KNp(base.K):
    LEAN_TY = dict(base.K.LEAN_TY, arrbool="Array Bool", bool="Bool")
    INIT = dict(base.K.INIT, arrbool="#[]", bool="false")

    # ---------------- types
    def typeof(self, e):
        if isinstance(e, ast.Compare) and len(e.ops) == 1:
            lt, rt = self.typeof(e.left), self.typeof(e.comparators[0])
            return "arrbool" if (lt in ARR or rt in ARR) else "bool"
        if isinstance(e, ast.BoolOp):
            if any(self.typeof(v) != "bool" for v in e.values):
                raise Unsupported("and/or on non-boolean operands")
            return "bool"
        if isinstance(e, ast.UnaryOp) and isinstance(e.op, ast.Invert):
            if self.typeof(e.operand) != "arrbool":
                raise Unsupported("~ on a non-mask")
            return "arrbool"
        if isinstance(e, ast.UnaryOp) and isinstance(e.op, ast.Not):
            return "bool"
        if isinstance(e, ast.BinOp):
            lt, rt = self.typeof(e.left), self.typeof(e.right)
            if lt in ARR or rt in ARR:
                if "arrbool" in (lt, rt) or type(e.op) not in ARITH:
                    raise Unsupported("array operator")
                return "arrnum"
        if isinstance(e, ast.ListComp):
            return self.with_comp_var(e, lambda: {"bool": "arrbool", "num": "arrnum", "int": "arrnum"}[self.typeof(e.elt)])
        if np_call(e, "isnan", "isinf"):
            return "bool"
        if np_call(e, "array"):
            self.check_array_call(e)
            return "arrnum"
        if np_call(e, "sum"):
            if self.typeof(e.args[0]) != "arrnum":
                raise Unsupported("np.sum of a non-numeric array")
            return "num"
        if np_call(e, "abs"):
            return self.typeof(e.args[0])
        if np_call(e, "where"):
            return "arrnum"
        if isinstance(e, ast.Subscript) and isinstance(e.slice, ast.Slice):
            if e.slice.lower is None and e.slice.upper is None and e.slice.step is None and isinstance(e.value, ast.Name):
                return self.typeof(e.value)
            raise Unsupported("slice")
        return super().typeof(e)

    def with_comp_var(self, e, k):
        """evaluate `k()` with the comprehension variable of `[elt for x in a]` bound to an element of `a`"""
        if len(e.generators) != 1:
            raise Unsupported("nested comprehension")
        g = e.generators[0]
        if g.ifs or g.is_async or not isinstance(g.target, ast.Name) or not isinstance(g.iter, ast.Name):
            raise Unsupported("comprehension form")
        it = self.ty.get(g.iter.id)
        if it != "arrnum":
            raise Unsupported("comprehension over a non-numeric array")
        x = g.target.id
        if x in self.ty:
            raise Unsupported(f"comprehension variable {x} shadows a local")
        self.ty[x] = "num"
        try:
            return k()
        finally:
            del self.ty[x]

    def check_array_call(self, e):
        kw = {k.arg: k.value for k in e.keywords}
        if len(e.args) != 1 or set(kw) - {"dtype"}:
            raise Unsupported("np.array arguments")
        if "dtype" in kw and not (isinstance(kw["dtype"], ast.Name) and kw["dtype"].id == "float64"):
            raise Unsupported("np.array dtype")
        if self.typeof(e.args[0]) == "arrbool" and "dtype" not in kw:
            raise Unsupported("np.array of booleans without dtype=float64")

    # ---------------- scalar expressions
    def nexpr(self, e):
        if np_call(e, "sum"):
            self.typeof(e)
            return f"(PyNpF.npSum {self.aexpr(e.args[0])})"
        if np_call(e, "abs") and self.typeof(e.args[0]) == "num":
            return f"(absv {self.nexpr(e.args[0])})"
        if self.typeof(e) in ARR:
            raise Unsupported("array where a scalar is expected")
        return super().nexpr(e)

    def bexpr(self, e):
        if np_call(e, "isnan", "isinf"):
            if len(e.args) != 1 or e.keywords:
                raise Unsupported("isnan/isinf arguments")
            return f"({e.func.attr} {self.nexpr(e.args[0])})"
        if self.typeof(e) != "bool":
            raise Unsupported("array in a scalar condition")
        return super().bexpr(e)

    # ---------------- array expressions
    def elem_op(self, e, lt, rt):
        """the scalar operation of an elementwise array expression, as a Lean lambda over two cells `u v`"""
        cell = lambda t: "num" if t in ("arrnum", "num", "int") else "bool"
        saved = dict(self.ty)
        self.ty["u"], self.ty["v"] = cell(lt), cell(rt)
        try:
            u, v = ast.Name("u", ast.Load()), ast.Name("v", ast.Load())
            if isinstance(e, ast.BinOp):
                body = self.nexpr(ast.BinOp(u, e.op, v))
            else:
                body = self.bexpr(ast.Compare(u, e.ops, [v]))
        finally:
            self.ty = saved
        return f"(fun u v => {body})"

    def operand(self, e):
        """(kind, term): kind 'A' for an array operand, 'S' for a scalar one"""
        t = self.typeof(e)
        if t in ARR:
            return "A", self.aexpr(e)
        if t in ("num", "int"):
            return "S", self.nexpr(e)
        raise Unsupported("operand of an array expression")

    def aexpr(self, e):
        """array-valued term"""
        t = self.typeof(e)
        if t not in ARR:
            raise Unsupported("array expression expected: " + ast.dump(e)[:80])
        if isinstance(e, ast.Name):
            return e.id
        if isinstance(e, ast.Subscript):            # a[:] on the right-hand side: the whole array
            return e.value.id
        if isinstance(e, (ast.BinOp, ast.Compare)):
            l, r = (e.left, e.right) if isinstance(e, ast.BinOp) else (e.left, e.comparators[0])
            lt, rt = self.typeof(l), self.typeof(r)
            (lk, la), (rk, ra) = self.operand(l), self.operand(r)
            return f"(PyNpF.npZip{lk}{rk} {self.elem_op(e, lt, rt)} {la} {ra})"
        if isinstance(e, ast.UnaryOp) and isinstance(e.op, ast.Invert):
            return f"(PyNpF.npMap (fun u => !u) {self.aexpr(e.operand)})"
        if isinstance(e, ast.ListComp):
            g = e.generators[0]
            body = self.with_comp_var(e, lambda: self.bexpr(e.elt) if self.typeof(e.elt) == "bool" else self.nexpr(e.elt))
            return f"(PyNpF.npComp (fun {g.target.id} => {body}) {g.iter.id})"
        if np_call(e, "array"):
            inner = self.aexpr(e.args[0])
            return f"(PyNpF.npBoolToNum {inner})" if self.typeof(e.args[0]) == "arrbool" else inner
        if np_call(e, "abs"):
            if len(e.args) != 1 or e.keywords or t != "arrnum":
                raise Unsupported("np.abs arguments")
            return f"(PyNpF.npMap (fun u => absv u) {self.aexpr(e.args[0])})"
        if np_call(e, "where"):
            if len(e.args) != 3 or e.keywords or self.typeof(e.args[0]) != "arrbool":
                raise Unsupported("np.where arguments")
            (xk, xa), (yk, ya) = self.operand(e.args[1]), self.operand(e.args[2])
            if "arrbool" in (self.typeof(e.args[1]), self.typeof(e.args[2])):
                raise Unsupported("np.where on masks")
            return f"(PyNpF.npWhere{xk}{yk} {self.aexpr(e.args[0])} {xa} {ya})"
        raise Unsupported("array expr " + ast.dump(e)[:80])

    def value_term(self, v):
        if isinstance(v, ast.Lambda):
            return super().value_term(v)
        if isinstance(v, ast.Call) and ((isinstance(v.func, ast.Attribute) and v.func.attr in ("copy", "zeros"))
                                        or (isinstance(v.func, ast.Name) and v.func.id == "ws2d")):
            return super().value_term(v)          # np.zeros(m), a.copy(), ws2d(y, lmda, w): as in py2lean_num
        t = self.typeof(v)
        if t in ARR:
            return t, self.aexpr(v)
        if t == "bool":
            return t, self.bexpr(v)
        return super().value_term(v)

    # ---------------- statements
    def stmt(self, s, ind):
        if isinstance(s, ast.Assign) and len(s.targets) == 1 and isinstance(s.targets[0], ast.Subscript) \
                and isinstance(s.targets[0].value, ast.Name):
            t, v = s.targets[0], s.value
            arr = t.value.id
            at = self.ty.get(arr)
            if at not in ARR:
                raise Unsupported(f"subscript assignment to {arr}")
            if isinstance(t.slice, ast.Slice):
                if not (t.slice.lower is None and t.slice.upper is None and t.slice.step is None):
                    raise Unsupported("partial slice assignment")
                vt, term = self.value_term(v)
                if vt == at:
                    return self.emit(ind, f"{arr} := PyNpF.npSetAll {arr} {paren(term)}")
                if vt in ("num", "int") and at == "arrnum":
                    return self.emit(ind, f"{arr} := PyNpF.npSetAllS {arr} {self.nexpr(v)}")
                raise Unsupported("slice assignment of " + vt)
            if self.typeof(t.slice) == "arrbool":
                if at != "arrnum" or self.typeof(v) not in ("num", "int"):
                    raise Unsupported("masked assignment of a non-scalar")
                return self.emit(ind, f"{arr} := PyNpF.npMaskSetS {arr} {self.aexpr(t.slice)} {self.nexpr(v)}")
        if isinstance(s, ast.Assign) and any(isinstance(t, ast.Name) for t in s.targets):
            v = s.value
            if isinstance(v, ast.Subscript) and isinstance(v.slice, ast.Slice):
                v = v.value
            if isinstance(v, ast.Name) and self.ty.get(v.id) in ARR + ("arrint",):
                # `b = a` / `b = a[:]` makes `b` an alias (a view) of `a` in Python; Lean arrays are values
                raise Unsupported(f"array aliasing: {ast.unparse(s)}")
        if isinstance(s, ast.Expr) and np_call(s.value, "round"):
            a = s.value.args
            if len(a) != 3 or s.value.keywords or not (isinstance(a[1], ast.Constant) and a[1].value == 0) \
                    or not isinstance(a[2], ast.Name) or self.ty.get(a[2].id) != "arrnum" or self.typeof(a[0]) != "arrnum":
                raise Unsupported("np.round form")
            return self.emit(ind, f"{a[2].id} := PyNpF.npRoundInto rnd {self.aexpr(a[0])} {a[2].id}")
        return super().stmt(s, ind)

    def run(self):
        # a parameter that the body rebinds (`y = np.where(...)`) needs a mutable shadow
        params = [n for n, t in self.cfg["params"] if t != "skip" and n not in {"out", "lopt"}]
        rebound = set()
        for node in ast.walk(self.fn):
            if isinstance(node, ast.Assign):
                for t in node.targets:
                    for n in ([t] if isinstance(t, ast.Name) else (t.elts if isinstance(t, ast.Tuple) else [])):
                        if isinstance(n, ast.Name) and n.id in params:
                            rebound.add(n.id)
        for nm in params:
            if nm in rebound:
                self.emit(1, f"let mut {nm} : {self.LEAN_TY[self.ty[nm]]} := {nm}")
        return super().run()


class SafeNp(base.SafeMixin):
    """instrumentation of the vector idioms of `KNp` (see the module docstring)"""

    def size_of(self, e):
        """`.size` of the array expression `e` as the translator renders it"""
        if isinstance(e, ast.Call) and isinstance(e.func, ast.Name) and e.func.id == "ws2d":
            return f"{self.value_term(e)[1]}.size"
        return f"{paren(self.aexpr(e))}.size"

    def len_check(self, a, b, out, g):
        out.append(self.guarded(g, f"lenDiffer {self.size_of(a)} {self.size_of(b)}"))

    def ck(self, e, out, g=()):
        if isinstance(e, ast.ListComp):
            gen = e.generators[0] if len(e.generators) == 1 else None
            if gen is None:
                raise Unsupported("safe: nested comprehension")
            self.ck(gen.iter, out, g)
            inner = []
            self.with_comp_var(e, lambda: self.ck(e.elt, inner, g))
            if inner:
                raise Unsupported("safe: comprehension whose element has a subscript, a division or a kernel call")
            return
        if isinstance(e, ast.Subscript) and isinstance(e.value, ast.Name) and not isinstance(e.slice, (ast.Slice, ast.Tuple)) \
                and self.ty.get(e.value.id) in ARR and self.typeof(e.slice) == "arrbool":
            self.ck(e.slice, out, g)                     # a[M]: the mask must have the length of the array
            return self.len_check(e.slice, e.value, out, g)
        if isinstance(e, ast.UnaryOp) and isinstance(e.op, ast.Invert):
            return self.ck(e.operand, out, g)
        if isinstance(e, (ast.BinOp, ast.Compare)) and not (isinstance(e, ast.Compare) and len(e.ops) != 1):
            l, r = (e.left, e.right) if isinstance(e, ast.BinOp) else (e.left, e.comparators[0])
            super().ck(e, out, g)
            if self.typeof(l) in ARR and self.typeof(r) in ARR:
                self.len_check(l, r, out, g)
            return
        if np_call(e, "where") and len(e.args) == 3:
            super().ck(e, out, g)
            for alt in e.args[1:]:
                if self.typeof(alt) in ARR:
                    self.len_check(e.args[0], alt, out, g)
            return
        return super().ck(e, out, g)

    def stmt_checks(self, s):
        out = super().stmt_checks(s)
        if isinstance(s, ast.Assign) and len(s.targets) == 1 and isinstance(s.targets[0], ast.Subscript) \
                and isinstance(s.targets[0].slice, ast.Slice) and isinstance(s.targets[0].value, ast.Name):
            t = s.targets[0]
            if not (t.slice.lower is None and t.slice.upper is None and t.slice.step is None):
                raise Unsupported("safe: partial slice store")
            if self.typeof(s.value) in ARR:               # a[:] = B: NumPy raises unless len B = len a (a scalar is broadcast)
                self.len_check(s.value, t.value, out, ())
        if isinstance(s, ast.Expr) and np_call(s.value, "round") and len(s.value.args) == 3:
            self.len_check(s.value.args[0], s.value.args[2], out, ())
        return list(dict.fromkeys(out))


for _cfg in KERNELS:
    _cfg["translator"] = KNp
    _cfg["safe_mixin"] = SafeNp
    _cfg["safe_note"] = ("\nVector idioms (harness/py2lean_fixed.py): `lenDiffer m n` (Hdc/PySafeF.lean) is set when two arrays that NumPy combines cell by cell"
                         "\n(`A op B`, `np.where`, `a[:] = B`, `np.round(z, 0, out)`, the mask of `a[M] = s`) differ in length.")


def main():
    return base.main(kernels=KERNELS, tool="py2lean_fixed")


if __name__ == "__main__":
    sys.exit(main())
