#!/venv/bin/python
"""py2lean_num: translate floating-point loop kernels (Python source, via `ast`) into imperative Lean 4 over an abstract
carrier `α` (`Id.run do`) -> lean/Hdc/Gen/NumKernels.lean.  Companion of py2lean.py (integer kernels) and
translate_ws2d.py.  `Hdc/Props/GenNum.lean` proves the generated programs equal the hand models.

Kernels: tinterpolate (ops/tinterpolate.py), brentq (ops/stats.py), ws2doptv (ops/ws2doptv.py).

Conventions
  * scalars are `Int` (counters, indices, sizes) or `α` (data); arrays `Array α` or `Array Int`; types come from the kernel's
    declaration below plus inference (an expression is `Int` iff it is built from Int names / int literals with + - *);
  * float literals are looked up in the kernel's `consts` table and become parameters of the generated function (`0.0` -> `nat 0`);
  * `pow(x, 2)` -> `x * x`; `pow(10, e)` -> `F.pow10 e`; `log(10)` -> `F.ln10`; `log/sqrt` -> `F.log/F.sqrt`; `abs` -> `absv`;
    `min` -> `minv`; `round(e)` -> `rnd e`; `a == b` on data -> `eqv a b`; `ws2d(...)` -> the generated `Gen.Ws2d.ws2d`;
  * `for v in a:` / `for v in a[1:]:` become index loops reading the live array; tuple assignment evaluates the right-hand side first.
Unsupported constructs raise -> exit 1 -> broken obligation of the refinement theorems.

Instrumentation mode (`SafeMixin`; for every kernel declared with `safe=True`, IN ADDITION to the ordinary module, a second
module `Hdc/Gen/Safe<Name>.lean`, namespace `Hdc.Gen.Safe`): the same program, statement by statement, with one extra mutable flag
`bad : Bool` (declared first, initially `false`).  Before every statement `bad := (bad || c1 || c2 ...)`, where the `ci` are
computed from the PYTHON AST of the expressions the statement evaluates (targets, value, loop iterable, `if` test; not the nested
bodies), in evaluation order, duplicates within a statement dropped:
  * `oob a.size i`            every subscript `a[i]` (read or store), unless `-len a <= i < len a`        [Hdc/PySafe.lean]
  * `badSlice a.size lo hi`   every slice `a[lo:hi]` unless `0 <= lo <= hi <= len a`; `badSliceFrom a.size lo` for `a[lo:]`;
                              `a[:hi]` is `a[0:hi]`; `a[:]` is never flagged (NumPy never raises on a slice, it wraps and clamps:
                              flagged = the slice is not literally the cells lo..hi-1; the length agreement of `a[:] = b` is NOT
                              instrumented); `for v in a` / `for v in a[lo:]` read by construction inside the array (only the slice
                              bound is checked)
  * `eqv e2 (nat 0)`          every SCALAR division `e1 / e2` (both operands `int` / `num`); `decide (k = 0)` when `e2` is an `int`;
                              nothing when `e2` is a non-zero literal (`/ 2`)
                              (array-valued NumPy divisions do not raise and are not instrumented)
  * `(Gen.Safe.g args).2`     every call of another translated kernel `g` (ws2d, brentq, gammafit, ...); the call itself becomes
                              `(Gen.Safe.g args).1`
  * operands of `and` / `or` / `x if c else y` that Python evaluates conditionally carry their guard: `(g && c)`
and every `return e` becomes `return (e, bad)`.  Constructs the instrumentation does not understand raise `Unsupported("safe: ...")`
(the Safe module is then reported FAILED); the ordinary output never depends on this mode (byte-identical).
Hooks for translators that subclass `K` with further constructs (py2lean_fixed, py2lean_stats, ...): the kernel cfg may carry
`safe_mixin=<subclass of SafeMixin>` (its `ck` / `stmt_checks` know the subclass's constructs, e.g. NumPy vector idioms) and
`safe_note="<text>"` (appended to the header comment of the Safe module: names the additional checks).
"""
import ast
import hashlib
import os
import re
import sys
from pathlib import Path

REPO = Path(os.environ.get("HDC_REPO", "/repo"))
OUT = Path(__file__).resolve().parent.parent / "lean" / "Hdc" / "Gen" / "NumKernels.lean"


class Unsupported(Exception):
    pass


KERNELS = [
    dict(name="tinterpolate", file="hdc/algo/ops/tinterpolate.py", func="tinterpolate",
         params=[("x", "arrnum"), ("template", "arrnum"), ("labels", "arrint"), ("template_out", "skip"), ("out", "arrnum")],
         consts={"1e-05": "lam"}, extra="(rnd : α → α) (lam : α)", ret="out", uses="[IntCast α]", imports=["Hdc.Gen.Ws2d"],
         safe=True, safe_imports=["Hdc.Gen.SafeWs2d"]),
    dict(name="brentq", file="hdc/algo/ops/stats.py", func="brentq",
         params=[("xa", "num"), ("xb", "num"), ("s", "num")],
         consts={"2e-12": "xtol", "8.881784197001252e-16": "rtol"}, extra="(f : α → α) (xtol rtol : α)", ret=None, lambda_as="f", uses="", safe=True),
    dict(name="ws2doptv", file="hdc/algo/ops/ws2doptv.py", func="ws2doptv",
         params=[("y", "arrnum"), ("nodata", "num"), ("llas", "arrnum"), ("out", "arrnum"), ("lopt", "arrnum")],
         consts={}, extra="(F : VFns α) (rnd : α → α)", ret=("out", "lopt"), uses="", imports=["Hdc.Gen.Ws2d"],
         safe=True, safe_imports=["Hdc.Gen.SafeWs2d"]),
]


class K:
    def __init__(self, cfg, fn):
        self.cfg, self.fn = cfg, fn
        self.ty = {n: t for n, t in cfg["params"] if t != "skip"}
        self.lines = []
        self.declared = set(self.ty)
        self.tmp = 0

    # ---------------- types
    def typeof(self, e):
        if isinstance(e, ast.Constant):
            if isinstance(e.value, bool):
                return "bool"
            return "int" if isinstance(e.value, int) else "num"
        if isinstance(e, ast.Name):
            if e.id in self.ty:
                return self.ty[e.id]
            raise Unsupported(f"unknown name {e.id}")
        if isinstance(e, ast.UnaryOp) and isinstance(e.op, ast.USub):
            return self.typeof(e.operand)
        if isinstance(e, ast.BinOp):
            if isinstance(e.op, ast.Div):
                return "num"
            lt, rt = self.typeof(e.left), self.typeof(e.right)
            return "int" if lt == rt == "int" else "num"
        if isinstance(e, ast.Subscript):
            if isinstance(e.value, ast.Attribute) and e.value.attr == "shape":
                return "int"
            t = self.typeof(e.value)
            return "num" if t == "arrnum" else "int"
        if isinstance(e, ast.Call):
            f = e.func
            if isinstance(f, ast.Name):
                if f.id == "len":
                    return "int"
                if f.id in ("pow", "log", "sqrt", "abs", "min", "round", "float64") or f.id == self.cfg.get("lambda_name"):
                    return "num"
                if f.id == "ws2d":
                    return "arrnum"
            if isinstance(f, ast.Attribute) and f.attr == "copy":
                return self.typeof(f.value)
            if isinstance(f, ast.Attribute) and f.attr == "zeros":
                return "arrnum"
        if isinstance(e, ast.Attribute) and e.attr == "shape":
            return "shape"
        if isinstance(e, ast.IfExp):
            return self.typeof(e.body)
        raise Unsupported("type of " + ast.dump(e)[:80])

    # ---------------- expressions
    def iexpr(self, e):
        if isinstance(e, ast.Constant):
            return f"({e.value} : Int)" if e.value >= 0 else f"(-{-e.value} : Int)"
        if isinstance(e, ast.Name):
            return e.id
        if isinstance(e, ast.UnaryOp):
            return f"(-{self.iexpr(e.operand)})"
        if isinstance(e, ast.BinOp):
            op = {ast.Add: "+", ast.Sub: "-", ast.Mult: "*"}[type(e.op)]
            return f"({self.iexpr(e.left)} {op} {self.iexpr(e.right)})"
        if isinstance(e, ast.Subscript) and isinstance(e.value, ast.Attribute) and e.value.attr == "shape":
            return f"({e.value.value.id}.size : Int)"
        if isinstance(e, ast.Subscript):
            return f"(rdI {e.value.id} {self.iexpr(e.slice)})"
        if isinstance(e, ast.Call) and isinstance(e.func, ast.Name) and e.func.id == "len":
            return f"({e.args[0].id}.size : Int)"
        raise Unsupported("int expr " + ast.dump(e)[:80])

    def nexpr(self, e):
        """carrier-valued term; integer sub-terms are cast"""
        t = self.typeof(e)
        if t == "int":
            if isinstance(e, ast.Constant):
                return f"(nat {e.value})" if e.value >= 0 else f"(-(nat {-e.value}))"
            if isinstance(e, ast.UnaryOp) and isinstance(e.operand, ast.Constant):
                return f"(-(nat {e.operand.value}))"
            return f"(({self.iexpr(e)} : Int) : α)"
        if isinstance(e, ast.Constant):
            key = repr(float(e.value))
            if float(e.value) == 0.0:
                return "(nat 0)"
            if key in self.cfg["consts"]:
                return self.cfg["consts"][key]
            raise Unsupported(f"float literal {key}")
        if isinstance(e, ast.Name):
            return e.id
        if isinstance(e, ast.UnaryOp):
            return f"(-{self.nexpr(e.operand)})"
        if isinstance(e, ast.BinOp):
            op = {ast.Add: "+", ast.Sub: "-", ast.Mult: "*", ast.Div: "/"}.get(type(e.op))
            if op is None:
                raise Unsupported("operator")
            return f"({self.nexpr(e.left)} {op} {self.nexpr(e.right)})"
        if isinstance(e, ast.Subscript):
            return f"(rd {e.value.id} {self.iexpr(e.slice)})"
        if isinstance(e, ast.Call) and isinstance(e.func, ast.Name):
            f, a = e.func.id, e.args
            if f == "pow" and isinstance(a[1], ast.Constant) and a[1].value == 2:
                x = self.nexpr(a[0])
                return f"({x} * {x})"
            if f == "pow" and isinstance(a[0], ast.Constant) and a[0].value == 10:
                return f"(F.pow10 {self.nexpr(a[1])})"
            if f == "log" and isinstance(a[0], ast.Constant) and a[0].value == 10:
                return "F.ln10"
            if f == "log":
                return f"(F.log {self.nexpr(a[0])})"
            if f == "sqrt":
                return f"(F.sqrt {self.nexpr(a[0])})"
            if f == "abs":
                return f"(absv {self.nexpr(a[0])})"
            if f in ("log", "sqrt", "abs", "round", "float64") and (len(a) != 1 or e.keywords):
                raise Unsupported(f"{f}() with {len(a)} arguments / keywords")
            if f == "min":
                if len(a) != 2 or e.keywords:
                    raise Unsupported(f"min() with {len(a)} arguments")
                return f"(minv {self.nexpr(a[0])} {self.nexpr(a[1])})"
            if f == "round":
                return f"(rnd {self.nexpr(a[0])})"
            if f == "float64":
                return self.nexpr(a[0])
            if f == self.cfg.get("lambda_name"):
                return f"(f {self.nexpr(a[0])})"
        if isinstance(e, ast.IfExp):
            return f"(if {self.bexpr(e.test)} then {self.nexpr(e.body)} else {self.nexpr(e.orelse)})"
        raise Unsupported("num expr " + ast.dump(e)[:80])

    def bexpr(self, e):
        if isinstance(e, ast.Compare) and len(e.ops) == 1:
            l, r, op = e.left, e.comparators[0], e.ops[0]
            both_int = self.typeof(l) == "int" and self.typeof(r) == "int"
            if both_int:
                sym = {ast.Lt: "<", ast.LtE: "≤", ast.Gt: ">", ast.GtE: "≥", ast.Eq: "=", ast.NotEq: "≠"}[type(op)]
                return f"(decide ({self.iexpr(l)} {sym} {self.iexpr(r)}))"
            a, b = self.nexpr(l), self.nexpr(r)
            if isinstance(op, ast.Lt):
                return f"(decide ({a} < {b}))"
            if isinstance(op, ast.Gt):
                return f"(decide ({b} < {a}))"
            if isinstance(op, ast.Eq):
                return f"(eqv {a} {b})"
            if isinstance(op, ast.NotEq):
                return f"(!(eqv {a} {b}))"
            raise Unsupported("float comparison <= / >=")
        if isinstance(e, ast.BoolOp):
            op = " && " if isinstance(e.op, ast.And) else " || "
            return "(" + op.join(self.bexpr(v) for v in e.values) + ")"
        if isinstance(e, ast.UnaryOp) and isinstance(e.op, ast.Not):
            return f"(!{self.bexpr(e.operand)})"
        raise Unsupported("condition " + ast.dump(e)[:80])

    # ---------------- statements
    def emit(self, ind, txt):
        self.lines.append("  " * ind + txt)

    LEAN_TY = {"int": "Int", "num": "α", "arrnum": "Array α", "arrint": "Array Int"}

    def set_name(self, name, t, term, ind):
        if name in self.declared:
            if self.ty.get(name) != t:
                raise Unsupported(f"{name} changes type {self.ty.get(name)} -> {t}")
            self.emit(ind, f"{name} := {term}")
        else:
            self.declared.add(name)
            self.ty[name] = t
            self.emit(ind, f"let mut {name} : {self.LEAN_TY[t]} := {term}")

    def callee_term(self, name, args):
        """hook: the call of another translated kernel (the instrumentation mode calls the instrumented callee)"""
        return ("Gen.Ws2d.ws2d" if name == "ws2d" else f"Gen.NumKernels.{name}") + " " + args

    def value_term(self, v):
        """(type, term) of a right-hand side"""
        if isinstance(v, ast.Call) and isinstance(v.func, ast.Attribute) and v.func.attr == "copy":
            return self.typeof(v.func.value), v.func.value.id
        if isinstance(v, ast.Call) and isinstance(v.func, ast.Attribute) and v.func.attr == "zeros":
            if len(v.args) != 1 or any(not (kw.arg == "dtype" and ast.unparse(kw.value).split(".")[-1].strip("'\"") == "float64") for kw in v.keywords):
                raise Unsupported("np.zeros with a dtype other than float64 / extra arguments: " + ast.unparse(v))
            a = v.args[0]
            size = f"{a.value.id}.size" if (isinstance(a, ast.Attribute) and a.attr == "shape") else f"({self.iexpr(a)}).toNat"
            return "arrnum", f"Array.replicate {size} (nat 0)"
        if isinstance(v, ast.Call) and isinstance(v.func, ast.Name) and v.func.id == "ws2d":
            a = v.args
            return "arrnum", self.callee_term("ws2d", f"{a[0].id} {self.nexpr(a[1])} {a[2].id}")
        if isinstance(v, ast.Lambda):
            return "lambda", None
        if isinstance(v, ast.Subscript) and isinstance(v.slice, ast.Slice) and v.slice.lower is None and v.slice.upper is None and isinstance(v.value, ast.Name):
            # a[:] is a VIEW in NumPy; translating it as the array's value is right only on the right-hand side of a slice STORE
            # (`out[:] = y[:]`), which copies.  Binding a name to it (`temp = template[:]`) aliases the two arrays: refused.
            if not getattr(self, "_rhs_of_slice_store", False):
                raise Unsupported("a name bound to a view `a[:]` (aliasing): " + ast.unparse(v))
            return self.ty[v.value.id], v.value.id          # a[:] : the whole array
        t = self.typeof(v)
        if t == "int":
            return t, self.iexpr(v)
        if t == "num":
            return t, self.nexpr(v)
        raise Unsupported("value " + ast.dump(v)[:80])

    def check_signature(self):
        """the `def` line must be the one this translator was configured for: parameter names in order, no defaults other than the
        declared ones (a reordered or renamed parameter would otherwise leave the generated program unchanged)"""
        a = self.fn.args
        if a.vararg or a.kwarg or a.kwonlyargs or a.posonlyargs:
            raise Unsupported("signature: *args / **kwargs / keyword-only parameters")
        names = [x.arg for x in a.args]
        want = [n for n, _ in self.cfg["params"]] + list(self.cfg.get("const_params", {}))     # const_params: folded at their default
        if names != want:
            raise Unsupported(f"signature changed: def {self.fn.name}({', '.join(names)}) but the translator is configured for ({', '.join(want)})")
        defaults = {n.arg: ast.unparse(d) for n, d in zip(a.args[len(a.args) - len(a.defaults):], a.defaults)}
        declared = {k: repr(v) for k, v in {**self.cfg.get("defaults", {}), **self.cfg.get("const_params", {})}.items()}
        if defaults != declared:
            raise Unsupported(f"signature: default values {defaults} (configured: {declared})")

    def stmt(self, s, ind):
        if isinstance(s, ast.Expr) and isinstance(s.value, ast.Constant):
            return
        if isinstance(s, ast.Assign) and len(s.targets) == 1:
            t, v = s.targets[0], s.value
            if isinstance(t, ast.Tuple):
                if not isinstance(v, ast.Tuple) or len(v.elts) != len(t.elts):
                    raise Unsupported("tuple assignment")
                tmps = []
                for tv in v.elts:
                    self.tmp += 1
                    ty, term = self.value_term(tv)
                    self.emit(ind, f"let tmp{self.tmp} : {self.LEAN_TY[ty]} := {term}")
                    tmps.append((ty, f"tmp{self.tmp}"))
                for tt, (ty, nm) in zip(t.elts, tmps):
                    self.set_name(tt.id, ty, nm, ind)
                return
            if isinstance(t, ast.Name):
                # chained `spre = scur = e` arrives as two targets; single target here
                ty, term = self.value_term(v)
                if ty == "lambda":
                    self.cfg["lambda_name"] = t.id
                    return
                return self.set_name(t.id, ty, term, ind)
            if isinstance(t, ast.Subscript) and isinstance(t.value, ast.Name):
                arr = t.value.id
                if isinstance(t.slice, ast.Slice):
                    self._rhs_of_slice_store = True
                    try:
                        ty, term = self.value_term(v)
                    finally:
                        self._rhs_of_slice_store = False
                    if ty == "arrnum":
                        return self.emit(ind, f"{arr} := {term}")
                    return self.emit(ind, f"{arr} := {arr}.map (fun _ => {term})")
                if self.ty[arr] == "arrnum":
                    return self.emit(ind, f"{arr} := wr {arr} {self.iexpr(t.slice)} {self.nexpr(v)}")
                return self.emit(ind, f"{arr} := wrI {arr} {self.iexpr(t.slice)} {self.iexpr(v)}")
        if isinstance(s, ast.Assign) and len(s.targets) == 2 and all(isinstance(t, ast.Name) for t in s.targets):
            ty, term = self.value_term(s.value)
            self.tmp += 1
            self.emit(ind, f"let tmp{self.tmp} : {self.LEAN_TY[ty]} := {term}")
            for t in s.targets:
                self.set_name(t.id, ty, f"tmp{self.tmp}", ind)
            return
        if isinstance(s, ast.AugAssign) and isinstance(s.op, ast.Add):
            t = s.target
            if isinstance(t, ast.Name):
                ty = self.ty[t.id]
                rhs = self.iexpr(s.value) if ty == "int" else self.nexpr(s.value)
                return self.emit(ind, f"{t.id} := ({t.id} + {rhs})")
            if isinstance(t, ast.Subscript):
                i = self.iexpr(t.slice)
                return self.emit(ind, f"{t.value.id} := wr {t.value.id} {i} ((rd {t.value.id} {i}) + {self.nexpr(s.value)})")
        if isinstance(s, ast.For) and isinstance(s.target, ast.Name):
            it = s.iter
            var = s.target.id
            if isinstance(it, ast.Call) and isinstance(it.func, ast.Name) and it.func.id == "range":
                a = it.args
                if len(a) == 1:
                    rng = f"pyRange (0 : Int) {self.iexpr(a[0])}"
                elif len(a) == 2:
                    rng = f"pyRange {self.iexpr(a[0])} {self.iexpr(a[1])}"
                else:
                    raise Unsupported("range form")
                if var == "_":
                    var = "_it"
                if var in self.declared:          # Python re-uses an existing name as loop variable
                    self.emit(ind, f"for {var}_it in {rng} do")
                    self.emit(ind + 1, f"{var} := {var}_it")
                else:
                    self.ty[var] = "int"
                    self.declared.add(var)
                    self.emit(ind, f"for {var} in {rng} do")
            elif isinstance(it, ast.Name) and self.ty.get(it.id) in ("arrnum", "arrint"):
                self.tmp += 1
                ix = f"it{self.tmp}"
                self.emit(ind, f"for {ix} in pyRange (0 : Int) ({it.id}.size : Int) do")
                el = "num" if self.ty[it.id] == "arrnum" else "int"
                self.ty[var] = el
                self.declared.add(var)
                self.emit(ind + 1, f"let {var} : {self.LEAN_TY[el]} := {'rd' if el == 'num' else 'rdI'} {it.id} {ix}")
            elif isinstance(it, ast.Subscript) and isinstance(it.slice, ast.Slice) and it.slice.upper is None and isinstance(it.value, ast.Name):
                self.tmp += 1
                ix = f"it{self.tmp}"
                arr = it.value.id
                self.emit(ind, f"for {ix} in pyRange {self.iexpr(it.slice.lower)} ({arr}.size : Int) do")
                el = "num" if self.ty[arr] == "arrnum" else "int"
                self.ty[var] = el
                self.declared.add(var)
                self.emit(ind + 1, f"let {var} : {self.LEAN_TY[el]} := {'rd' if el == 'num' else 'rdI'} {arr} {ix}")
            else:
                raise Unsupported("for iterable")
            for b in s.body:
                self.stmt(b, ind + 1)
            return
        if isinstance(s, ast.If):
            self.emit(ind, f"if {self.bexpr(s.test)} then")
            for b in s.body:
                self.stmt(b, ind + 1)
            if s.orelse:
                self.emit(ind, "else")
                for b in s.orelse:
                    self.stmt(b, ind + 1)
            return
        if isinstance(s, ast.Return):
            return self.emit(ind, f"return {self.nexpr(s.value)}")
        if isinstance(s, ast.Break):
            return self.emit(ind, "break")
        if isinstance(s, ast.Expr) and isinstance(s.value, ast.Call) and isinstance(s.value.func, ast.Attribute) and s.value.func.attr == "round":
            a = s.value.args      # np.round(z, 0, out)
            if len(a) != 3 or s.value.keywords or not (isinstance(a[1], ast.Constant) and a[1].value == 0 and not isinstance(a[1].value, bool)):
                raise Unsupported("np.round other than np.round(z, 0, out): " + ast.unparse(s.value))
            return self.emit(ind, f"{a[2].id} := {a[0].id}.map rnd")
        raise Unsupported(type(s).__name__ + ": " + ast.dump(s)[:100])

    # hooks: initial value of a predeclared local, by type (subclasses may add array types through INIT or PREDECL_INIT)
    INIT = {"int": "0", "num": "nat 0", "arrnum": "#[]", "arrint": "#[]"}
    PREDECL_INIT = INIT

    def _init_table(self):
        return {**self.INIT, **self.PREDECL_INIT}

    def predeclare(self):
        """names first assigned inside a loop / branch are visible afterwards in Python"""
        top = set()
        for s in self.fn.body:
            if isinstance(s, ast.Assign):
                for t in s.targets:
                    for n in ([t] if isinstance(t, ast.Name) else (t.elts if isinstance(t, ast.Tuple) else [])):
                        if isinstance(n, ast.Name):
                            top.add(n.id)
        inner = {}
        for node in ast.walk(self.fn):
            if isinstance(node, (ast.For, ast.If)):
                for sub in ast.walk(node):
                    if isinstance(sub, ast.Assign):
                        for t in sub.targets:
                            names = [t] if isinstance(t, ast.Name) else (list(t.elts) if isinstance(t, ast.Tuple) else [])
                            for n in names:
                                if isinstance(n, ast.Name) and n.id not in top and n.id not in self.declared:
                                    inner.setdefault(n.id, sub)
        # dry type inference over all assignments in source order (two passes), on a scratch environment
        saved = dict(self.ty)
        scratch = dict(self.ty)
        for _ in range(2):
            for node in ast.walk(self.fn):
                if isinstance(node, ast.For) and isinstance(node.target, ast.Name) and isinstance(node.iter, ast.Call):
                    scratch.setdefault(node.target.id, "int")
                if isinstance(node, ast.Assign):
                    for t in node.targets:
                        pairs = [(t, node.value)] if isinstance(t, ast.Name) else (list(zip(t.elts, node.value.elts)) if isinstance(t, ast.Tuple) and isinstance(node.value, ast.Tuple) else [])
                        for n, v in pairs:
                            if isinstance(n, ast.Name) and n.id not in scratch:
                                self.ty = scratch
                                try:
                                    ty, _ = self.value_term(v)
                                    if ty in self._init_table():
                                        scratch[n.id] = ty
                                except Unsupported:
                                    pass
                                finally:
                                    self.ty = saved
        self.ty = saved
        for nm, sub in inner.items():
            hint = self.cfg.get("locals", {}).get(nm) or scratch.get(nm) or "num"
            self.ty[nm] = hint
            self.declared.add(nm)
            init = self._init_table()[hint]
            self.emit(1, f"let mut {nm} : {self.LEAN_TY[hint]} := {init}")

    def run(self):
        self.check_signature()
        for nm, t in self.cfg["params"]:
            if t in ("arrnum", "arrint") and nm in {"out", "lopt"}:
                self.emit(1, f"let mut {nm} : {self.LEAN_TY[t]} := {nm}")
        self.predeclare()
        for s in self.fn.body:
            self.stmt(s, 1)
        ret = self.cfg["ret"]
        if ret is not None:
            self.emit(1, "return " + (ret if isinstance(ret, str) else "(" + ", ".join(ret) + ")"))
        return "\n".join(self.lines)


class SafeMixin:
    """Instrumentation mode (see the module docstring): mixed in FRONT of a translator class (`K` or a subclass), it adds
    the flag `bad` to the statements that class emits.  The checks are computed from the Python AST, independently of how
    the translator renders the statement."""
    SAFE_NS = "Gen.Safe"
    _want = "1"

    # ---------------- calls of translated kernels: the instrumented callee
    def callee_term(self, name, args):
        return f"({self.SAFE_NS}.{name} {args}).{self._want}"

    def callee_names(self):
        return {"ws2d"} | set(self.cfg.get("callees", ()))

    def callee_flag(self, e):
        """the flag returned by the instrumented callee for the call `e`"""
        self._want = "2"
        try:
            if e.func.id == "ws2d":
                return self.value_term(e)[1]
            t = self.call_kernel(e)
            return t[1:-1] if t.startswith("((") and t.endswith(")") else t
        finally:
            self._want = "1"

    # ---------------- checks of one expression
    def guarded(self, g, c):
        return c if not g else "(" + " && ".join(list(g) + [f"({c})"]) + ")"

    def ck(self, e, out, g=()):
        if e is None or isinstance(e, (ast.Constant, ast.Name)):
            return
        if isinstance(e, ast.Lambda):
            # a closure is evaluated by its caller; it becomes a parameter (`f`) of the generated function
            for n in ast.walk(e.body):
                if isinstance(n, ast.Subscript) or (isinstance(n, ast.BinOp) and isinstance(n.op, (ast.Div, ast.FloorDiv, ast.Mod))) \
                        or (isinstance(n, ast.Call) and isinstance(n.func, ast.Name) and n.func.id in self.callee_names()):
                    raise Unsupported("safe: lambda with a subscript, a division or a kernel call")
            return
        if isinstance(e, ast.Attribute):
            return self.ck(e.value, out, g)
        if isinstance(e, ast.Subscript):
            if isinstance(e.value, ast.Attribute) and e.value.attr == "shape":       # x.shape[0]: a tuple
                return
            if not isinstance(e.value, ast.Name):
                raise Unsupported("safe: subscript of an expression")
            arr, sl = e.value.id, e.slice
            if self.ty.get(arr) not in ("arrnum", "arrint"):
                raise Unsupported(f"safe: subscript of {arr} : {self.ty.get(arr)}")
            if isinstance(sl, ast.Slice):
                if sl.step is not None:
                    raise Unsupported("safe: slice step")
                self.ck(sl.lower, out, g)
                self.ck(sl.upper, out, g)
                if sl.lower is None and sl.upper is None:
                    return
                for b in (sl.lower, sl.upper):
                    if b is not None and self.typeof(b) != "int":
                        raise Unsupported("safe: slice bound")
                if sl.upper is None:
                    out.append(self.guarded(g, f"badSliceFrom {arr}.size {self.iexpr(sl.lower)}"))
                else:
                    lo = "(0 : Int)" if sl.lower is None else self.iexpr(sl.lower)
                    out.append(self.guarded(g, f"badSlice {arr}.size {lo} {self.iexpr(sl.upper)}"))
                return
            if isinstance(sl, ast.Tuple) or self.typeof(sl) != "int":
                raise Unsupported("safe: index that is not an integer")
            self.ck(sl, out, g)
            out.append(self.guarded(g, f"oob {arr}.size {self.iexpr(sl)}"))
            return
        if isinstance(e, ast.BinOp):
            self.ck(e.left, out, g)
            self.ck(e.right, out, g)
            if isinstance(e.op, (ast.Div, ast.FloorDiv, ast.Mod)):
                lt, rt = self.typeof(e.left), self.typeof(e.right)
                if lt in ("int", "num") and rt in ("int", "num"):
                    if isinstance(e.right, ast.Constant) and isinstance(e.right.value, (int, float)) and not isinstance(e.right.value, bool):
                        if e.right.value == 0:
                            out.append(self.guarded(g, "true"))
                        # a non-zero literal divisor (`/ 2`) needs no check
                    elif rt == "int":
                        out.append(self.guarded(g, f"decide ({self.iexpr(e.right)} = (0 : Int))"))
                    else:
                        out.append(self.guarded(g, f"eqv {self.nexpr(e.right)} (nat 0)"))
                else:
                    self.array_divs.append(ast.unparse(e))          # NumPy array division: does not raise
            return
        if isinstance(e, ast.UnaryOp):
            return self.ck(e.operand, out, g)
        if isinstance(e, ast.Compare):
            self.ck(e.left, out, g)
            for c in e.comparators:
                self.ck(c, out, g)
            return
        if isinstance(e, ast.BoolOp):
            gs = list(g)
            for v in e.values:
                self.ck(v, out, tuple(gs))
                b = self.bexpr(v)
                gs.append(b if isinstance(e.op, ast.And) else f"(!{b})")
            return
        if isinstance(e, ast.IfExp):
            self.ck(e.test, out, g)
            b = self.bexpr(e.test)
            self.ck(e.body, out, tuple(g) + (b,))
            self.ck(e.orelse, out, tuple(g) + (f"(!{b})",))
            return
        if isinstance(e, (ast.Tuple, ast.List)):
            for x in e.elts:
                self.ck(x, out, g)
            return
        if isinstance(e, ast.Call):
            if isinstance(e.func, ast.Attribute):
                self.ck(e.func.value, out, g)
            for a in e.args:
                self.ck(a, out, g)
            for kw in e.keywords:
                self.ck(kw.value, out, g)
            if isinstance(e.func, ast.Name) and e.func.id in self.callee_names():
                out.append(self.guarded(g, self.callee_flag(e)))
            return
        raise Unsupported("safe: " + type(e).__name__)

    def stmt_checks(self, s):
        out = []
        if isinstance(s, ast.Assign):
            self.ck(s.value, out)
            for t in s.targets:
                self.ck(t, out)
        elif isinstance(s, ast.AugAssign):
            self.ck(s.value, out)
            self.ck(s.target, out)
        elif isinstance(s, ast.For):
            self.ck(s.iter, out)
        elif isinstance(s, ast.If):
            self.ck(s.test, out)
        elif isinstance(s, (ast.Return, ast.Expr)):
            self.ck(s.value, out)
        elif not isinstance(s, (ast.Break, ast.Continue, ast.Pass)):
            raise Unsupported("safe: statement " + type(s).__name__)
        return list(dict.fromkeys(out))

    # ---------------- statements
    def stmt(self, s, ind):
        if isinstance(s, ast.Expr) and isinstance(s.value, ast.Constant):
            return super().stmt(s, ind)
        ndiv = len(self.array_divs)
        cs = self.stmt_checks(s)
        if cs:
            self.emit(ind, "bad := (bad || " + " || ".join(f"({c})" for c in cs) + ")")
        first = len(self.lines)
        r = super().stmt(s, ind)
        if not isinstance(s, (ast.For, ast.If)):
            # safety net: an array access / a division in the emitted statement that no check accounts for
            txt = " ".join(self.lines[first:])
            if re.search(r"(?<![A-Za-z0-9_.])(rd|rdI|wr|wrI)(?![A-Za-z0-9_])", txt) and not any(c.lstrip("(").startswith(("oob", "badSlice")) or " oob " in c for c in cs):
                raise Unsupported("safe: array access without a check in: " + txt[:80])
            lit = any(isinstance(n, ast.BinOp) and isinstance(n.op, ast.Div) and isinstance(n.right, ast.Constant) for n in ast.walk(s))
            if " / " in txt and not lit and not any(("eqv " in c or "decide (" in c) for c in cs) and len(self.array_divs) == ndiv:
                raise Unsupported("safe: division without a check in: " + txt[:80])
        return r

    def emit(self, ind, txt):
        if txt.startswith("return "):
            txt = f"return ({txt[len('return '):]}, bad)"
        super().emit(ind, txt)

    def run(self):
        self.array_divs = []
        self.emit(1, "let mut bad : Bool := false")       # declared first: first component of every loop state
        return super().run()


def safe_module_of(cfg):
    return cfg.get("safe_module") or "Safe" + module_of(cfg)[len("Num"):]


HEADER = """import Hdc.Num
import Hdc.Model.Smooth
import Hdc.Model.Stats
/-
GENERATED by harness/py2lean_num.py (fixed prelude).  Do not edit.
Statement-by-statement translations of floating-point loop kernels over an abstract carrier `α` (Hdc/Gen/Num*.lean).
-/
namespace Hdc.Gen.NumKernels
open Hdc
variable {α : Type} [Add α] [Sub α] [Mul α] [Div α] [Neg α] [NatCast α] [LT α] [DecidableLT α]

def ix (n : Nat) (i : Int) : Nat := if i < 0 then (i + (n : Int)).toNat else i.toNat
def rd (a : Array α) (i : Int) : α := a.getD (ix a.size i) (nat 0)
def wr (a : Array α) (i : Int) (v : α) : Array α := a.setIfInBounds (ix a.size i) v
def rdI (a : Array Int) (i : Int) : Int := a.getD (ix a.size i) 0
def wrI (a : Array Int) (i : Int) (v : Int) : Array Int := a.setIfInBounds (ix a.size i) v
def pyRange (a b : Int) : List Int := (List.range (b - a).toNat).map fun (k : Nat) => a + Int.ofNat k

"""


def write_if_changed(path, text):
    path.parent.mkdir(parents=True, exist_ok=True)
    if not path.exists() or path.read_text() != text:
        tmp = path.with_suffix(".tmp")
        tmp.write_text(text)
        tmp.replace(path)
        print(f"py2lean_num: wrote {path}")


def module_of(cfg):
    return cfg.get("module") or "Num" + cfg["name"].capitalize()      # hook: explicit module name


def main(kernels=None, tool="py2lean_num"):
    """One generated module per kernel (Hdc/Gen/Num<Name>.lean) on top of the fixed prelude Hdc/Gen/NumBase.lean.  A kernel that
    cannot be translated is reported as `FAILED <module>: reason` (exit 1); its previous output stays (stale, treated as broken)."""
    gen = OUT.parent
    write_if_changed(gen / "NumBase.lean", HEADER + "end Hdc.Gen.NumKernels\n")
    rc = 0
    for cfg in (kernels or KERNELS):
        module = module_of(cfg)
        try:
            src = (REPO / cfg["file"]).read_text()
            mod = ast.parse(src)
            fn = [n for n in ast.walk(mod) if isinstance(n, ast.FunctionDef) and n.name == cfg["func"]][-1]      # a later def shadows an earlier one
            k = (cfg.get("translator") or K)(cfg, fn)
            body = k.run()
            sig = " ".join(f"({n} : {K.LEAN_TY[t]})" for n, t in cfg["params"] if t != "skip")
            ret = cfg["ret"]
            rty = cfg.get("rty") or ("α" if ret is None else ("Array α" if isinstance(ret, str) else " × ".join("Array α" for _ in ret)))
            sha = hashlib.sha256(ast.get_source_segment(src, fn).encode()).hexdigest()[:16]
            imports = "".join(f"import {m}\n" for m in ["Hdc.Gen.NumBase"] + cfg.get("imports", []))
            text = (f"{imports}/-\nGENERATED by harness/{tool}.py from {cfg['file']}::{cfg['func']} (sha256 of the function source {sha}).  Do not edit.\n-/\n"
                    f"namespace Hdc.Gen.NumKernels\nopen Hdc\nvariable {{α : Type}} [Add α] [Sub α] [Mul α] [Div α] [Neg α] [NatCast α] [LT α] [DecidableLT α]\n\n"
                    f"/-- `{cfg['file']}::{cfg['func']}` -/\ndef {cfg['name']} {cfg['uses']} {cfg['extra']} {sig} : {rty} := Id.run do\n{body}\n\nend Hdc.Gen.NumKernels\n")
            write_if_changed(gen / f"{module}.lean", text)
            if cfg.get("safe"):
                module = safe_module_of(cfg)
                cls = cfg.get("translator") or K
                mix = cfg.get("safe_mixin") or SafeMixin          # hook: a subclass of SafeMixin that knows the subclass's constructs
                ks = type("Safe" + cls.__name__, (mix, cls), {})(cfg, fn)
                body = ks.run()
                imports = "".join(f"import {m}\n" for m in ["Hdc.Gen.NumBase", "Hdc.PySafe"] + cfg.get("imports", []) + cfg.get("safe_imports", []))
                note = ("  Array-valued divisions (not instrumented): " + "; ".join(dict.fromkeys(ks.array_divs)) + ".") if ks.array_divs else ""
                note += cfg.get("safe_note", "")          # hook: further checks a `safe_mixin` emits
                text = (f"{imports}/-\nGENERATED by harness/{tool}.py (instrumentation mode) from {cfg['file']}::{cfg['func']} (sha256 of the function source {sha}).  Do not edit.\n"
                        f"The statements of `Hdc.Gen.NumKernels.{cfg['name']}` plus the flag `bad`: set when a subscript is outside `[-len, len)`, a slice is not\n"
                        f"`0 <= lo <= hi <= len`, a scalar divisor is zero, or an instrumented callee sets its flag.{note}\n-/\n"
                        f"namespace Hdc.Gen.Safe\nopen Hdc Hdc.Gen.NumKernels\nvariable {{α : Type}} [Add α] [Sub α] [Mul α] [Div α] [Neg α] [NatCast α] [LT α] [DecidableLT α]\n\n"
                        f"/-- `{cfg['file']}::{cfg['func']}`, instrumented -/\ndef {cfg['name']} {cfg['uses']} {cfg['extra']} {sig} : ({rty}) × Bool := Id.run do\n{body}\n\nend Hdc.Gen.Safe\n")
                write_if_changed(gen / f"{module}.lean", text)
        except (Unsupported, StopIteration, KeyError, IndexError, AttributeError, OSError, SyntaxError) as e:
            print(f"FAILED Hdc.Gen.{module}: unsupported construct in {cfg['func']}: {e!r}")
            rc = 1
    return rc


if __name__ == "__main__":
    sys.exit(main())
