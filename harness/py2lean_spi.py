#!/venv/bin/python
"""py2lean_spi: translate the gamma / SPI kernels of ops/stats.py (gammafit, gammastd, gammastd_yxt, gammastd_grp)
statement by statement (Python source via `ast`) into imperative Lean 4 over an abstract carrier `α`.

Built on py2lean_num (imported as a module; class `S` extends `base.K`).  Output: one module per kernel
  Hdc/Gen/NumGammafit.lean  NumGammastd.lean  NumGammastdGrp.lean  NumGammastdYxt.lean
in the namespace `Hdc.Gen.NumKernels`.  `Hdc/Props/GenNumGamma*.lean` prove the programs equal the hand models.

Constructs added to py2lean_num (everything else raises `base.Unsupported`)
  expressions
    * `e ** 2` -> `e * e`;  integer-valued float literals (`32767.0`) -> `nat 32767`; `min`/`max` -> `minv`/`maxv`
    * `a >= b`, `a <= b` on data -> `!(decide (a < b))`, `!(decide (b < a))`   (non-NaN carrier convention, as for `==`)
    * `sc.gammainc(a, x)`, `sc.ndtri(p)` -> `F.gammainc`, `F.ndtri`; `sc.digamma` -> the parameter `digamma`
    * a call of another translated kernel `g(args)` -> `Gen.NumKernels.g <its extra parameters> args <defaults>`; when the callee
      closes a lambda over its parameters (`brentq`: `func = lambda a: log(a) - sc.digamma(a) - s`) the lambda is read from the
      callee's CURRENT source, its free callee-parameters are replaced by the actual arguments and it is passed as the `f` argument
    * arrays: `np.full_like(x, v, dtype=..)` -> `npFullLike x v`, `np.full(n, v, dtype=..)` -> `npFull n v`, `a[:]` -> `a`,
      `a[lo:hi]` -> `pySlice a lo hi` (Python clamping/wrap-around), `a[mask]` -> `npGather a mask`,
      `arr OP scalar` / `arr CMP scalar` -> `arr.map (fun e => …)`, `np.clip(arr, lo, hi)` -> `arr.map (fun e => clipv e lo hi)`,
      `(mask).sum()` -> `npCount mask`, `c[i, j]` on a 2-d int array -> `rdI2 c i j`, `x[r, c, :]` -> `rd3 x r c`
  statements
    * `continue`; `return (a, b)`; `return <array>`; `u, v = g(...)` (tuple-valued kernel); `r, c, t = x.shape`
    * `a[mask] = scalar` -> `npMaskFill`, `a[mask] = array` -> `npMaskSet`, `y[r, c, :] = …` -> `wr3` / `wr3` of a constant row
    * `if p is None: p = e` for an optional int parameter (`Option Int`) -> `let p : Int := p.getD e` (shadows the parameter)
The combinators live in the hand-written, kernel-independent `Hdc/PyNpS.lean`.

Instrumentation mode (py2lean_num.SafeMixin, kernels declared `safe=True`: gammafit, gammastd -> Hdc/Gen/SafeGammafit.lean,
SafeGammastd.lean): see py2lean_num.py; `callees` lists the translated kernels whose instrumented versions are called.

`gammastd_grp`, `gammastd_yxt` (-> Hdc/Gen/SafeGammastdGrp.lean, SafeGammastdYxt.lean) use the subclass `SafeS` of that mixin
(cfg key `safe_mixin`), which knows the constructs of class `S`; its checks (predicates: hand-written Hdc/PySafeS.lean), all
computed from the Python AST:
  * `oob2 c i j`               `c[i, j]` on a 2-d array and `x[r, c, :]` (read or store) on a 3-d array: the first index is
                               outside `[-rows, rows)` or the second outside `[-cols, cols)` of the ACTUAL row (ragged carrier)
  * `badMask a.size m.size`    `a[m]`, `a[m] = v`, `a[m] = vals` with a boolean mask whose length differs from the array's
  * `badMaskSet m vals.size`   `a[m] = vals`: the number of True cells differs from `len vals` (NumPy would also broadcast a
                               length-1 value; the combinator `npMaskSet` does not, so that case is flagged as well)
  * `badLen n k`               `y[r, c, :] = row` with `len row` different from the series length, `a[:] = array` with different
                               lengths, `np.round(z, 0, out)` with `z`, `out` different arrays of different lengths
  * `if p is None: p = e`      the checks of `e`, guarded by `p.isNone`
Not instrumented (cannot raise): `array CMP scalar`, `array OP scalar`, `np.clip`, `np.full`, `np.full_like`, `.sum()`,
`x.shape`, a scalar stored through a mask or into `y[r, c, :]` (broadcast).  Everything else: `Unsupported("safe: ...")`.
"""
import ast
import copy
import re
import sys
from pathlib import Path

sys.path.insert(0, str(Path(__file__).resolve().parent))
import py2lean_num as base  # noqa: E402

Unsupported = base.Unsupported

base.K.LEAN_TY.update({
    "arrbool": "Array Bool",
    "arrint2": "Array (Array Int)",
    "arr3num": "Array (Array (Array α))",
    "optint": "Option Int",
    "tuple2": "α × α",
})

STATS = "hdc/algo/ops/stats.py"
GAMX = "(F : GamFns α) (digamma : α → α) (xtol rtol : α)"

# kernels that may be CALLED from a translated kernel: their Lean parameters in order
#   extra: names passed through from the caller's scope, "<lambda>" = the callee's closure, built from the callee's source
#   params: (name, type, default-or-None)
CALLEES = {
    "brentq": dict(file=STATS, extra=["<lambda>", "xtol", "rtol"],
                   params=[("xa", "num", None), ("xb", "num", None), ("s", "num", None)], ret="num"),
    "gammafit": dict(file=STATS, extra=["F", "digamma", "xtol", "rtol"],
                     params=[("x", "arrnum", None)], ret="tuple2"),
    "gammastd": dict(file=STATS, extra=["F", "digamma", "xtol", "rtol"],
                     params=[("x", "arrnum", None), ("nodata", "num", None), ("cal_start", "int", None),
                             ("cal_stop", "int", None), ("a", "num", 0), ("b", "num", 0)], ret="arrnum"),
}

SC_FUNCS = {"gammainc": "F.gammainc", "ndtri": "F.ndtri", "digamma": "digamma"}


class Subst(ast.NodeTransformer):
    def __init__(self, m):
        self.m = m

    def visit_Name(self, node):
        return copy.deepcopy(self.m[node.id]) if node.id in self.m else node


def is_np(f, attr):
    return isinstance(f, ast.Attribute) and f.attr == attr and isinstance(f.value, ast.Name) and f.value.id == "np"


class S(base.K):
    LEAN_TY = base.K.LEAN_TY
    PREDECL_INIT = {**base.K.PREDECL_INIT, "arrbool": "#[]", "arr3num": "#[]"}

    def __init__(self, cfg, fn):
        super().__init__(cfg, fn)
        self.fresh = 0
        # defaults of the Python signature must agree with the declaration (they are what callers rely on)
        self.src = (base.REPO / cfg["file"]).read_text()

    # ------------------------------------------------------------ types
    def typeof(self, e):
        if isinstance(e, ast.BinOp) and isinstance(e.op, ast.Pow):
            return "num"
        if isinstance(e, ast.BinOp):
            lt, rt = self.typeof(e.left), self.typeof(e.right)
            if lt == "arrnum" and rt in ("int", "num"):
                return "arrnum"
            if lt.startswith("arr") or rt.startswith("arr"):
                raise Unsupported("array arithmetic other than `array OP scalar`")
        if isinstance(e, ast.Compare) and len(e.ops) == 1:
            lt = self.typeof(e.left)
            if lt in ("arrnum", "arrint"):
                return "arrbool"
            return "bool"
        if isinstance(e, ast.Subscript):
            vt = self.typeof(e.value) if not (isinstance(e.value, ast.Attribute)) else None
            if vt in ("arrnum", "arrint") and isinstance(e.slice, ast.Slice):
                return vt
            if vt == "arrnum" and not isinstance(e.slice, (ast.Slice, ast.Tuple)) and self.typeof(e.slice) == "arrbool":
                return "arrnum"
            if vt == "arrint2":
                if isinstance(e.slice, ast.Tuple) and len(e.slice.elts) == 2:
                    return "int"
                raise Unsupported("2-d int array: only c[i, j]")
            if vt == "arr3num":
                sl = e.slice
                if isinstance(sl, ast.Tuple) and len(sl.elts) == 3 and self.full_slice(sl.elts[2]):
                    return "arrnum"
                raise Unsupported("3-d array: only x[r, c, :]")
        if isinstance(e, ast.Call):
            f = e.func
            if isinstance(f, ast.Attribute) and isinstance(f.value, ast.Name) and f.value.id == "sc":
                if f.attr in SC_FUNCS:
                    return "num"
                raise Unsupported(f"scipy.special.{f.attr}")
            if is_np(f, "full_like"):
                return self.typeof(e.args[0])
            if is_np(f, "full"):
                return "arrnum"
            if is_np(f, "clip"):
                return self.typeof(e.args[0])
            if isinstance(f, ast.Attribute) and f.attr == "sum" and not e.args:
                if self.typeof(f.value) == "arrbool":
                    return "int"
                raise Unsupported(".sum() of a non-boolean array")
            if isinstance(f, ast.Name) and f.id in CALLEES:
                return CALLEES[f.id]["ret"]
            if isinstance(f, ast.Name) and f.id == "max":
                return "num"
        return super().typeof(e)

    @staticmethod
    def full_slice(s):
        return isinstance(s, ast.Slice) and s.lower is None and s.upper is None and s.step is None

    # ------------------------------------------------------------ scalar expressions
    def iexpr(self, e):
        if isinstance(e, ast.Call) and isinstance(e.func, ast.Attribute) and e.func.attr == "sum" and not e.args:
            if self.typeof(e.func.value) != "arrbool":
                raise Unsupported(".sum() of a non-boolean array")
            return f"(npCount {self.aexpr(e.func.value)})"
        if isinstance(e, ast.Subscript) and isinstance(e.value, ast.Name) and self.ty.get(e.value.id) == "arrint2":
            i, j = e.slice.elts
            return f"(rdI2 {e.value.id} {self.iexpr(i)} {self.iexpr(j)})"
        if isinstance(e, ast.Name) and self.ty.get(e.id) != "int":
            raise Unsupported(f"{e.id} used as an integer but has type {self.ty.get(e.id)}")
        return super().iexpr(e)

    def int_float_literal(self, e):
        """an integer-valued float literal (exactly representable) -> its value"""
        if isinstance(e, ast.Constant) and isinstance(e.value, float) and e.value == int(e.value) and abs(e.value) < 2 ** 53:
            return int(e.value)
        return None

    def nexpr(self, e):
        k = self.int_float_literal(e)
        if k is not None and k >= 0:
            return f"(nat {k})"
        if isinstance(e, ast.BinOp) and isinstance(e.op, ast.Pow):
            if isinstance(e.right, ast.Constant) and e.right.value == 2 and isinstance(e.right.value, int):
                x = self.nexpr(e.left)
                return f"({x} * {x})"
            raise Unsupported("power other than ** 2")
        if isinstance(e, ast.Call):
            f, a = e.func, e.args
            if isinstance(f, ast.Attribute) and isinstance(f.value, ast.Name) and f.value.id == "sc":
                if f.attr not in SC_FUNCS or e.keywords:
                    raise Unsupported(f"scipy.special.{f.attr}")
                return "(" + SC_FUNCS[f.attr] + "".join(" " + self.nexpr(x) for x in a) + ")"
            if isinstance(f, ast.Name) and f.id == "max":
                if len(a) != 2 or e.keywords:
                    raise Unsupported("max arity")
                return f"(maxv {self.nexpr(a[0])} {self.nexpr(a[1])})"
            if isinstance(f, ast.Name) and f.id == "min" and (len(a) != 2 or e.keywords):
                raise Unsupported("min arity")
            if isinstance(f, ast.Name) and f.id in CALLEES:
                if CALLEES[f.id]["ret"] != "num":
                    raise Unsupported(f"{f.id} is not scalar-valued")
                return self.call_kernel(e)
        if isinstance(e, ast.Subscript) and self.typeof(e) != "num":
            raise Unsupported("subscript is not a scalar")
        if isinstance(e, ast.Subscript) and not isinstance(e.value, ast.Name):
            raise Unsupported("subscript of an expression")
        return super().nexpr(e)

    def bexpr(self, e):
        if isinstance(e, ast.Compare) and len(e.ops) == 1:
            l, r, op = e.left, e.comparators[0], e.ops[0]
            lt, rt = self.typeof(l), self.typeof(r)
            if lt not in ("int", "num") or rt not in ("int", "num"):
                raise Unsupported("comparison of non-scalars in a condition")
            if not (lt == "int" and rt == "int") and isinstance(op, (ast.GtE, ast.LtE)):
                a, b = self.nexpr(l), self.nexpr(r)
                return f"(!(decide ({a} < {b})))" if isinstance(op, ast.GtE) else f"(!(decide ({b} < {a})))"
        return super().bexpr(e)

    # ------------------------------------------------------------ calls of translated kernels
    def callee_fn(self, name):
        src = (base.REPO / CALLEES[name]["file"]).read_text()
        return next(n for n in ast.walk(ast.parse(src)) if isinstance(n, ast.FunctionDef) and n.name == name)

    def bind_args(self, call):
        """actual arguments of a call in the callee's parameter order (defaults from the callee's CURRENT signature)"""
        name = call.func.id
        info = CALLEES[name]
        fn = self.callee_fn(name)
        pnames = [a.arg for a in fn.args.args]
        if pnames != [p for p, _, _ in info["params"]] or fn.args.vararg or fn.args.kwarg or fn.args.kwonlyargs:
            raise Unsupported(f"signature of {name} changed: {pnames}")
        defaults = dict(zip(pnames[len(pnames) - len(fn.args.defaults):], fn.args.defaults))
        actual = {}
        if len(call.args) > len(pnames):
            raise Unsupported("too many arguments")
        for p, a in zip(pnames, call.args):
            actual[p] = a
        for kw in call.keywords:
            if kw.arg is None or kw.arg in actual or kw.arg not in pnames:
                raise Unsupported("keyword argument")
            actual[kw.arg] = kw.value
        for p in pnames:
            if p not in actual:
                if p not in defaults:
                    raise Unsupported(f"missing argument {p}")
                actual[p] = defaults[p]
        return fn, info, actual

    def arg_term(self, ty, a):
        if ty == "num":
            return self.nexpr(a)
        if ty == "int":
            if self.typeof(a) != "int":
                raise Unsupported("non-integer argument for an integer parameter")
            return self.iexpr(a)
        if ty == "arrnum":
            if self.typeof(a) != "arrnum":
                raise Unsupported("array argument expected")
            return self.aexpr(a)
        raise Unsupported("argument type " + ty)

    def call_kernel(self, call):
        fn, info, actual = self.bind_args(call)
        terms = []
        for x in info["extra"]:
            if x == "<lambda>":
                terms.append(self.closure_of(fn, info, actual))
            else:
                if x not in self.cfg["scope"]:
                    raise Unsupported(f"{x} not in scope for the call of {call.func.id}")
                terms.append(x)
        for p, ty, _ in info["params"]:
            terms.append(self.arg_term(ty, actual[p]))
        return "(" + self.callee_term(call.func.id, " ".join(terms)) + ")"

    def closure_of(self, fn, info, actual):
        """the callee's `func = lambda a: body` with the callee's parameters replaced by the actual arguments"""
        lams = [s for s in fn.body if isinstance(s, ast.Assign) and isinstance(s.value, ast.Lambda)]
        if len(lams) != 1:
            raise Unsupported("callee must define exactly one lambda")
        lam = lams[0].value
        if len(lam.args.args) != 1 or lam.args.defaults:
            raise Unsupported("lambda arity")
        var = lam.args.args[0].arg
        pnames = [p for p, _, _ in info["params"]]
        free = {n.id for n in ast.walk(lam.body) if isinstance(n, ast.Name)} - {var, "log", "sqrt", "sc"}
        if not free <= set(pnames):
            raise Unsupported(f"lambda closes over locals {sorted(free - set(pnames))}")
        # the closed-over parameters must not be re-assigned in the callee before/after the lambda is built
        assigned = {t.id for s in ast.walk(fn) if isinstance(s, (ast.Assign, ast.AugAssign))
                    for t in (s.targets if isinstance(s, ast.Assign) else [s.target]) if isinstance(t, ast.Name)}
        if free & assigned:
            raise Unsupported("callee re-assigns a closed-over parameter")
        m = {}
        for p in free:
            a = actual[p]
            if not isinstance(a, (ast.Name, ast.Constant)):
                raise Unsupported("closure argument must be a name or a literal")
            m[p] = a
        bound = f"{var}_"
        while bound in self.ty or bound in self.declared:
            bound += "_"
        m[var] = ast.Name(id=bound, ctx=ast.Load())
        body = Subst(m).visit(copy.deepcopy(lam.body))
        self.ty[bound] = "num"
        try:
            term = self.nexpr(body)
        finally:
            del self.ty[bound]
        return f"(fun {bound} => {term})"

    # ------------------------------------------------------------ array expressions
    def elem_lambda(self, el_ty, build):
        """`fun e => …` where the body is produced by `build(name-node)`"""
        self.fresh += 1
        nm = f"e{self.fresh}"
        self.ty[nm] = el_ty
        try:
            body = build(ast.Name(id=nm, ctx=ast.Load()))
        finally:
            del self.ty[nm]
        return f"(fun {nm} => {body})"

    def aexpr(self, e):
        """term of an array-valued expression (Array α / Array Int / Array Bool)"""
        t = self.typeof(e)
        if t not in ("arrnum", "arrint", "arrbool"):
            raise Unsupported("array expression expected")
        if isinstance(e, ast.Name):
            return e.id
        if isinstance(e, ast.Subscript) and isinstance(e.value, ast.Name):
            arr, sl = e.value.id, e.slice
            at = self.ty.get(arr)
            if at == "arr3num":
                r, c, _ = sl.elts
                return f"(rd3 {arr} {self.iexpr(r)} {self.iexpr(c)})"
            if isinstance(sl, ast.Slice):
                if sl.step is not None:
                    raise Unsupported("slice step")
                if sl.lower is None and sl.upper is None:
                    return arr
                if sl.lower is None or sl.upper is None:
                    raise Unsupported("half-open slice as a value")
                if self.typeof(sl.lower) != "int" or self.typeof(sl.upper) != "int":
                    raise Unsupported("slice bounds must be integers")
                return f"(pySlice {arr} {self.iexpr(sl.lower)} {self.iexpr(sl.upper)})"
            if self.typeof(sl) == "arrbool" and at == "arrnum":
                return f"(npGather {arr} {self.aexpr(sl)})"
        if isinstance(e, ast.Compare):
            l, r, op = e.left, e.comparators[0], e.ops[0]
            lt, rt = self.typeof(l), self.typeof(r)
            if rt not in ("int", "num") or (lt == "arrint" and rt != "int"):
                raise Unsupported("array comparison: only `array CMP scalar`")
            el = "num" if lt == "arrnum" else "int"
            lam = self.elem_lambda(el, lambda n: self.bexpr(ast.Compare(left=n, ops=[op], comparators=[r])))
            return f"(({self.aexpr(l)}).map {lam})"
        if isinstance(e, ast.BinOp):
            lam = self.elem_lambda("num", lambda n: self.nexpr(ast.BinOp(left=n, op=e.op, right=e.right)))
            return f"(({self.aexpr(e.left)}).map {lam})"
        if isinstance(e, ast.Call):
            f, a = e.func, e.args
            if is_np(f, "full_like"):
                self.check_dtype(e, 2)
                if self.typeof(a[0]) != "arrnum":
                    raise Unsupported("full_like of a non 1-d array as a value")
                return f"(npFullLike {self.aexpr(a[0])} {self.nexpr(a[1])})"
            if is_np(f, "full"):
                self.check_dtype(e, 2)
                if self.typeof(a[0]) != "int":
                    raise Unsupported("np.full with a non-integer shape")
                return f"(npFull {self.iexpr(a[0])} {self.nexpr(a[1])})"
            if is_np(f, "clip"):
                if len(a) != 3 or e.keywords:
                    raise Unsupported("np.clip arity")
                lam = self.elem_lambda("num", lambda n: f"(clipv {self.nexpr(n)} {self.nexpr(a[1])} {self.nexpr(a[2])})")
                return f"(({self.aexpr(a[0])}).map {lam})"
            if isinstance(f, ast.Name) and f.id in CALLEES and CALLEES[f.id]["ret"] == "arrnum":
                return self.call_kernel(e)
        raise Unsupported("array expr " + ast.dump(e)[:80])

    def check_dtype(self, call, npos):
        if len(call.args) != npos:
            raise Unsupported("np.full/full_like arity")
        for kw in call.keywords:
            if kw.arg != "dtype" or not isinstance(kw.value, ast.Constant) or kw.value.value not in ("float64", "int16"):
                raise Unsupported("np.full/full_like keyword")

    # ------------------------------------------------------------ statements
    def value_term(self, v):
        try:
            t = self.typeof(v)
        except Unsupported:
            t = None
        if t in ("arrnum", "arrbool") and not (isinstance(v, ast.Call) and isinstance(v.func, ast.Attribute)
                                               and v.func.attr in ("copy", "zeros")) \
                and not (isinstance(v, ast.Call) and isinstance(v.func, ast.Name) and v.func.id == "ws2d"):
            return t, self.aexpr(v)
        if t == "arr3num" and isinstance(v, ast.Call) and is_np(v.func, "full_like"):
            self.check_dtype(v, 2)
            return t, f"(npFullLike3 {v.args[0].id} {self.nexpr(v.args[1])})"
        if t == "tuple2":
            return t, self.call_kernel(v)
        return super().value_term(v)

    def stmt(self, s, ind):
        if isinstance(s, ast.Continue):
            return self.emit(ind, "continue")
        if isinstance(s, ast.Return):
            v = s.value
            rty = self.cfg.get("rty")
            if rty == "α × α":
                if not isinstance(v, ast.Tuple) or len(v.elts) != 2:
                    raise Unsupported("return of a non-pair")
                return self.emit(ind, f"return ({self.nexpr(v.elts[0])}, {self.nexpr(v.elts[1])})")
            if rty == "Array α":
                if v is None or self.typeof(v) != "arrnum":
                    raise Unsupported("return of a non-array")
                return self.emit(ind, f"return {self.aexpr(v)}")
            if rty == "Array (Array (Array α))":
                if not isinstance(v, ast.Name) or self.ty.get(v.id) != "arr3num":
                    raise Unsupported("return of a non 3-d array")
                return self.emit(ind, f"return {v.id}")
            raise Unsupported("return type")
        if isinstance(s, ast.Assign) and len(s.targets) == 1:
            t, v = s.targets[0], s.value
            # u, v = g(...)   /   r, c, t = x.shape
            if isinstance(t, ast.Tuple) and all(isinstance(n, ast.Name) for n in t.elts):
                if isinstance(v, ast.Call) and isinstance(v.func, ast.Name) and v.func.id in CALLEES:
                    if CALLEES[v.func.id]["ret"] != "tuple2" or len(t.elts) != 2:
                        raise Unsupported("tuple unpacking arity")
                    self.tmp += 1
                    self.emit(ind, f"let tmp{self.tmp} : α × α := {self.call_kernel(v)}")
                    self.set_name(t.elts[0].id, "num", f"tmp{self.tmp}.1", ind)
                    self.set_name(t.elts[1].id, "num", f"tmp{self.tmp}.2", ind)
                    return
                if isinstance(v, ast.Attribute) and v.attr == "shape" and isinstance(v.value, ast.Name):
                    if self.ty.get(v.value.id) != "arr3num" or len(t.elts) != 3:
                        raise Unsupported("shape unpacking")
                    for n, k in zip(t.elts, range(3)):
                        self.set_name(n.id, "int", f"(shape3 {v.value.id} {k} : Int)", ind)
                    return
            if isinstance(t, ast.Subscript) and isinstance(t.value, ast.Name):
                arr = t.value.id
                at = self.ty.get(arr)
                if at == "arr3num":
                    sl = t.slice
                    if not (isinstance(sl, ast.Tuple) and len(sl.elts) == 3 and self.full_slice(sl.elts[2])):
                        raise Unsupported("3-d store: only y[r, c, :] = …")
                    r, c = self.iexpr(sl.elts[0]), self.iexpr(sl.elts[1])
                    vt = self.typeof(v)
                    if vt == "arrnum":
                        return self.emit(ind, f"{arr} := wr3 {arr} {r} {c} {self.aexpr(v)}")
                    if vt in ("num", "int"):
                        return self.emit(ind, f"{arr} := wr3 {arr} {r} {c} ((rd3 {arr} {r} {c}).map (fun _ => {self.nexpr(v)}))")
                    raise Unsupported("3-d store value")
                if not isinstance(t.slice, (ast.Slice, ast.Tuple)) and self.typeof(t.slice) == "arrbool":
                    if at != "arrnum":
                        raise Unsupported("masked store into a non-data array")
                    m = self.aexpr(t.slice)
                    vt = self.typeof(v)
                    if vt == "arrnum":
                        return self.emit(ind, f"{arr} := npMaskSet {arr} {m} {self.aexpr(v)}")
                    if vt in ("num", "int"):
                        return self.emit(ind, f"{arr} := npMaskFill {arr} {m} {self.nexpr(v)}")
                    raise Unsupported("masked store value")
                if isinstance(t.slice, ast.Tuple):
                    raise Unsupported("multi-index store")
        # if p is None: p = e     (optional integer parameter `p`, Lean parameter `p_opt : Option Int`)
        if isinstance(s, ast.If) and isinstance(s.test, ast.Compare) and len(s.test.ops) == 1 \
                and isinstance(s.test.ops[0], ast.Is) and isinstance(s.test.comparators[0], ast.Constant) \
                and s.test.comparators[0].value is None:
            p = s.test.left
            if not (isinstance(p, ast.Name) and self.ty.get(p.id) == "optint" and not s.orelse and len(s.body) == 1
                    and isinstance(s.body[0], ast.Assign) and len(s.body[0].targets) == 1
                    and isinstance(s.body[0].targets[0], ast.Name) and s.body[0].targets[0].id == p.id):
                raise Unsupported("`is None` test other than `if p is None: p = e` on an optional int parameter")
            dflt = s.body[0].value
            if self.typeof(dflt) != "int":
                raise Unsupported("default of an optional int parameter")
            self.emit(ind, f"let {p.id} : Int := {p.id}.getD {self.iexpr(dflt)}")
            self.ty[p.id] = "int"
            return
        if isinstance(s, ast.Expr) and isinstance(s.value, ast.Call) and is_np(s.value.func, "round"):
            a = s.value.args      # np.round(z, 0, out)
            if not (len(a) == 3 and isinstance(a[1], ast.Constant) and a[1].value == 0 and isinstance(a[0], ast.Name)
                    and isinstance(a[2], ast.Name) and self.ty.get(a[0].id) == "arrnum" and self.ty.get(a[2].id) == "arrnum"):
                raise Unsupported("np.round form")
        return super().stmt(s, ind)

    def run(self):
        # the Python defaults of the declared parameters must be what the declaration says
        args = self.fn.args
        pn = [a.arg for a in args.args]
        if pn != [n for n, _ in self.cfg["params"]]:
            raise Unsupported(f"parameter list changed: {pn}")
        defaults = dict(zip(pn[len(pn) - len(args.defaults):], args.defaults))
        for n, d in self.cfg.get("defaults", {}).items():
            got = defaults.get(n)
            if not (isinstance(got, ast.Constant) and got.value == d and type(got.value) is type(d)):
                raise Unsupported(f"default of {n} changed")
        if set(defaults) != set(self.cfg.get("defaults", {})):
            raise Unsupported("defaults changed")
        for nm in self.cfg.get("inout", []):
            self.emit(1, f"let mut {nm} : {self.LEAN_TY[self.ty[nm]]} := {nm}")
        return super().run()


class SafeS(base.SafeMixin):
    """the instrumentation of the constructs class `S` adds to `base.K` (see the module docstring)"""

    def is_mask(self, sl):
        if isinstance(sl, (ast.Slice, ast.Tuple)):
            return False
        try:
            return self.typeof(sl) == "arrbool"
        except Unsupported:
            return False

    def index2(self, arr, elts, out, g):
        for i in elts:
            if isinstance(i, ast.Slice) or self.typeof(i) != "int":
                raise Unsupported("safe: multi-index that is not an integer")
            self.ck(i, out, g)
        out.append(self.guarded(g, f"oob2 {arr} {self.iexpr(elts[0])} {self.iexpr(elts[1])}"))

    def ck(self, e, out, g=()):
        if isinstance(e, ast.Subscript) and isinstance(e.value, ast.Name):
            arr, sl = e.value.id, e.slice
            at = self.ty.get(arr)
            if at == "arrint2":
                if not (isinstance(sl, ast.Tuple) and len(sl.elts) == 2):
                    raise Unsupported("safe: 2-d array: only c[i, j]")
                return self.index2(arr, sl.elts, out, g)
            if at == "arr3num":
                if not (isinstance(sl, ast.Tuple) and len(sl.elts) == 3 and self.full_slice(sl.elts[2])):
                    raise Unsupported("safe: 3-d array: only x[r, c, :]")
                return self.index2(arr, sl.elts[:2], out, g)
            if at == "arrnum" and self.is_mask(sl):
                self.ck(sl, out, g)
                out.append(self.guarded(g, f"badMask {arr}.size ({self.aexpr(sl)}).size"))
                return
        return super().ck(e, out, g)

    @staticmethod
    def is_none_test(s):
        return isinstance(s.test, ast.Compare) and any(isinstance(o, (ast.Is, ast.IsNot)) for o in s.test.ops)

    def stmt_checks(self, s):
        fresh = self.fresh          # the checks must not consume the bound-variable names of the statement itself
        try:
            self.last_checks = self.stmt_checks_(s)
        finally:
            self.fresh = fresh
        return self.last_checks

    def stmt_checks_(self, s):
        out = super().stmt_checks(s)
        if isinstance(s, ast.If) and self.is_none_test(s):
            # `if p is None: p = e` is ONE statement of the translation (`let p := p.getD e`): the checks of `e` carry the guard
            t = s.test
            if not (len(t.ops) == 1 and isinstance(t.ops[0], ast.Is) and isinstance(t.left, ast.Name)
                    and self.ty.get(t.left.id) == "optint" and len(s.body) == 1 and isinstance(s.body[0], ast.Assign)
                    and not s.orelse):
                raise Unsupported("safe: `is None` test other than `if p is None: p = e`")
            self.ck(s.body[0].value, out, (f"{t.left.id}.isNone",))
        if isinstance(s, ast.Assign):
            for t in s.targets:
                if not (isinstance(t, ast.Subscript) and isinstance(t.value, ast.Name)):
                    continue
                arr, sl, v = t.value.id, t.slice, s.value
                at = self.ty.get(arr)
                vt = self.typeof(v)
                if at == "arr3num":
                    if vt == "arrnum":
                        r, c = self.iexpr(sl.elts[0]), self.iexpr(sl.elts[1])
                        out.append(f"badLen (rd3 {arr} {r} {c}).size ({self.aexpr(v)}).size")
                    elif vt not in ("num", "int"):
                        raise Unsupported("safe: 3-d store value")
                elif at == "arrnum" and self.is_mask(sl):
                    if vt == "arrnum":
                        out.append(f"badMaskSet {self.aexpr(sl)} ({self.aexpr(v)}).size")
                    elif vt not in ("num", "int"):
                        raise Unsupported("safe: masked store value")
                elif isinstance(sl, ast.Slice):
                    if not self.full_slice(sl):
                        raise Unsupported("safe: store into a partial slice")
                    if vt in ("arrnum", "arrint"):
                        out.append(f"badLen {arr}.size ({self.aexpr(v)}).size")
                    elif vt not in ("num", "int"):
                        raise Unsupported("safe: slice store value")
        if isinstance(s, ast.Expr) and isinstance(s.value, ast.Call) and is_np(s.value.func, "round"):
            a = s.value.args
            if not (len(a) == 3 and isinstance(a[0], ast.Name) and isinstance(a[2], ast.Name)):
                raise Unsupported("safe: np.round form")
            if a[0].id != a[2].id:
                out.append(f"badLen {a[0].id}.size {a[2].id}.size")
        return list(dict.fromkeys(out))

    NET = [(r"(rdI2|rd3|wr3)", "oob2 "), (r"(npGather|npMaskFill|npMaskSet)", "badMask "), (r"npMaskSet", "badMaskSet ")]

    def stmt(self, s, ind):
        first = len(self.lines)
        r = super().stmt(s, ind)
        if not isinstance(s, (ast.For, ast.If)):
            # safety net: a 2-d / 3-d / masked access in the emitted statement that no check accounts for
            txt = " ".join(ln for ln in self.lines[first:] if not ln.strip().startswith("bad := (bad ||"))
            for pat, need in self.NET:
                if re.search(r"(?<![A-Za-z0-9_.])" + pat + r"(?![A-Za-z0-9_])", txt) \
                        and not any(need in c for c in self.last_checks):
                    raise Unsupported(f"safe: access without a `{need.strip()}` check in: " + txt[:80])
        return r

    def run(self):
        self.emit(1, "-- additional checks (py2lean_spi.SafeS; predicates: Hdc/PySafeS.lean): `oob2` = a 2-d subscript `c[i, j]` / a 3-d")
        self.emit(1, "-- subscript `x[r, c, :]` outside the rows / the columns of its row; `badMask` = a boolean mask whose length differs from")
        self.emit(1, "-- the array's; `badMaskSet` = `a[m] = vals` with `m.sum() != len vals`; `badLen` = `y[r, c, :] = row` / `a[:] = b` /")
        self.emit(1, "-- `np.round(z, 0, out)` with different lengths.  Not instrumented (cannot raise): array-vs-scalar comparisons and")
        self.emit(1, "-- arithmetic, np.clip / np.full / np.full_like, `.sum()`, `x.shape`, scalars stored through a mask / into a series.")
        return super().run()


KERNELS = [
    dict(name="gammafit", file=STATS, func="gammafit", translator=S,
         params=[("x", "arrnum")], consts={"0.4": "F.c04"}, extra=GAMX, scope=["F", "digamma", "xtol", "rtol"],
         ret=None, rty="α × α", uses="[IntCast α]", imports=["Hdc.PyNpS", "Hdc.Gen.NumBrentq"],
         safe=True, callees=["brentq"], safe_imports=["Hdc.Gen.SafeBrentq"]),
    dict(name="gammastd", file=STATS, func="gammastd", translator=S,
         params=[("x", "arrnum"), ("nodata", "num"), ("cal_start", "int"), ("cal_stop", "int"), ("a", "num"), ("b", "num")],
         defaults={"a": 0, "b": 0},
         consts={"0.9": "F.c09"}, extra=GAMX, scope=["F", "digamma", "xtol", "rtol"],
         ret=None, rty="Array α", uses="[IntCast α]", imports=["Hdc.PyNpS", "Hdc.Gen.NumGammafit"],
         safe=True, callees=["gammafit"], safe_imports=["Hdc.Gen.SafeGammafit"]),
    dict(name="gammastd_grp", module="NumGammastdGrp", file=STATS, func="gammastd_grp", translator=S,
         params=[("xx", "arrnum"), ("groups", "arrint"), ("num_groups", "int"), ("nodata", "num"), ("cal_indices", "arrint2"),
                 ("yy", "arrnum")],
         consts={}, extra=GAMX + " (rnd : α → α)", scope=["F", "digamma", "xtol", "rtol", "rnd"], inout=["yy"],
         ret="yy", rty="Array α", uses="[IntCast α]", imports=["Hdc.PyNpS", "Hdc.Gen.NumGammastd"],
         safe=True, safe_mixin=SafeS, callees=["gammastd"], safe_imports=["Hdc.PySafeS", "Hdc.Gen.SafeGammastd"]),
    dict(name="gammastd_yxt", module="NumGammastdYxt", file=STATS, func="gammastd_yxt", translator=S,
         params=[("x", "arr3num"), ("nodata", "num"), ("cal_start", "optint"), ("cal_stop", "optint")],
         defaults={"cal_start": None, "cal_stop": None}, locals={"s": "arrnum"},
         consts={}, extra=GAMX + " (rnd : α → α)", scope=["F", "digamma", "xtol", "rtol", "rnd"],
         ret=None, rty="Array (Array (Array α))", uses="[IntCast α]", imports=["Hdc.PyNpS", "Hdc.Gen.NumGammastd"],
         safe=True, safe_mixin=SafeS, callees=["gammastd"], safe_imports=["Hdc.PySafeS", "Hdc.Gen.SafeGammastd"]),
]


def module_of(cfg):
    return cfg.get("module") or ("Num" + cfg["name"].capitalize())


def main():
    base.module_of = module_of
    only = sys.argv[1:]
    ks = [k for k in KERNELS if not only or k["name"] in only]
    return base.main(kernels=ks, tool="py2lean_spi")


if __name__ == "__main__":
    sys.exit(main())
