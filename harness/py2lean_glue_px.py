#!/venv/bin/python
"""py2lean_glue_px: the pixel / rolling / zonal accessors of hdc/algo/accessors.py translated with the machinery of
harness/py2lean_glue.py (class `G`, `Lib`, `translate`, `write_if_changed` are REUSED, that file is not edited):

    PixelAlgorithms.croo      -> lean/Hdc/Gen/GlueCroo.lean            (the xarray pipeline itself, per pixel, on Hdc/PyXr.lean)
    PixelAlgorithms.lroo      -> lean/Hdc/Gen/GlueLrooAcc.lean
    PixelAlgorithms.autocorr  -> lean/Hdc/Gen/GlueAutocorrAcc.lean
    PixelAlgorithms.mktrend   -> lean/Hdc/Gen/GlueMktrend.lean
    RollingWindowAlgos.sum    -> lean/Hdc/Gen/GlueRollingSumAcc.lean
    ZonalStatistics.mean      -> lean/Hdc/Gen/GlueZonalMean.lean

What this subclass adds to `G` (everything else: see the docstring of py2lean_glue.py)
  * FIXED idioms (`Fixed`): an xarray expression matched by pattern (method name, positional literals, keyword names) that
    becomes an application of a hand-written function of Hdc/PyXr.lean (trusted per-pixel semantics, validated against xarray
    by harness/validate_pyxr.py) instead of a parameter.  The types `PxSer`, `PxVal`, `Nat` are the fixed types of that file; an
    integer literal is accepted where a `Nat` is wanted.
  * `warn("..")` sets the flag `__warned`; a function that warns returns the pair (value, __warned).
  * `isinstance(x, str)` for `x : Optional[str]` is `x.isSome` (decided by the declared type; the truth value of an optional stays
    Unsupported).
  * `a[..., lo:hi]` on a per-pixel array (the core dimension is the last axis of an `apply_ufunc` result) is `slice a lo hi`;
    `t[k]` with a constant `k` on a tuple is the projection.
  * ASSIGNMENT patterns (`AssignLib`): `x.trend.attrs['nodata'] = $v` -> `x := set_trend_nodata x v`.
  * Names bound by a comprehension INSIDE a library pattern (`for xx, n in zip(..)`, `for k, c in ..items()`) are allowed in its
    literal part when they are bound nowhere else in the function.
  * GUARDS checked before translation (each failure is `Unsupported`): the `def` signature (parameter names, order, defaults; no
    *args / **kwargs / keyword-only / decorators), the function-local imports (exact text: they bind the kernel names the library
    patterns mention), and the module-level imports the patterns rely on (`warn`, `da`, `is_dask_collection`, `tokenize`, `ops`,
    `xarray`, `np`).
Anything not understood: `FAILED Hdc.Gen.<Module>: reason`, exit code 1, previous output left in place.
"""
import ast
import re
import sys
from pathlib import Path

sys.path.insert(0, str(Path(__file__).resolve().parent))
import py2lean_glue as base                                                     # noqa: E402
from py2lean_glue import G, Lib, Unsupported, parse_type, lean_type, normalise, match, write_if_changed, GEN, find_function  # noqa: E402

TOOL = "harness/py2lean_glue_px.py"
FIXED_TYPES = {"PxSer", "PxVal", "Nat"}
MODULE_IMPORTS = ["from warnings import warn", "from dask import is_dask_collection", "import dask.array as da",
                  "from dask.base import tokenize", "import numpy as np", "import xarray", "from . import ops"]


class Fixed(Lib):
    """an idiom with FIXED semantics: `name` is a function of Hdc/PyXr.lean, not a parameter"""
    fixed = True


class AssignLib:
    """an assignment statement as a library pattern: `x.trend.attrs['nodata'] = $v` (mutates `x`)"""

    def __init__(self, name, pattern, args, mutates, ret, doc=""):
        self.name, self.pattern, self.mutates, self.doc, self.raises = name, pattern, mutates, doc, False
        self.args = [(k, parse_type(v)) for k, v in args.items()]
        self.ret = parse_type(ret)
        self.node = normalise(ast.parse(re.sub(r"\$(\w+)", r"__mv_\1", pattern)).body[0])
        if not isinstance(self.node, ast.Assign):
            raise Unsupported(f"assignment pattern {name}")
        self.literal_names = {n.id for n in ast.walk(self.node) if isinstance(n, ast.Name) and not n.id.startswith("__mv_")
                              and n.id != mutates}

    def lean_sig(self, sub=None):
        sub = sub or {}
        parts = [lean_type(base.subst_type(self.ret, sub), False)] + [lean_type(base.subst_type(t, sub), False) for _, t in self.args]
        return " → ".join(parts + [lean_type(base.subst_type(self.ret, sub), False)])


def is_warn(n):
    return isinstance(n, ast.Call) and isinstance(n.func, ast.Name) and n.func.id == "warn"


def bound_inside(node):
    """names bound by comprehensions inside a pattern -> number of binding occurrences"""
    out = {}
    for n in ast.walk(node):
        if isinstance(n, ast.Name) and isinstance(n.ctx, ast.Store):
            out[n.id] = out.get(n.id, 0) + 1
    return out


class GPx(G):
    def __init__(self, cfg, fn, variant, types_hint=None):
        self.assign_libs = list(cfg.get("assign_libs") or [])
        super().__init__(cfg, fn, variant, types_hint)
        self.uses_warn = any(is_warn(n) for n in ast.walk(fn))
        if self.uses_warn:
            self.lines.append("  let mut __warned : Bool := false")

    def check_patterns(self):
        for lib in list(self.libs) + self.assign_libs:
            inner = bound_inside(lib.node)
            for nm in lib.literal_names:
                if nm in inner:
                    if self.assigned.get(nm, 0) != inner[nm]:
                        raise Unsupported(f"library pattern {lib.name}: its comprehension variable {nm} is also bound elsewhere in the function")
                    continue
                if nm in self.assigned and nm not in self.opaque_locals:
                    raise Unsupported(f"library pattern {lib.name}: the name {nm} of its literal part is assigned in the function")
        for nm in self.opaque_locals:
            if self.assigned.get(nm, 0) != 1:
                raise Unsupported(f"opaque local {nm} must be assigned exactly once")

    def use_lib(self, lib, sub=None):
        if getattr(lib, "fixed", False):
            self.uses_fixed = True
            return
        super().use_lib(lib, sub)

    def note_abs(self, a):
        if a in FIXED_TYPES:
            return
        super().note_abs(a)

    def coerce(self, term, have, want, what):
        if have == "int" and want == ("abs", "Nat"):
            m = re.fullmatch(r"\((\d+) : Int\)", term)
            if m:
                return f"({m.group(1)} : Nat)"
            raise Unsupported(f"{what}: a non-negative integer literal is expected")
        return super().coerce(term, have, want, what)

    def expr(self, e):
        if (isinstance(e, ast.Call) and isinstance(e.func, ast.Name) and e.func.id == "isinstance" and len(e.args) == 2
                and not e.keywords and isinstance(e.args[1], ast.Name) and e.args[1].id == "str" and "str" not in self.assigned):
            term, t = self.expr(e.args[0])
            if t == ("opt", "str"):
                return f"({term}.isSome)", "bool"
            raise Unsupported(f"isinstance(.., str) of a value of type {t}")
        return super().expr(e)

    def subscript(self, e):
        s = e.slice
        if (isinstance(s, ast.Tuple) and len(s.elts) == 2 and isinstance(s.elts[0], ast.Constant) and s.elts[0].value is Ellipsis
                and isinstance(s.elts[1], ast.Slice) and s.elts[1].step is None):
            vt, vty = self.expr(e.value)
            if not (isinstance(vty, tuple) and vty[0] == "list") or (isinstance(vty[1], tuple) and vty[1][0] == "list"):
                raise Unsupported(f"`[..., a:b]` on a value of type {vty}")
            sl = s.elts[1]
            lo = "none" if sl.lower is None else f"(some {self.as_int(sl.lower)})"
            hi = "none" if sl.upper is None else f"(some {self.as_int(sl.upper)})"
            return f"(slice {vt} {lo} {hi})", vty
        if isinstance(s, ast.Constant) and isinstance(s.value, int) and not isinstance(s.value, bool):
            saved = list(self.pre)
            try:
                vt, vty = self.expr(e.value)
            except Unsupported:
                self.pre = saved
                return super().subscript(e)
            if isinstance(vty, tuple) and vty[0] == "tuple":
                n, k = len(vty[1]), s.value
                if not (0 <= k < n) or not re.fullmatch(r"[\w«»]+", vt):
                    raise Unsupported("tuple index")
                proj = ".2" * k + ("" if k == n - 1 else ".1")
                return f"{vt}{proj}", vty[1][k]
            self.pre = saved
        return super().subscript(e)

    def stmt(self, s, ind, rest):
        if isinstance(s, ast.Expr) and is_warn(s.value):
            c = s.value
            if len(c.args) != 1 or c.keywords or not (isinstance(c.args[0], ast.Constant) and isinstance(c.args[0].value, str)):
                raise Unsupported("warn(..) form")
            self.emit(ind, "__warned := true")
            return False
        if isinstance(s, ast.Return) and self.uses_warn and not self.is_gen:
            if s.value is None:
                raise Unsupported("bare return in a function that warns")
            term, t = self.expr(s.value)
            rt = ("tuple", (t, "bool"))
            if self.ret_type is None:
                self.ret_type = rt
            if self.ret_type != rt:
                raise Unsupported("two returns of different types")
            self.emit(ind, f"return ({term}, __warned)")
            return True
        if isinstance(s, ast.Assign) and len(s.targets) == 1 and isinstance(s.targets[0], (ast.Subscript, ast.Attribute)):
            sn = normalise(ast.parse(ast.unparse(s)).body[0])
            for al in self.assign_libs:
                binds = {}
                if match(al.node, sn, binds):
                    args = self.lib_call(al, binds)
                    cur, t = self.name(al.mutates)
                    if t != al.ret:
                        raise Unsupported(f"{al.name} mutates {al.mutates} of type {t}")
                    self.emit(ind, f"{cur} := {' '.join([al.name, cur] + args)}")
                    return False
        return super().stmt(s, ind, rest)


# ------------------------------------------------------------------------------------------------- guards + driver
def check_guards(cfg, mod, fn):
    a = fn.args
    if a.vararg or a.kwarg or a.kwonlyargs or a.posonlyargs or fn.decorator_list:
        raise Unsupported("signature: *args / **kwargs / keyword-only / positional-only parameters or a decorator")
    names = [x.arg for x in a.args]
    defaults = [None] * (len(names) - len(a.defaults)) + [ast.unparse(d) for d in a.defaults]
    have = list(zip(names, defaults))
    want = [("self", None)] + list(cfg["signature"])
    if have != want:
        raise Unsupported(f"signature {have} differs from the configured {want}")
    local = [ast.unparse(n) for n in ast.walk(fn) if isinstance(n, (ast.Import, ast.ImportFrom))]
    if local != list(cfg.get("local_imports") or []):
        raise Unsupported(f"function-local imports {local} differ from the configured ones")
    top = [ast.unparse(n) for n in mod.body if isinstance(n, (ast.Import, ast.ImportFrom))]
    for imp in MODULE_IMPORTS:
        if imp not in top:
            raise Unsupported(f"module-level `{imp}` not found")
    bound = {}
    for n in mod.body:                                   # a module-level name of the patterns must not be re-bound at module level
        for x in ast.walk(n) if isinstance(n, (ast.Assign, ast.FunctionDef, ast.Import, ast.ImportFrom)) else []:
            if isinstance(x, ast.alias):
                bound[(x.asname or x.name).split(".")[0]] = bound.get((x.asname or x.name).split(".")[0], 0) + 1
        if isinstance(n, ast.FunctionDef):
            bound[n.name] = bound.get(n.name, 0) + 1
        if isinstance(n, ast.Assign):
            for t in n.targets:
                if isinstance(t, ast.Name):
                    bound[t.id] = bound.get(t.id, 0) + 1
    for nm in ("warn", "is_dask_collection", "da", "tokenize", "np", "xarray", "ops"):
        if bound.get(nm, 0) != 1:
            raise Unsupported(f"module-level name {nm} is bound {bound.get(nm, 0)} times")


def translate_px(cfg):
    src = (base.REPO / cfg["file"]).read_text()
    mod = ast.parse(src)
    fn = find_function(mod, cfg.get("cls"), cfg["func"])
    check_guards(cfg, mod, fn)
    old = base.G, base.TOOL
    base.G, base.TOOL = GPx, TOOL
    try:
        text = base.translate(cfg)
    finally:
        base.G, base.TOOL = old
    if any(getattr(l, "fixed", False) for l in cfg["libs"]):
        text = text.replace("import Hdc.PyGlue\n", "import Hdc.PyGlue\nimport Hdc.PyXr\n", 1)
        text = text.replace("open Hdc.PyGlue\n", "open Hdc.PyGlue Hdc.PyXr\n", 1)
    return text


# ------------------------------------------------------------------------------------------------- configuration
ACC = "hdc/algo/accessors.py"

FUNCTIONS = [
    dict(
        name="croo_acc", module="GlueCroo", file=ACC, cls="PixelAlgorithms", func="croo", params={}, signature=[],
        libs=[
            Lib("check_for_timedim", "self._check_for_timedim()", ret="bool", doc="`'time' in self._obj.dims`"),
            Fixed("sortbyTime", "$x.sortby('time', ascending=$b)", args=dict(x="abs:PxSer", b="bool"), ret="abs:PxSer"),
            Fixed("whereEq", "$x.where($x == $c)", args=dict(x="abs:PxSer", c="abs:Nat"), ret="abs:PxSer"),
            Fixed("cumsumTime", "$x.cumsum('time', skipna=$b)", args=dict(x="abs:PxSer", b="bool"), ret="abs:PxSer"),
            Fixed("whereNotnullElse", "$x.where(~$x.isnull(), $v)", args=dict(x="abs:PxSer", v="abs:Nat"), ret="abs:PxSer"),
            Fixed("argmaxTime", "$x.argmax('time')", args=dict(x="abs:PxSer"), ret="abs:Nat", raises=True),
            Fixed("iselTime", "$x.isel(time=$i)", args=dict(x="abs:PxSer", i="int"), ret="abs:PxVal", raises=True),
            Fixed("addIdxVal", "$a + $b", args=dict(a="abs:Nat", b="abs:PxVal"), ret="abs:PxVal"),
            Lib("obj", "self._obj", ret="abs:PxSer", doc="ONE pixel of the object: its (time key, value) cells in stored order"),
        ],
        note="PER PIXEL: `obj` is the series of one pixel; every xarray idiom of the pipeline is a function of Hdc/PyXr.lean (fixed,\n"
             "trusted semantics; matched with its method name, positional literals and keyword names).\n",
    ),
    dict(
        name="rolling_sum_acc", module="GlueRollingSumAcc", file=ACC, cls="RollingWindowAlgos", func="sum",
        params=dict(window_size="int", dtype="opaque", dimension="opaque", nodata="opt[abs:V]"),
        signature=[("window_size", None), ("dtype", "'float32'"), ("dimension", "'time'"), ("nodata", "None")],
        local_imports=["from .ops.stats import rolling_sum"],
        libs=[
            Lib("attrs_nodata", "self._obj.attrs.get('nodata')", ret="opt[abs:V]"),
            Lib("apply_rolling_sum",
                "xarray.apply_ufunc(rolling_sum, self._obj, $w, $nd, input_core_dims=[[dimension], [], []], "
                "output_core_dims=[[dimension]], keep_attrs=True, dask='parallelized', "
                "dask_gufunc_kwargs={'meta': self._obj.astype(dtype).data})",
                args=dict(w="int", nd="opt[abs:V]"), ret="list[abs:C]",
                doc="the kernel call along `dimension`; PER PIXEL the cells of the result along `dimension` (its last axis)"),
        ],
        note="PER PIXEL: the result of the kernel call is the list of its cells along `dimension` (apply_ufunc puts the core\n"
             "dimension last, `xx[..., k:]` slices that axis).\n",
    ),
    dict(
        name="zonal_mean_acc", module="GlueZonalMean", file=ACC, cls="ZonalStatistics", func="mean",
        params=dict(zones="opaque", zone_ids="list[abs:Z]", dtype="abs:DT", dim_name="str", name="opt[str]"),
        signature=[("zones", None), ("zone_ids", None), ("dtype", "'float32'"), ("dim_name", "'zones'"), ("name", "None")],
        local_imports=["from .ops.zonal import do_mean"],
        libs=[
            Lib("obj", "self._obj", ret="abs:Obj"),
            Lib("is_dataset", "isinstance($x, xarray.Dataset)", args=dict(x="abs:Obj"), ret="bool"),
            Lib("zones_has_nodata", "'nodata' in zones.attrs", ret="bool"),
            Lib("has_nodata", "'nodata' in $x.attrs", args=dict(x="abs:Obj"), ret="bool"),
            Lib("zones_is_dataarray", "isinstance(zones, xarray.DataArray)", ret="bool"),
            Lib("fill_nodata", "$x.where($x.notnull(), $x.nodata)", args=dict(x="abs:Obj"), ret="abs:Obj",
                doc="NaN cells replaced by the nodata attribute"),
            Lib("attrs_of", "$x.attrs", args=dict(x="abs:Obj"), ret="abs:Attrs"),
            Lib("first_dim", "$x.dims[0]", args=dict(x="abs:Obj"), ret="str"),
            Lib("mk_coords", "{$a: $x.coords[$a], $n: $z, $k: $s}",
                args=dict(a="str", x="abs:Obj", n="str", z="list[abs:Z]", k="str", s="list[str]"), ret="abs:Coords",
                doc="the coordinate dict: first dim -> its coordinate in $x, $n -> $z, $k -> $s"),
            Lib("np_dtype_type", "np.dtype($d).type", args=dict(d="abs:DT"), ret="abs:DT"),
            Lib("is_dask", "is_dask_collection($x)", args=dict(x="abs:Obj"), ret="bool"),
            Lib("zones_data", "zones.data", ret="abs:ZArr"),
            Lib("zones_nodata", "zones.nodata", ret="abs:ZV"),
            Lib("data_of", "$x.data", args=dict(x="abs:Obj"), ret="abs:Arr"),
            Lib("nodata_of", "$x.nodata", args=dict(x="abs:Obj"), ret="abs:V"),
            Lib("tokenize", "tokenize($a, $b, $d)", args=dict(a="abs:Arr", b="abs:ZArr", d="abs:DT"), ret="abs:Tok"),
            Lib("name_with_token", "f'{$n}-{$t}'", args=dict(n="opt[str]", t="abs:Tok"), ret="str"),
            Lib("mk_chunks", "[$a.chunks[0], ($k,), (2,)]", args=dict(a="abs:Arr", k="int"), ret="abs:Chunks"),
            Lib("map_blocks_do_mean",
                "da.map_blocks(do_mean, $a, $b, $k, $n1, $n2, drop_axis=[1, 2], new_axis=[1, 2], chunks=$c, out_dtype=$d, name=$nm)",
                args=dict(a="abs:Arr", b="abs:ZArr", k="int", n1="abs:V", n2="abs:ZV", c="abs:Chunks", d="abs:DT", nm="opt[str]"),
                ret="abs:Data", doc="the dask branch"),
            Lib("call_do_mean", "do_mean($a, $b, $k, $n1, $n2, out_dtype=$d)",
                args=dict(a="abs:Arr", b="abs:ZArr", k="int", n1="abs:V", n2="abs:ZV", d="abs:DT"), ret="abs:Data",
                doc="the eager branch"),
            Lib("mk_dataarray", "xarray.DataArray(data=$data, dims=$dims, coords=$coords, attrs=$attrs, name=$nm)",
                args=dict(data="abs:Data", dims="tuple[str,str,str]", coords="abs:Coords", attrs="abs:Attrs", nm="opt[str]"),
                ret="abs:Res"),
        ],
        note="`zones` is opaque (it only occurs inside library patterns); `dtype` is abstract (`DT`), `name : Optional[str]`.\n",
    ),
    dict(
        name="mktrend_acc", module="GlueMktrend", file=ACC, cls="PixelAlgorithms", func="mktrend", params={}, signature=[],
        local_imports=["from .ops.stats import _mann_kendall_trend_gu, _mann_kendall_trend_gu_nd"],
        libs=[
            Lib("attrs_nodata", "self._obj.attrs.get('nodata', None)", ret="opt[abs:V]"),
            Lib("apply_mk",
                "xarray.apply_ufunc(_mann_kendall_trend_gu, self._obj, input_core_dims=[['time']], "
                "output_core_dims=[[], [], [], []], output_dtypes=$dt, dask='parallelized', keep_attrs=True)",
                args=dict(dt="list[str]"), ret="abs:Outs", doc="the kernel WITHOUT a nodata argument; four outputs"),
            Lib("apply_mk_nd",
                "xarray.apply_ufunc(_mann_kendall_trend_gu_nd, self._obj, $nd, input_core_dims=[['time'], []], "
                "output_core_dims=[[], [], [], []], output_dtypes=$dt, dask='parallelized', keep_attrs=True)",
                args=dict(nd="opt[abs:V]", dt="list[str]"), ret="abs:Outs", doc="the kernel WITH the nodata value; four outputs"),
            Lib("merge_named", "xarray.merge([xx.to_dataset(name=n) for xx, n in zip($x, $names)])",
                args=dict(x="abs:Outs", names="list[str]"), ret="abs:Ds", doc="the outputs, in order, under the given names"),
        ],
        assign_libs=[
            AssignLib("set_trend_nodata", "x.trend.attrs['nodata'] = $v", args=dict(v="int"), mutates="x", ret="abs:Ds",
                      doc="the nodata attribute of the variable `trend`"),
        ],
        note="Returns (dataset, warned).\n",
    ),
    dict(
        name="autocorr_acc", module="GlueAutocorrAcc", file=ACC, cls="PixelAlgorithms", func="autocorr", params={}, signature=[],
        libs=[
            Lib("obj", "self._obj", ret="abs:Obj"),
            Lib("attrs_nodata_of", "$x.attrs.get('nodata', None)", args=dict(x="abs:Obj"), ret="opt[abs:V]"),
            Lib("first_dim", "$x.dims[0]", args=dict(x="abs:Obj"), ret="str"),
            Lib("is_dask", "is_dask_collection($x)", args=dict(x="abs:Obj"), ret="bool"),
            Lib("num_time_chunks", "len($x.chunks[0])", args=dict(x="abs:Obj"), ret="int", doc="number of chunks along axis 0"),
            Lib("rechunk_time_single", "$x.chunk({'time': -1})", args=dict(x="abs:Obj"), ret="abs:Obj"),
            Lib("data_of", "$x.data", args=dict(x="abs:Obj"), ret="abs:Arr"),
            Lib("map_blocks_autocorr_tyx", "da.map_blocks(ops.autocorr_tyx, $a, $nd, dtype=$dt, drop_axis=$ax)",
                args=dict(a="abs:Arr", nd="opt[abs:V]", dt="str", ax="int"), ret="abs:Data"),
            Lib("call_autocorr_tyx", "ops.autocorr_tyx($a, $nd)", args=dict(a="abs:Arr", nd="opt[abs:V]"), ret="abs:Data"),
            Lib("coords_without_time", "{k: c for k, c in $x.coords.items() if k != 'time'}", args=dict(x="abs:Obj"), ret="abs:Coords"),
            Lib("dims_tail", "$x.dims[1:]", args=dict(x="abs:Obj"), ret="abs:Dims"),
            Lib("mk_dataarray", "xarray.DataArray(data=$d, dims=$dm, coords=$c)",
                args=dict(d="abs:Data", dm="abs:Dims", c="abs:Coords"), ret="abs:Res"),
            Lib("apply_autocorr",
                "xarray.apply_ufunc(ops.autocorr, $x, $nd, input_core_dims=[['time'], []], dask='parallelized', output_dtypes=$dt)",
                args=dict(x="abs:Obj", nd="opt[abs:V]", dt="list[str]"), ret="abs:Res"),
        ],
        note="Returns (result, warned).\n",
    ),
    dict(
        name="lroo_acc", module="GlueLrooAcc", file=ACC, cls="PixelAlgorithms", func="lroo", params={}, signature=[],
        libs=[
            Lib("check_for_timedim", "self._check_for_timedim()", ret="bool", doc="`'time' in self._obj.dims`"),
            Lib("apply_lroo",
                "xarray.apply_ufunc(ops.lroo, self._obj, input_core_dims=$cd, dask='parallelized', output_dtypes=$dt, keep_attrs=$ka)",
                args=dict(cd="list[list[str]]", dt="list[str]", ka="bool"), ret="abs:Res"),
        ],
    ),
]


def main():
    rc = 0
    only = set(sys.argv[1:])
    for cfg in FUNCTIONS:
        module = cfg["module"]
        if only and module not in only:
            continue
        try:
            write_if_changed(GEN / f"{module}.lean", translate_px(cfg))
        except (Unsupported, StopIteration, KeyError, IndexError, AttributeError, OSError, SyntaxError) as e:
            print(f"FAILED Hdc.Gen.{module}: unsupported construct in {cfg['func']}: {e!r}")
            rc = 1
    return rc


if __name__ == "__main__":
    sys.exit(main())
