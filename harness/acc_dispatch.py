"""Differential validation of the GLUE TRANSLATORS (py2lean_glue*.py): generated Lean accessor programs vs the real accessors.

Model side: the native driver `hdc-driver-acc` (lean/Driver/AccMain.lean) runs every generated program of
lean/Hdc/Gen/Glue*.lean with its library parameters instantiated by recording stubs (canonical strings).
Real side: the accessor of the installed `hdc.algo` is called on a small real xarray object while `xarray.apply_ufunc`,
`xarray.merge`, `xarray.DataArray`, `dask.array.map_blocks` (the name `da` of accessors.py), `tokenize`, and the two
kernels that are called directly (`ops.autocorr_tyx`, `ops.zonal.do_mean`) are replaced by recording stubs that build the
same canonical strings.  Every patch is undone by a context manager.  Both sides enumerate the same finite grids
(`GRIDS`): falsy-but-valid values (0, 0.0), NaN, None, omitted (defaulted) parameters, positional and keyword calls.

    run(ctx, names)              from a property check (ctx: core.Ctx)
    python acc_dispatch.py [names..]   standalone: `ok <n cases>` or the mismatches (exit 1)

Canonical strings carry no addresses, no computed floats (number tokens are echoed), dicts and keyword arguments sorted.
"""
from __future__ import annotations

import contextlib
import itertools
import math
import sys
import warnings
from pathlib import Path

if __name__ == "__main__":
    sys.path.insert(0, str(Path(__file__).resolve().parent))

import numpy as np  # noqa: E402


# ---------------------------------------------------------------- tokens

def val(tok: str):
    """token -> Python value"""
    if tok == "none":
        return None
    if tok == "nan" or "." in tok:
        return float(tok)
    return int(tok)


class Sym:
    """symbolic result of a recording stub"""

    def __init__(self, s, name=None, n=None):
        self.s, self.name, self.n = s, name, n
        self._vars = {}
        self.attrs = {}          # res.attrs.update(..)

    def __str__(self):
        return fmt(self)

    __format__ = lambda self, spec: fmt(self)  # noqa: E731

    # 10 ** sg
    def __rpow__(self, base):
        return Sym(f"pow10({self.s})" if base == 10 and type(base) is int else f"rpow({fmt(base)},{self.s})")

    # np.log10(x).astype("float32")
    def log10(self):
        return Sym(f"log10({self.s})")

    def astype(self, t, *a, **k):
        return Sym(f"{self.s}.astype({fmtargs((t,) + a, k)})")

    def to_dataset(self, *a, **k):
        return Sym(f"ds({self.s}{',' if a or k else ''}{fmtargs(a, k)})")

    def __setitem__(self, key, v):
        self.s = f"{self.s}[{fmt(key)}]={fmt(v)}"

    # xx[..., k:]   (per pixel: the cells along the core dimension)
    def __getitem__(self, key):
        if (isinstance(key, tuple) and len(key) == 2 and key[0] is Ellipsis and isinstance(key[1], slice)
                and self.n is not None):
            return Sym("[" + ",".join(f"{self.s}#{i}" for i in list(range(self.n))[key[1]]) + "]")
        return Sym(f"{self.s}[{fmt(key)}]")

    # x.trend.attrs["nodata"] = -2
    def __getattr__(self, item):
        if item.startswith("_"):
            raise AttributeError(item)
        import types
        return self._vars.setdefault(item, types.SimpleNamespace(attrs={}))

    # arithmetic (Anomalies)
    def _bin(self, op, other, swap=False):
        a, b = (fmt(other), self.s) if swap else (self.s, fmt(other))
        return Sym(f"({a}{op}{b})")

    def __add__(self, o): return self._bin("+", o)
    def __radd__(self, o): return self._bin("+", o, True)
    def __sub__(self, o): return self._bin("-", o)
    def __rsub__(self, o): return self._bin("-", o, True)
    def __mul__(self, o): return self._bin("*", o)
    def __rmul__(self, o): return self._bin("*", o, True)
    def __truediv__(self, o): return self._bin("/", o)
    def __rtruediv__(self, o): return self._bin("/", o, True)


class Reg:
    """per-case registry: identity -> canonical name, the object under test"""
    ids: dict = {}
    keep: list = []
    obj = None
    kernels: dict = {}

    @classmethod
    def reset(cls):
        cls.ids, cls.keep, cls.obj = {}, [], None

    @classmethod
    def name(cls, o, nm):
        cls.ids[id(o)] = nm
        cls.keep.append(o)
        return o


DFLT_SRANGE = np.arange(-1.8, 4.2, 0.2)


def fmt(v) -> str:
    import xarray
    import dask.array as da
    if id(v) in Reg.ids:
        return Reg.ids[id(v)]
    if v is None:
        return "None"
    if isinstance(v, Sym):
        s = v.s
        for var, ns in sorted(v._vars.items()):
            for k, x in sorted(ns.attrs.items()):
                s += f";{var}.{k}={fmt(x)}"
        for k, x in sorted(v.attrs.items()):
            s += f";{k}={fmt(x)}"
        return s
    if isinstance(v, (bool, np.bool_)):
        return "True" if v else "False"
    if isinstance(v, str):
        return v
    if isinstance(v, (int, np.integer)):
        return str(int(v))
    if isinstance(v, (float, np.floating)):
        v = float(v)
        return "nan" if math.isnan(v) else repr(v)
    if isinstance(v, type):
        return f"np.{v.__name__}" if v.__module__ == "numpy" else v.__name__
    if isinstance(v, list):
        return "[" + ",".join(fmt(x) for x in v) + "]"
    if isinstance(v, tuple):
        return "(" + ",".join(fmt(x) for x in v) + ")"
    if isinstance(v, dict):
        return "{" + ",".join(f"{k}:{fmt(v[k])}" for k in sorted(v)) + "}"
    if isinstance(v, slice):
        return f"slice({fmt(v.start)},{fmt(v.stop)},{fmt(v.step)})"
    if v is Ellipsis:
        return "..."
    obj = Reg.obj
    if isinstance(v, xarray.DataArray):
        if v.ndim == 1 and v.name in v.dims:
            return f"coord:{v.name}"
        if obj is not None and v.dims == obj.dims and _single_time_chunk(v.data):
            return "obj.chunk(time=-1)"
        return f"?DataArray{v.dims}"
    if isinstance(v, da.Array):
        if obj is not None and v.shape == obj.shape:
            if Reg.ids.get("mode") == "zonal":
                return "fill(obj).data"
            if _single_time_chunk(v):
                return "obj.chunk(time=-1).data"
        return f"?dask{v.shape}"
    if isinstance(v, np.ndarray):
        if v.dtype == np.uint8 and v.ndim == 1 and not v.any():
            return f"zeros_u1({v.size})"
        if v.dtype == np.float64 and v.shape == DFLT_SRANGE.shape and np.array_equal(v, DFLT_SRANGE):
            return "dflt_srange"
        if v.ndim == 1 and v.dtype.kind in "iu":
            return "[" + ",".join(str(int(x)) for x in v) + "]"
        if Reg.ids.get("mode") == "spi" and v.ndim == 2 and v.shape[1] == 2 and v.dtype == np.int16:
            return "[" + ",".join(_ilist(r) for r in v) + "]"
        if obj is not None and v.shape == obj.shape:
            if Reg.ids.get("mode") == "zonal":
                return "fill(obj).data"
            return f"obj.astype({v.dtype.name}).data"
        return f"?ndarray{v.shape}{v.dtype.name}"
    return f"?{type(v).__name__}"


def _single_time_chunk(a):
    ch = getattr(a, "chunks", None)
    if not ch or Reg.obj is None or "time" not in Reg.obj.dims:
        return False
    return len(ch[Reg.obj.dims.index("time")]) == 1


def fmtargs(args, kwargs) -> str:
    return ",".join([fmt(a) for a in args] + [f"{k}={fmt(kwargs[k])}" for k in sorted(kwargs)])


def kname(func) -> str:
    return Reg.kernels.get(id(func), "?" + getattr(func, "__name__", type(func).__name__))


# ---------------------------------------------------------------- recording stubs / patches

def _core_len(args, kwargs):
    ocd = kwargs.get("output_core_dims")
    try:
        return int(args[0].sizes[ocd[0][0]])
    except Exception:
        return None


def stub_apply_ufunc(func, *args, **kwargs):
    call = f"{kname(func)}({fmtargs(args, {})})|{fmtargs((), kwargs)}"
    name = getattr(args[0], "name", None) if args else None
    nout = len(kwargs.get("output_core_dims", [[]]))
    if nout == 1:
        return Sym(call, name=name, n=_core_len(args, kwargs))
    return tuple(Sym(f"{call}#{i}", name=name) for i in range(nout))


def stub_map_blocks(func, *args, **kwargs):
    return Sym(f"map_blocks({kname(func)},{fmtargs(args, kwargs)})")


def stub_merge(objs, *a, **k):
    return Sym(f"merge({fmtargs((list(objs),) + a, k)})")


def mkstub(nm):
    def stub(*args, **kwargs):
        return Sym(f"{nm}({fmtargs(args, kwargs)})")
    stub.__name__ = nm
    return stub


@contextlib.contextmanager
def patched():
    """replace the library entry points of hdc/algo/accessors.py by recording stubs; everything is restored on exit"""
    import types
    import xarray
    import hdc.algo.accessors as acc
    import hdc.algo.ops as ops
    import hdc.algo.ops.stats as stats
    import hdc.algo.ops.zonal as zonal

    real_da = xarray.DataArray

    class _Meta(type):
        def __instancecheck__(cls, inst):
            return isinstance(inst, real_da)

    class FakeDataArray(metaclass=_Meta):
        def __new__(cls, *args, **kwargs):
            return Sym(f"DataArray({fmtargs(args, kwargs)})")

    saved = []

    def setp(owner, attr, new):
        saved.append((owner, attr, getattr(owner, attr)))
        setattr(owner, attr, new)

    old_kernels = Reg.kernels
    kernels = {}
    for mod in (ops, stats, zonal):
        for k, v in vars(mod).items():
            if callable(v) and not isinstance(v, type) and not k.startswith("__"):
                kernels.setdefault(id(v), k)
    try:
        tyx, dm = mkstub("autocorr_tyx"), mkstub("do_mean")
        kernels[id(tyx)] = "autocorr_tyx"
        kernels[id(dm)] = "do_mean"
        Reg.kernels = kernels
        setp(ops, "autocorr_tyx", tyx)
        setp(zonal, "do_mean", dm)
        setp(xarray, "apply_ufunc", stub_apply_ufunc)
        setp(xarray, "merge", stub_merge)
        setp(xarray, "DataArray", FakeDataArray)
        setp(acc, "da", types.SimpleNamespace(map_blocks=stub_map_blocks))
        setp(acc, "tokenize", mkstub("tokenize"))
        yield
    finally:
        for owner, attr, old in reversed(saved):
            setattr(owner, attr, old)
        Reg.kernels = old_kernels


def observe(thunk, warned=False) -> str:
    """run the real accessor under the patches; canonical reply"""
    with patched(), warnings.catch_warnings(record=True) as w:
        warnings.simplefilter("always")
        try:
            r = thunk()
            out = "ok " + fmt(r)
        except Exception as e:  # pylint: disable=broad-except
            return "exc " + type(e).__name__
    if warned:
        out += " warned=" + ("True" if any(issubclass(x.category, UserWarning) for x in w) else "False")
    return out


def mkobj(td=True, name=None, nodata="none", dtype="float32", n=3):
    import xarray
    import hdc.algo  # noqa: F401  (registers the accessors)
    Reg.reset()
    x = xarray.DataArray(np.arange(2 * n).reshape(2, n).astype(dtype), dims=("x", "time" if td else "t"), name=name)
    if nodata != "none":
        x.attrs["nodata"] = val(nodata)
    Reg.obj = Reg.name(x, "obj")
    Reg.name(x.data, "obj.data")
    return x


def call(method, pos, opt, style):
    """`opt`: ordered (name, value, omit) of the defaulted parameters.  style kw / pos / omit (= kw, None-valued left out)"""
    if style == "pos":
        args = list(pos)
        for _, v, omit in opt:
            if omit:
                break
            args.append(v)
        else:
            return method(*args)
        # a parameter must be omitted: the rest by keyword
        k = len(args) - len(pos)
        return method(*args, **{nm: v for nm, v, omit in opt[k:] if not omit})
    return method(*pos, **{nm: v for nm, v, omit in opt if not omit and not (style == "omit" and v is None)})


# ---------------------------------------------------------------- grids

P = ["none", "0.0", "0.5", "0.9", "nan"]
STYLES = ["kw", "pos", "omit"]
GRIDS: dict = {}
MODEL = {}
IMPL = {}


def _d(**k):
    return k


# --- whits
GRIDS["whits"] = [_d(td=td, nodata=nd, sg=sg, s=s, p=p, style=st)
                  for td in (1, 0) for nd in ("0", "-9999") for sg in ("none", "sg") for s in ("none", "0.0", "10.0")
                  for p in P for st in STYLES] + \
                 [_d(td=td, nodata=nd, dflt=1) for td in (1, 0) for nd in ("0", "-9999")]


def _m_whits(c):
    if c.get("dflt"):
        return f"whits_dflt {c['td']} {c['nodata']}"
    return f"whits {c['td']} {c['nodata']} {c['sg']} {c['s']} {c['p']}"


def _i_whits(c):
    x = mkobj(td=c["td"])
    nd = val(c["nodata"])
    if c.get("dflt"):
        return observe(lambda: x.hdc.whit.whits(nd))
    sg = None if c["sg"] == "none" else Reg.name(Sym("sg"), "sg")
    opt = [("sg", sg, False), ("s", val(c["s"]), False), ("p", val(c["p"]), False)]
    return observe(lambda: call(x.hdc.whit.whits, [nd], opt, c["style"]))


# --- whitsvc
GRIDS["whitsvc"] = [_d(td=td, name=nm, nodata="0", lc=lc, srange=sr, p=p, style=st)
                    for td in (1, 0) for nm in ("none", "x") for lc in ("none", "lc") for sr in ("none", "sr")
                    for p in P for st in STYLES] + \
                   [_d(td=td, name=nm, nodata="-9999", dflt=1) for td in (1, 0) for nm in ("none", "x")]


def _m_whitsvc(c):
    if c.get("dflt"):
        return f"whitsvc_dflt {c['td']} {c['name']} {c['nodata']}"
    return f"whitsvc {c['td']} {c['name']} {c['nodata']} {c['lc']} {c['srange']} {c['p']}"


def _i_whitsvc(c):
    x = mkobj(td=c["td"], name=val_name(c["name"]))
    nd = val(c["nodata"])
    if c.get("dflt"):
        return observe(lambda: x.hdc.whit.whitsvc(nd))
    lc = None if c["lc"] == "none" else Reg.name(Sym("lc"), "lc")
    sr = None if c["srange"] == "none" else Reg.name(np.array([0.0, 1.0]), "sr")
    opt = [("lc", lc, False), ("srange", sr, False), ("p", val(c["p"]), False)]
    return observe(lambda: call(x.hdc.whit.whitsvc, [nd], opt, c["style"]))


def val_name(t):
    return None if t == "none" else t


# --- whitswcv
GRIDS["whitswcv"] = [_d(td=td, name=nm, nodata="0", srange=sr, p=p, robust=rb, style=st)
                     for td in (1, 0) for nm in ("none", "x") for sr in ("none", "sr") for p in P
                     for rb in ("1", "0", "dflt") for st in STYLES] + \
                    [_d(td=td, name=nm, nodata="-9999", dflt=1) for td in (1, 0) for nm in ("none", "x")]


def _m_whitswcv(c):
    if c.get("dflt"):
        return f"whitswcv_dflt {c['td']} {c['name']} {c['nodata']}"
    return f"whitswcv {c['td']} {c['name']} {c['nodata']} {c['srange']} {c['p']} {c['robust']}"


def _i_whitswcv(c):
    x = mkobj(td=c["td"], name=val_name(c["name"]))
    nd = val(c["nodata"])
    if c.get("dflt"):
        return observe(lambda: x.hdc.whit.whitswcv(nd))
    sr = None if c["srange"] == "none" else Reg.name(np.array([0.0, 1.0]), "sr")
    rb = c["robust"]
    opt = [("srange", sr, False), ("p", val(c["p"]), False), ("robust", rb == "1", rb == "dflt")]
    return observe(lambda: call(x.hdc.whit.whitswcv, [nd], opt, c["style"]))


# --- whitint
GRIDS["whitint"] = [_d(td=td, dtype=dt, labels=lb, style=st)
                    for td in (1, 0) for dt in ("int16", "int32", "float32")
                    for lb in ([0, 0, 1, 2], [5, 5, 5], [3, 1, 3, 1, 2], []) for st in ("kw", "pos")]


def _ilist(xs):
    return "[" + ",".join(str(int(v)) for v in xs) + "]"


def _m_whitint(c):
    return f"whitint {c['td']} {c['dtype']} {_ilist(c['labels'])}"


def _i_whitint(c):
    x = mkobj(td=c["td"], dtype=c["dtype"])
    labels = np.array(c["labels"], dtype="int32")
    tmpl = Reg.name(np.array([1, 0, 1], dtype="u1") + 0, "tmpl")
    if c["style"] == "kw":
        return observe(lambda: x.hdc.whit.whitint(labels_daily=labels, template=tmpl))
    return observe(lambda: x.hdc.whit.whitint(labels, tmpl))


# --- croo (real execution per pixel)
_SERIES = [
    [(1, 1), (2, 1), (3, 1)], [(1, 1), (2, 1), (3, 0)], [(1, 0), (2, 1), (3, 1)], [(3, 1), (1, 1), (2, 0)],
    [(1, 1), (2, None), (3, 1)], [(1, None), (2, 1), (3, 1)], [(1, 1), (2, 1), (3, None)], [(1, 0), (2, 0), (3, 0)],
    [(1, 2), (2, 1), (3, 1)], [(1, 1), (2, 1), (3, 2)], [(5, 1)], [(5, 0)], [(5, None)], [(2, 1), (1, 0), (4, 1), (3, 1)],
    [(1, None), (2, None)], [(1, 1), (2, 0), (3, 1), (4, 1), (5, 1)], [(1, 3), (2, 1)], [(1, 1), (2, 3)],
]
GRIDS["croo"] = [_d(td=td, series=s) for s in _SERIES for td in (1, 0)]


def _m_croo(c):
    ser = ",".join(f"{t}:{'nan' if v is None else v}" for t, v in c["series"]) or "-"
    return f"croo {c['td']} {ser}"


def _i_croo(c):
    import xarray
    import hdc.algo  # noqa: F401
    Reg.reset()
    ts = [t for t, _ in c["series"]]
    vs = [float("nan") if v is None else float(v) for _, v in c["series"]]
    dim = "time" if c["td"] else "t"
    x = xarray.DataArray(np.array(vs, dtype="float64"), dims=(dim,), coords={dim: np.array(ts, dtype="int64")})
    try:
        with warnings.catch_warnings():
            warnings.simplefilter("ignore")
            r = float(x.hdc.algo.croo())
    except Exception as e:  # pylint: disable=broad-except
        return "exc " + type(e).__name__
    return "ok nan" if math.isnan(r) else ("ok " + (str(int(r)) if r == int(r) else repr(r)))


# --- lroo
GRIDS["lroo"] = [_d(td=1), _d(td=0)]
MODEL["lroo"] = lambda c: f"lroo {c['td']}"


def _i_lroo(c):
    x = mkobj(td=c["td"])
    return observe(lambda: x.hdc.algo.lroo())


IMPL["lroo"] = _i_lroo

# --- autocorr
GRIDS["autocorr"] = [_d(dims=dm, dask=dk, chunks=ch, nodata=nd)
                     for dm in ("tyx", "yxt") for dk in (0, 1) for ch in (1, 2) for nd in ("none", "0", "-9999")]


def _m_autocorr(c):
    fd, tail = ("time", "(y,x)") if c["dims"] == "tyx" else ("y", "(x,time)")
    ntc = c["chunks"] if c["dask"] else 1
    return f"autocorr {fd} {tail} {c['dask']} {ntc} {c['nodata']}"


def mkobj3(dims, dask, chunks, nodata, cls="da"):
    import xarray
    import hdc.algo  # noqa: F401
    Reg.reset()
    names = ("time", "y", "x") if dims == "tyx" else ("y", "x", "time")
    shape = tuple(4 if d == "time" else 2 for d in names)
    x = xarray.DataArray(np.arange(16, dtype="float32").reshape(shape), dims=names,
                         coords={d: np.arange(s) for d, s in zip(names, shape)})
    if nodata != "none":
        x.attrs["nodata"] = val(nodata)
    if dask:
        x = x.chunk({"time": -1 if chunks == 1 else 2, "y": -1, "x": -1})
    Reg.obj = Reg.name(x, "obj")
    Reg.name(x.data, "obj.data")
    return x


def _i_autocorr(c):
    x = mkobj3(c["dims"], c["dask"], c["chunks"], c["nodata"])
    return observe(lambda: x.hdc.algo.autocorr(), warned=True)


# --- mktrend
GRIDS["mktrend"] = [_d(nodata=nd) for nd in ("none", "0", "-9999", "0.0")]
MODEL["mktrend"] = lambda c: f"mktrend {c['nodata']}"


def _i_mktrend(c):
    x = mkobj(nodata=c["nodata"])
    return observe(lambda: x.hdc.algo.mktrend(), warned=True)


IMPL["mktrend"] = _i_mktrend

# --- rolling.sum
GRIDS["rollsum"] = [_d(window=w, nodata=nda, attr=at, dtype=dt, dim=dm)
                    for w in (0, 1, 2, 3, 4) for nda in ("none", "0", "-9999", "0.0") for at in ("none", "0", "-9999")
                    for dt, dm in (("dflt", "dflt"), ("int16", "time"), ("dflt", "time"))]


def _m_rollsum(c):
    dt = "float32" if c["dtype"] == "dflt" else c["dtype"]   # defaults of the def line: dtype="float32", dimension="time"
    dm = "time" if c["dim"] == "dflt" else c["dim"]
    return f"rollsum 3 {c['window']} {dm} {dt} {c['nodata']} {c['attr']}"


def _i_rollsum(c):
    x = mkobj(nodata=c["attr"], n=3)
    kw = {}
    if c["dtype"] != "dflt":
        kw["dtype"] = c["dtype"]
    if c["dim"] != "dflt":
        kw["dimension"] = c["dim"]
    if c["nodata"] != "none" or c["window"] % 2:
        kw["nodata"] = val(c["nodata"])       # None: passed explicitly for odd windows, omitted for even ones
    return observe(lambda: x.hdc.rolling.sum(c["window"], **kw))


# --- mean_grp accessor
GRIDS["meangrp"] = [_d(td=td, groups=g, nodata=nda, attr=at, arr=arr, style=st)
                    for td in (1, 0) for g in ([0, 0, 1], [0, 1], [0, 0, 1, 1], [2, 2, 2], [])
                    for nda in ("none", "0", "-9999", "0.0") for at in ("none", "0", "-9999")
                    for arr in (0, 1) for st in STYLES]


def _m_meangrp(c):
    return f"meangrp {c['td']} {_ilist(c['groups'])} 3 {c['nodata']} {c['attr']}"


def _i_meangrp(c):
    x = mkobj(td=c["td"], nodata=c["attr"], n=3)
    g = np.array(c["groups"], dtype="int16") if c["arr"] else list(c["groups"])
    return observe(lambda: call(x.hdc.algo.mean_grp, [g], [("nodata", val(c["nodata"]), False)], c["style"]))


# --- zonal.mean
GRIDS["zonal"] = [_d(isds=a, hasnd=b, zda=z, znd=zn, dask=dk, name=nm, dtype=dt, dim=dm)
                  for a in (0, 1) for b in (1, 0) for z in (1, 0) for zn in (1, 0) for dk in (0, 1)
                  for nm in ("none", "z") for dt, dm in (("dflt", "dflt"), ("float64", "zz"))]


def _m_zonal(c):
    dt = "float32" if c["dtype"] == "dflt" else c["dtype"]   # defaults of the def line: dtype="float32", dim_name="zones"
    dm = "zones" if c["dim"] == "dflt" else c["dim"]
    return f"zonal {c['isds']} {c['hasnd']} {c['zda']} {c['znd']} {c['dask']} {c['name']} [0,1,2] {dt} {dm}"


def _i_zonal(c):
    import xarray
    x = mkobj3("tyx", c["dask"], 2, "-9999" if c["hasnd"] else "none")
    Reg.ids["mode"] = "zonal"
    zones = xarray.DataArray(np.array([[0, 1], [2, 255]], dtype="uint8"), dims=("y", "x"))
    if c["znd"]:
        zones.attrs["nodata"] = 255
    if c["dask"]:
        zones = zones.chunk()
    Reg.name(zones.data, "zones.data")
    zarg = zones if c["zda"] else np.asarray(zones)
    target = x.to_dataset(name="band") if c["isds"] else x
    if c["isds"]:
        target.attrs.update(x.attrs)
    kw = {}
    if c["dtype"] != "dflt":
        kw["dtype"] = c["dtype"]
    if c["dim"] != "dflt":
        kw["dim_name"] = c["dim"]
    if c["name"] != "none" or c["dask"]:
        kw["name"] = val_name(c["name"])
    return observe(lambda: target.hdc.zonal.mean(zarg, [0, 1, 2], **kw))


# --- Anomalies
GRIDS["anom"] = [_d(kind=k, offset=o) for k in ("ratio", "diff") for o in ("dflt", "0", "1", "1/2", "-3", "0.0")]
MODEL["anom"] = lambda c: f"anom {c['kind']} {c['offset']}"


def _i_anom(c):
    import hdc.algo.accessors as acc
    Reg.reset()
    a = acc.Anomalies(Sym("obj"))
    f = getattr(a, c["kind"])
    ref = Sym("ref")
    try:
        return "ok " + fmt(f(ref) if c["offset"] == "dflt" else f(ref, Sym(c["offset"])))
    except Exception as e:  # pylint: disable=broad-except
        return "exc " + type(e).__name__


# --- DekadPeriod (real execution on a few time axes) and AccessorTimeBase.__init__
_AXES = [[(2020, 1, 5), (2020, 2, 29), (2021, 2, 28)], [(2019, 12, 31), (2020, 1, 1), (2020, 1, 10), (2020, 1, 11), (2020, 1, 20),
         (2020, 1, 21)], [(2000, 2, 21)], [(1999, 12, 25), (1999, 12, 5)], [(2024, 7, 31), (2024, 6, 30), (2023, 2, 20)]]
GRIDS["period"] = [_d(prop=p, axis=a) for a in _AXES
                   for p in ("idx", "midx", "yidx", "ndays", "label", "raw", "linspace", "start_date", "end_date")]
MODEL["period"] = lambda c: f"period {c['prop']} " + ",".join(f"{y}-{m}-{d}" for y, m, d in c["axis"])


def _i_period(c):
    import pandas as pd
    import xarray
    import hdc.algo  # noqa: F401
    Reg.reset()
    t = pd.DatetimeIndex([pd.Timestamp(year=y, month=m, day=d) for y, m, d in c["axis"]])
    x = xarray.DataArray(np.zeros(len(t)), dims=("time",), coords={"time": t})
    try:
        with warnings.catch_warnings(record=True) as w:
            warnings.simplefilter("always")
            r = getattr(x.time.dekad, c["prop"]).values
    except Exception as e:  # pylint: disable=broad-except
        n = type(e).__name__
        return "exc Hdc.Py.PyErr." + n[0].lower() + n[1:]
    if c["prop"] in ("start_date", "end_date"):
        out = []
        for v in r:
            ts = pd.Timestamp(v)
            us = ((ts.hour * 60 + ts.minute) * 60 + ts.second) * 1000000 + ts.microsecond
            out.append(f"{ts.year}-{ts.month}-{ts.day}+{us}")
        s = "[" + ",".join(out) + "]"
    else:
        s = "[" + ",".join(str(v) for v in r.tolist()) + "]"
    if c["prop"] == "midx":
        ws = [x_ for x_ in w if issubclass(x_.category, DeprecationWarning) and "midx" in str(x_.message)]
        # stacklevel 2: the warning is attributed to the caller of the property (this file)
        lvl = 2 if ws and ws[0].filename == __file__ else "?"
        s += " warnings=[" + ",".join(f"deprecationWarning {lvl}" for _ in ws) + "]"
    return "ok " + s


GRIDS["tbinit"] = [_d(dt=a, ht=b, td=t) for a, b, t in ((1, 1, 1), (1, 1, 0), (1, 0, 0), (0, 1, 1), (0, 0, 0))]
MODEL["tbinit"] = lambda c: f"tbinit {c['dt']} {c['ht']} {c['td']}"


def _i_tbinit(c):
    import xarray
    import hdc.algo.accessors as acc
    Reg.reset()
    stamp = np.array(["2020-01-05", "2020-01-15"], dtype="datetime64[ns]")
    if not c["dt"]:
        x = (xarray.DataArray(np.arange(2), dims=("time",), coords={"time": stamp}) if c["ht"]
             else xarray.DataArray(np.arange(2), dims=("t",)))
    elif not c["ht"]:
        x = xarray.DataArray(stamp, dims=("t",))
    elif not c["td"]:
        x = xarray.DataArray(stamp[0], coords={"time": stamp[0]})
    else:
        x = xarray.DataArray(stamp, dims=("time",), coords={"time": stamp})
    try:
        a = acc.DekadPeriod(x)
    except Exception as e:  # pylint: disable=broad-except
        return "exc " + type(e).__name__
    # pylint: disable=protected-access
    if a._obj is x:
        return "ok obj"
    if a._obj.dims == ("time",) + x.dims and a._obj.size == x.size:
        return "ok expand_dims(obj,time)"
    return f"ok ?{a._obj.dims}"



# ================================================================ the four older glue programs

# --- IterativeAggregation._iteragg through x.hdc.iteragg.sum / mean / full (REAL execution, no stubs)
_EPOCH = np.datetime64("2020-01-01")


def _ia_axis(kind, n):
    """(tokens, values) of a unique axis; kinds i / j: integers with the falsy 0 inside / in front, f: floats with 0.0, d: dates"""
    if kind == "i":
        v = [5, 0, 7, 9, 11, 13][:n]
    elif kind == "j":
        v = [0, 5, 7, 9, 11, 13][:n]
    elif kind == "f":
        v = [1.5, 0.0, 2.5, 3.5, 4.5, 5.5][:n]
    else:
        return [f"d{i}" for i in range(n)], [_EPOCH + np.timedelta64(10 * i, "D") for i in range(n)]
    return [repr(x) for x in v], v


def _ia_off(kind):
    return {"i": ("99", 99), "j": ("99", 99), "f": ("99.5", 99.5), "d": ("d99", _EPOCH + np.timedelta64(995, "D"))}[kind]


def _ia_labels(kind, n):
    toks, _ = _ia_axis(kind, n)
    out = ["none", toks[0], toks[n // 2], toks[-1], _ia_off(kind)[0]]
    out += [t for t in ("0", "0.0") if t in toks]
    return list(dict.fromkeys(out))


_IA_N = ["none", "0", "1", "2", "3", "7"]
GRIDS["iteragg"] = (
    [_d(kind=k, len=n, n=nn, begin=b, end=e, func="full", dim="time", style="omit" if (n + len(b)) % 2 else "kw")
     for k, lens in (("i", range(1, 7)), ("j", (2, 5)), ("f", (2, 5)), ("d", (1, 4)))
     for n in lens for nn in _IA_N for b in _ia_labels(k, n) for e in _ia_labels(k, n)] +
    [_d(kind=k, len=4, n=nn, begin=b, end=e, func=f, dim=dm, style=st)
     for k in ("i", "d") for nn in ("none", "0", "2") for b in ("none", 1, "off") for e in ("none", 1, "off")
     for f, dm, st in (("sum", "time", "kw"), ("mean", "time", "pos"), ("full", "time", "pos"), ("sum", "band", "kw"),
                       ("mean", "band", "pos"), ("full", "band", "omit"), ("full", "nodim", "kw"), ("sum", "nodim", "omit"),
                       ("sum", "dflt", "omit"), ("full", "dflt-band", "omit"))])


def _ia_tok(c, which):
    v = c[which]
    if v == "off":
        return _ia_off(c["kind"])[0]
    if isinstance(v, int):
        return _ia_axis(c["kind"], c["len"])[0][v]
    return v


def _m_iteragg(c):
    toks, _ = _ia_axis(c["kind"], c["len"])
    objdim = "band" if c["dim"] in ("band", "dflt-band") else "time"
    dim = {"dflt": "time", "dflt-band": "time"}.get(c["dim"], c["dim"])      # default of the def lines: dim="time"
    return (f"iteragg {int(c['func'] != 'full')} {int(dim == objdim)} {int(dim == 'time')} [{','.join(toks)}] "
            f"{c['n']} {_ia_tok(c, 'begin')} {_ia_tok(c, 'end')}")


def _i_iteragg(c):
    import xarray
    import hdc.algo  # noqa: F401
    Reg.reset()
    toks, vals = _ia_axis(c["kind"], c["len"])
    n = len(toks)
    objdim = "band" if c["dim"] in ("band", "dflt-band") else "time"
    index = np.array(vals, dtype="datetime64[ns]") if c["kind"] == "d" else np.array(vals)
    # cell i along the axis holds 2**i: a nansum / nanmean / selection identifies the window
    x = xarray.DataArray(np.tile(2.0 ** np.arange(n), (2, 1)), dims=("x", objdim), coords={objdim: index})
    pdix = x[objdim].to_index()
    by_str = {str(pdix[i]): toks[i] for i in range(n)}

    def label(tok):
        if tok == "none":
            return None
        if tok in toks:
            v = vals[toks.index(tok)]
        else:
            v = _ia_off(c["kind"])[1]
        return v

    opt = [("n", val(c["n"]), False), ("dim", c["dim"], c["dim"].startswith("dflt")),
           ("begin", label(_ia_tok(c, "begin")), False), ("end", label(_ia_tok(c, "end")), False), ("method", None, False)]
    dim = "time" if c["dim"].startswith("dflt") else c["dim"]

    def window(mask):
        m = int(mask)
        if m != mask or m <= 0:
            return "?"
        jj = (m & -m).bit_length() - 1
        ii = m.bit_length()
        return f"{jj}:{ii}" if m == (1 << ii) - (1 << jj) else "?"

    def show(o):
        a = o.attrs
        k = a.get("agg_n")
        if c["func"] == "full":
            row = o.values[0]
            w = window(row.sum()) if o.dims == x.dims and row.size == k else "?"
        else:
            row = o.values.reshape(2, -1)[0]
            w = window(row[0] * (k if c["func"] == "mean" else 1)) if row.size == 1 else "?"
        s = f"sel({w};{by_str.get(a.get('agg_start'), '?')};{by_str.get(a.get('agg_stop'), '?')};{k})"
        if c["func"] == "full":
            return s
        s = f"reduce({s})"
        if dim in o.dims:
            if not (dim == "time" and o.sizes["time"] == 1):
                return "?" + s
            t = o.time.values[0]
            pos = [i for i in range(n) if index[i] == t]
            return f"expand({s},{toks[pos[0]] if pos else '?'})"
        return s

    try:
        with warnings.catch_warnings():
            warnings.simplefilter("ignore")
            gen = call(getattr(x.hdc.iteragg, c["func"]), [], opt, c["style"])
            return "ok [" + ",".join(show(o) for o in gen) + "]"
    except Exception as e:  # pylint: disable=broad-except
        return "exc " + type(e).__name__


MODEL["iteragg"] = _m_iteragg
IMPL["iteragg"] = _i_iteragg


# --- utils.to_linspace (REAL execution: pure NumPy)
GRIDS["linspace"] = (
    [_d(kind="int", labels=l) for l in ([3, 1, 3], [1, 2, 3], [5, 5, 5], [2, 1, 0], [0], [], [-1, 10, 9], [7, 3, 7, 3, 1],
                                        [0, 0, 1, 1, 2, 2], [32767, -32768, 0])] +
    [_d(kind="str", labels=l) for l in (["10", "9"], ["9", "10", "9", "10"], ["a", "b", "a"], ["b", "a"], ["x"], [],
                                        ["10", "2", "1"], ["A", "a", "B"], ["1", "01", "1"], ["ab", "a", "abc", "a"])])
MODEL["linspace"] = lambda c: f"linspace {c['kind']} [{','.join(str(v) for v in c['labels'])}]"


def _i_linspace(c):
    from hdc.algo.utils import to_linspace
    x = np.array(c["labels"], dtype="int64" if c["kind"] == "int" else "str")
    try:
        pix, keys = to_linspace(x)
    except Exception as e:  # pylint: disable=broad-except
        return "exc " + type(e).__name__
    if not isinstance(keys, list):
        return f"ok ?{type(keys).__name__}"
    return f"ok {_ilist(np.asarray(pix).tolist())}|[{','.join(str(k) for k in keys)}]"


IMPL["linspace"] = _i_linspace

# --- utils.get_calibration_indices (REAL execution: pure NumPy / pandas); the axis in days from _EPOCH
_CAL_AXES = [[0, 10, 20, 30, 40, 50], [0, 10, 20, 30, 40, 50, 60, 70], [0, 0, 10, 10, 20, 20, 30, 30, 40, 40, 50, 50]]


def _cal_bounds(axis):
    return [-5, 0, 10, 15, 30, axis[-1], axis[-1] + 5]


def _cal_groups(n):
    """(labels, num_groups token): alternating, alternating with the number given / one too many (an empty group),
    three groups, two blocks, labels with a gap (group 1 empty)"""
    alt = [i % 2 for i in range(n)]
    return [(alt, "none"), (alt, "2"), (alt, "3"), (alt, "1"), ([i % 3 for i in range(n)], "none"),
            ([int(i >= n // 2) for i in range(n)], "none"), ([2 * (i % 2) for i in range(n)], "none")]


GRIDS["calidx"] = [_d(axis=a, begin=b, end=e, groups=None, ng="none", how="str" if (b + e) % 2 else "dt64")
                   for a in _CAL_AXES for b in _cal_bounds(a) for e in _cal_bounds(a)] + \
                  [_d(axis=a, begin=b, end=e, groups=g, ng=ng, how="str" if (b + e) % 2 else "dt64")
                   for a in _CAL_AXES for b in _cal_bounds(a) for e in _cal_bounds(a) for g, ng in _cal_groups(len(a))]


def _m_calidx(c):
    if c["groups"] is None:
        return f"calidx {_ilist(c['axis'])} {c['begin']} {c['end']}"
    return f"calidxg {_ilist(c['axis'])} {c['begin']} {c['end']} {_ilist(c['groups'])} {c['ng']}"


def _day(d, how="dt64"):
    v = _EPOCH + np.timedelta64(int(d), "D")
    return str(v) if how == "str" else v


def _i_calidx(c):
    import pandas as pd
    from hdc.algo.utils import get_calibration_indices
    time = pd.DatetimeIndex([_day(d) for d in c["axis"]])
    rng = (_day(c["begin"], c["how"]), _day(c["end"], c["how"]))
    try:
        if c["groups"] is None:
            r = get_calibration_indices(time, rng)
            if not (isinstance(r, tuple) and len(r) == 2):
                return f"ok ?{type(r).__name__}"
            return f"ok ({int(r[0])},{int(r[1])})"
        g = np.array(c["groups"], dtype="int16")
        if c["ng"] == "none":
            r = get_calibration_indices(time, rng, g)
        else:
            r = get_calibration_indices(time, rng, g, int(c["ng"]))
        if not (isinstance(r, np.ndarray) and r.dtype == np.int16 and r.ndim == 2):
            return f"ok ?{type(r).__name__}"
        return "ok [" + ",".join(_ilist(row) for row in r) + "]"
    except Exception as e:  # pylint: disable=broad-except
        return "exc " + type(e).__name__


MODEL["calidx"] = _m_calidx
IMPL["calidx"] = _i_calidx

# --- PixelAlgorithms.spi (recording stubs for xarray.apply_ufunc; get_calibration_indices / to_linspace run for real)
_SPI_AXIS = [0, 10, 20, 30, 40, 50]
_SPI_CAL = [("none", "none"), ("none", "30"), ("10", "none"), ("10", "40"), ("15", "45"), ("-5", "55"), ("60", "none"),
            ("none", "-5"), ("40", "10"), ("20", "20"), ("25", "25"), ("10", "20"), ("20", "15"), ("0", "50"), ("50", "50"),
            ("55", "60"), ("-9", "-5")]
_SPI_GROUPS = [None, ["a", "b", "a", "b", "a", "b"], ["10", "9", "10", "9", "10", "9"], ["a", "b"],
               ["a", "b", "c", "a", "b", "c"], ["b", "b", "b", "a", "a", "a"], ["1", "1", "1", "1", "1", "1"]]
GRIDS["spi"] = [_d(td=td, cb=cb, ce=ce, nodata=nda, attr=at, groups=g, style=STYLES[(i + j + k) % 3])
                for td in (1, 0) for i, (cb, ce) in enumerate(_SPI_CAL) for j, nda in enumerate(("none", "0", "-9999", "0.0"))
                for at in ("none", "0", "-9999") for k, g in enumerate(_SPI_GROUPS)
                if td or (i < 2 and k < 2)]


def _m_spi(c):
    head = f"{c['td']} {_ilist(_SPI_AXIS)} {c['cb']} {c['ce']} {c['nodata']} {c['attr']}"
    if c["groups"] is None:
        return "spi " + head
    return f"spig {head} [{','.join(c['groups'])}]"


def _i_spi(c):
    import pandas as pd
    import xarray
    import hdc.algo  # noqa: F401
    Reg.reset()
    tix = pd.DatetimeIndex([_day(d) for d in _SPI_AXIS])
    n = len(_SPI_AXIS)
    dim = "time" if c["td"] else "t"
    x = xarray.DataArray(np.arange(2 * n).reshape(2, n).astype("float32"), dims=("x", dim), coords={dim: tix})
    if c["attr"] != "none":
        x.attrs["nodata"] = val(c["attr"])
    Reg.obj = Reg.name(x, "obj")
    Reg.name(x.data, "obj.data")
    Reg.ids["mode"] = "spi"
    days = {str(t): d for t, d in zip(tix, _SPI_AXIS)}
    g = c["groups"]
    if g is not None and g[0].isdigit():
        g = [int(v) for v in g]             # integer labels: the accessor converts with dtype="str"
    opt = [("calibration_begin", None if c["cb"] == "none" else _day(c["cb"], "str"), False),
           ("calibration_end", None if c["ce"] == "none" else _day(c["ce"], "str"), False),
           ("nodata", val(c["nodata"]), False), ("groups", g, False)]

    def thunk():
        r = call(x.hdc.algo.spi, [], opt, c["style"])
        if isinstance(r, Sym):
            r.attrs = {k: days.get(v, "?" + str(v)) for k, v in r.attrs.items()}
        return r
    return observe(thunk)


MODEL["spi"] = _m_spi
IMPL["spi"] = _i_spi

MODEL.update(whits=_m_whits, whitsvc=_m_whitsvc, whitswcv=_m_whitswcv, whitint=_m_whitint, croo=_m_croo,
             autocorr=_m_autocorr, rollsum=_m_rollsum, meangrp=_m_meangrp, zonal=_m_zonal)
IMPL.update(whits=_i_whits, whitsvc=_i_whitsvc, whitswcv=_i_whitswcv, whitint=_i_whitint, croo=_i_croo,
            autocorr=_i_autocorr, rollsum=_i_rollsum, meangrp=_i_meangrp, zonal=_i_zonal, anom=_i_anom,
            period=_i_period, tbinit=_i_tbinit)

# accessor name (as in the evidence) of every grid
ACCESSOR = dict(whits="whit.whits", whitsvc="whit.whitsvc", whitswcv="whit.whitswcv", whitint="whit.whitint",
                croo="algo.croo", lroo="algo.lroo", autocorr="algo.autocorr", mktrend="algo.mktrend",
                rollsum="rolling.sum", meangrp="algo.mean_grp", zonal="zonal.mean", anom="anom.ratio/diff",
                period="dekad.<properties>", tbinit="AccessorTimeBase.__init__",
                iteragg="iteragg.sum/mean/full", linspace="utils.to_linspace",
                calidx="utils.get_calibration_indices", spi="algo.spi")


def model_lines(name):
    return [MODEL[name](c) for c in GRIDS[name]]


def impl_observe(name, case):
    try:
        return IMPL[name](case)
    finally:
        Reg.reset()


def compare(names=None, driver=None):
    """[(name, case, model_reply, impl_reply)] of the disagreements, and the number of cases per name"""
    names = list(names or GRIDS)
    if driver is None:
        import core
        driver = core.Driver("hdc-driver-acc")
    bad, counts = [], {}
    for name in names:
        lines = model_lines(name)
        replies = driver.ask(lines)
        counts[name] = len(lines)
        for case, line, m in zip(GRIDS[name], lines, replies):
            r = impl_observe(name, case)
            if m != r:
                bad.append((name, dict(case, line=line), m, r))
    return bad, counts


def run(ctx, names, driver=None):
    """differential check of the glue translators for the accessors `names` (keys of GRIDS)"""
    bad, counts = compare(names, driver=driver)
    for name, n in counts.items():
        ctx.count(f"acc_dispatch:{ACCESSOR[name]}", n)
        for i, case in enumerate(GRIDS[name]):
            ctx.case(("acc_dispatch", name, i), nontrivial=True,
                     sample=dict(accessor=ACCESSOR[name], case=case) if i == 0 else None)
    for name, case, m, r in bad:
        ctx.disagree("T", ACCESSOR[name], case, m, r,
                     "generated glue program (recording stubs) vs real accessor (recording stubs): translator semantics")
    return len(bad)


if __name__ == "__main__":
    import time
    t0 = time.time()
    bad, counts = compare(sys.argv[1:] or None)
    for name, case, m, r in bad[:40]:
        print(f"MISMATCH {name} {case}\n   model: {m}\n   impl:  {r}")
    if bad:
        per = {}
        for b in bad:
            per[b[0]] = per.get(b[0], 0) + 1
        print(f"{len(bad)} mismatches {per} of {sum(counts.values())} cases")
        sys.exit(1)
    print(f"ok {sum(counts.values())} cases {counts} in {time.time() - t0:.1f}s")
