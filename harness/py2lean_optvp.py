#!/venv/bin/python
"""py2lean_optvp: translate the asymmetric V-curve smoothers (Python source, via `ast`) into imperative Lean 4 over an
abstract carrier `α` (`Id.run do`), statement by statement, with the machinery of py2lean_num.py:

    hdc/algo/ops/ws2doptvp.py::ws2doptvp     -> lean/Hdc/Gen/NumWs2doptvp.lean      (Hdc.Gen.NumKernels.ws2doptvp)
    hdc/algo/ops/ws2doptvp.py::_ws2doptvp    -> lean/Hdc/Gen/NumWs2doptvpCore.lean  (Hdc.Gen.NumKernels.ws2doptvpCore)
    hdc/algo/ops/ws2doptvplc.py::ws2doptvplc -> lean/Hdc/Gen/NumWs2doptvplc.lean    (Hdc.Gen.NumKernels.ws2doptvplc)

`Hdc/Props/GenNumOptvp.lean`, `GenNumOptvpCore.lean`, `GenNumOptvplc.lean` prove the generated programs equal the hand
models `Hdc.optvp`, `Hdc.optvpCore`, `Hdc.optvplc`.

Constructs added to `py2lean_num.K` (everything else is inherited unchanged):
  * slices, through the hand-written combinators of lean/Hdc/PyNpV.lean (Python bound semantics, shapes checked):
        `a[lo:hi] = b[lo':hi']` / `a[:] = f(...)`  -> `a := PyNpV.npSetSlice a lo hi <rhs>`   (`[:]` is `[0:len(a)]`)
        `a[lo:hi]` on the right                     -> `PyNpV.npSlice a lo hi`
        `a[:] = 0.0`                                -> `a := PyNpV.npFillSlice a 0 len(a) (nat 0)`
        `np.round(z, 0, out)`                       -> `out := PyNpV.npRoundInto rnd z out`
    (a slice with a step raises Unsupported);
  * `return a, b` -> `return (a, b)`;
  * `x <= y` / `x >= y` on data -> `le x y` / `le y x`, where `le : α → α → Bool` is a PARAMETER of the generated function
    (the carrier's `<=`; it cannot be expressed by `<` alone in a way that is right for NaN, and the model takes the two
    tests of ws2doptvplc as independent Booleans for the same reason);
  * `np.arange(a, b, c, dtype=float64)` -> `arange a b c`, where `arange : α → α → α → Array α` is a PARAMETER of the generated
    function (Numba's length rule `ceil((b - a) / c)` in binary64 is outside the model, which takes the grids as lists);
  * `break` inside `for i in range(10)`, `abs`, re-use of a loop variable: already handled by the base class
    (`for i_it in …; i := i_it`).

Unsupported constructs raise `base.Unsupported` -> `FAILED <module>: reason`, exit 1.

Instrumentation mode (`safe=True`; py2lean_num.SafeMixin through the subclass `SafeMixinV` below): in addition
`Hdc/Gen/SafeWs2doptvp.lean`, `SafeWs2doptvpCore.lean`, `SafeWs2doptvplc.lean` (namespace `Hdc.Gen.Safe`): the same statements
plus the flag `bad`.  On top of the checks of the base mixin (`oob` for every subscript, `badSlice` / `badSliceFrom` for every
slice with an explicit bound - on either side of an assignment -, `eqv d (nat 0)` for every scalar division by a non-literal,
the flag of the instrumented `ws2d`) `SafeMixinV` adds the two places where NumPy raises on a SHAPE (Hdc/PySafeV.lean):
  * `a[lo:hi] = <array>`        `badStoreLen lo hi <array>.size`  (`a[:] = <array>`: `lenDiff a.size <array>.size`): the source
                                does not have exactly the `hi - lo` cells of the target slice (a one-cell source, which NumPy
                                would broadcast, is flagged too: `PyNpV.npSetSlice` does not broadcast);
                                `a[lo:hi] = <scalar>` fills: no shape check
  * `np.round(z, 0, out)`       `lenDiff out.size z.size`
`np.arange(...)` is a parameter of the generated function (no check); `x <= y`, `return a, b` need no check of their own (their
operands are checked).  `return a, b` becomes `return ((a, b), bad)`.
"""
import ast
import re
import sys
from pathlib import Path

sys.path.insert(0, str(Path(__file__).resolve().parent))
import py2lean_num as base  # noqa: E402


class KV(base.K):
    """py2lean_num.K + slices / np.arange / float `<=` / tuple return"""

    # ---------------- slices
    def slice_bounds(self, arr, sl):
        if sl.step is not None:
            raise base.Unsupported("slice with a step")
        lo = "(0 : Int)" if sl.lower is None else self.iexpr(sl.lower)
        hi = f"({arr}.size : Int)" if sl.upper is None else self.iexpr(sl.upper)
        if sl.lower is not None and self.typeof(sl.lower) != "int":
            raise base.Unsupported("slice bound is not an integer")
        if sl.upper is not None and self.typeof(sl.upper) != "int":
            raise base.Unsupported("slice bound is not an integer")
        return lo, hi

    @staticmethod
    def is_slice(e):
        return isinstance(e, ast.Subscript) and isinstance(e.slice, ast.Slice) and isinstance(e.value, ast.Name)

    @staticmethod
    def is_np_call(e, attr):
        return isinstance(e, ast.Call) and isinstance(e.func, ast.Attribute) and e.func.attr == attr

    def typeof(self, e):
        if self.is_slice(e):
            t = self.ty.get(e.value.id)
            if t != "arrnum":
                raise base.Unsupported("slice of a non-float array")
            return "arrnum"
        if self.is_np_call(e, "arange"):
            return "arrnum"
        return super().typeof(e)

    def value_term(self, v):
        if self.is_slice(v):
            arr = v.value.id
            if self.ty.get(arr) != "arrnum":
                raise base.Unsupported("slice of a non-float array")
            lo, hi = self.slice_bounds(arr, v.slice)
            return "arrnum", f"PyNpV.npSlice {arr} {lo} {hi}"
        if self.is_np_call(v, "arange"):
            if len(v.args) != 3 or any(k.arg != "dtype" for k in v.keywords):
                raise base.Unsupported("np.arange form")
            return "arrnum", "arange " + " ".join(self.nexpr(a) for a in v.args)
        return super().value_term(v)

    # ---------------- comparisons
    def bexpr(self, e):
        if isinstance(e, ast.Compare) and len(e.ops) == 1 and isinstance(e.ops[0], (ast.LtE, ast.GtE)):
            l, r = e.left, e.comparators[0]
            if not (self.typeof(l) == "int" and self.typeof(r) == "int"):
                if "le" not in self.cfg["extra"]:
                    raise base.Unsupported("float comparison <= / >= (kernel has no `le` parameter)")
                a, b = self.nexpr(l), self.nexpr(r)
                return f"(le {a} {b})" if isinstance(e.ops[0], ast.LtE) else f"(le {b} {a})"
        return super().bexpr(e)

    # ---------------- statements
    def stmt(self, s, ind):
        if isinstance(s, ast.Assign) and len(s.targets) == 1 and self.is_slice(s.targets[0]):
            t, v = s.targets[0], s.value
            arr = t.value.id
            if self.ty.get(arr) != "arrnum":
                raise base.Unsupported("slice assignment to a non-float array")
            lo, hi = self.slice_bounds(arr, t.slice)
            ty, term = self.value_term(v)
            if ty == "arrnum":
                return self.emit(ind, f"{arr} := PyNpV.npSetSlice {arr} {lo} {hi} ({term})")
            if ty in ("num", "int"):
                return self.emit(ind, f"{arr} := PyNpV.npFillSlice {arr} {lo} {hi} {self.nexpr(v)}")
            raise base.Unsupported("slice assignment of " + ty)
        if isinstance(s, ast.Expr) and self.is_np_call(s.value, "round"):
            a = s.value.args      # np.round(z, 0, out)
            if len(a) != 3 or not (isinstance(a[1], ast.Constant) and a[1].value == 0) or not all(isinstance(x, ast.Name) for x in (a[0], a[2])):
                raise base.Unsupported("np.round form")
            return self.emit(ind, f"{a[2].id} := PyNpV.npRoundInto rnd {a[0].id} {a[2].id}")
        if isinstance(s, ast.Return) and isinstance(s.value, ast.Tuple):
            if not all(isinstance(x, ast.Name) for x in s.value.elts):
                raise base.Unsupported("return of a tuple of expressions")
            want = self.cfg.get("ret_types")
            got = [self.ty[x.id] for x in s.value.elts]
            if want != got:
                raise base.Unsupported(f"return type {got}, declared {want}")
            return self.emit(ind, "return (" + ", ".join(x.id for x in s.value.elts) + ")")
        return super().stmt(s, ind)


class SafeMixinV(base.SafeMixin):
    """base.SafeMixin + the shape checks of the slice stores / `np.round(z, 0, out)` that `KV` translates (module docstring).
    Everything is computed from the Python AST of the statement; the subscripts, slice bounds, divisions and kernel calls inside the
    operands are found by the inherited `ck`."""

    def array_size(self, v):
        """`<term>.size` of an array-valued right-hand side (a slice, a kernel call, `np.arange`)"""
        self._rhs_of_slice_store = True
        try:
            ty, term = self.value_term(v)
        finally:
            self._rhs_of_slice_store = False
        if ty != "arrnum":
            raise base.Unsupported("safe: slice store of " + ty)
        return term if re.fullmatch(r"[A-Za-z_][A-Za-z0-9_]*", term) else f"({term})"

    def stmt_checks(self, s):
        out = super().stmt_checks(s)
        if isinstance(s, ast.Assign):
            for t in s.targets:
                if isinstance(t, ast.Subscript) and isinstance(t.slice, ast.Slice):
                    if len(s.targets) != 1 or not isinstance(t.value, ast.Name) or t.slice.step is not None:
                        raise base.Unsupported("safe: slice store form")
                    if self.typeof(s.value) in ("num", "int"):
                        continue                      # `a[lo:hi] = scalar`: a fill, every shape is accepted
                    arr, sl = t.value.id, t.slice
                    size = self.array_size(s.value) + ".size"
                    if sl.lower is None and sl.upper is None:
                        out.append(f"PySafeV.lenDiff {arr}.size {size}")
                    else:
                        lo = "(0 : Int)" if sl.lower is None else self.iexpr(sl.lower)
                        hi = f"({arr}.size : Int)" if sl.upper is None else self.iexpr(sl.upper)
                        out.append(f"PySafeV.badStoreLen {lo} {hi} {size}")
        elif isinstance(s, ast.Expr) and isinstance(s.value, ast.Call) and isinstance(s.value.func, ast.Attribute):
            if s.value.func.attr != "round":
                raise base.Unsupported("safe: expression statement " + ast.unparse(s.value)[:60])
            a = s.value.args
            if len(a) != 3 or s.value.keywords or not all(isinstance(x, ast.Name) for x in (a[0], a[2])):
                raise base.Unsupported("safe: np.round form")
            out.append(f"PySafeV.lenDiff {a[2].id}.size {a[0].id}.size")
        return list(dict.fromkeys(out))

    def run(self):
        self.emit(1, "-- additional checks (py2lean_optvp.SafeMixinV, Hdc/PySafeV.lean): `badStoreLen lo hi k` / `lenDiff n k` = the array stored")
        self.emit(1, "-- into a slice (by `np.round(z, 0, out)`: into `out`) does not have exactly the cells of the target")
        return super().run()


GU = "(F : VFns α) (rnd : α → α)"
KERNELS = [
    dict(name="ws2doptvp", module="NumWs2doptvp", file="hdc/algo/ops/ws2doptvp.py", func="ws2doptvp",
         params=[("y", "arrnum"), ("nodata", "num"), ("p", "num"), ("llas", "arrnum"), ("out", "arrnum"), ("lopt", "arrnum")],
         consts={}, extra=GU, ret=("out", "lopt"), uses="", imports=["Hdc.Gen.Ws2d", "Hdc.PyNpV"], translator=KV,
         safe=True, safe_imports=["Hdc.Gen.SafeWs2d", "Hdc.PySafeV"], safe_mixin=SafeMixinV),
    dict(name="ws2doptvpCore", module="NumWs2doptvpCore", file="hdc/algo/ops/ws2doptvp.py", func="_ws2doptvp",
         params=[("y", "arrnum"), ("w", "arrnum"), ("p", "num"), ("llas", "arrnum")],
         consts={}, extra="(F : VFns α)", ret=None, rty="Array α × α", ret_types=["arrnum", "num"], uses="",
         imports=["Hdc.Gen.Ws2d", "Hdc.PyNpV"], translator=KV,
         safe=True, safe_imports=["Hdc.Gen.SafeWs2d", "Hdc.PySafeV"], safe_mixin=SafeMixinV),
    dict(name="ws2doptvplc", module="NumWs2doptvplc", file="hdc/algo/ops/ws2doptvplc.py", func="ws2doptvplc",
         params=[("y", "arrnum"), ("nodata", "num"), ("p", "num"), ("lc", "num"), ("out", "arrnum"), ("lopt", "arrnum")],
         consts={"0.5": "c0_5", "1.2": "c1_2", "0.2": "c0_2", "3.2": "c3_2"},
         extra=GU + " (le : α → α → Bool) (arange : α → α → α → Array α) (c0_5 c1_2 c0_2 c3_2 : α)",
         ret=("out", "lopt"), uses="", imports=["Hdc.Gen.Ws2d", "Hdc.PyNpV"], translator=KV,
         safe=True, safe_imports=["Hdc.Gen.SafeWs2d", "Hdc.PySafeV"], safe_mixin=SafeMixinV),
]

_module_of = base.module_of
base.module_of = lambda cfg: cfg.get("module") or _module_of(cfg)

if __name__ == "__main__":
    only = set(sys.argv[1:])
    sys.exit(base.main(kernels=[k for k in KERNELS if not only or k["name"] in only], tool="py2lean_optvp"))
