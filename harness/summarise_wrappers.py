#!/venv/bin/python
"""summarise_wrappers: the three one-line generator wrappers `IterativeAggregation.sum / mean / full` and the accessor registry
`HDC.__init__` of hdc/algo/accessors.py as DATA (Hdc/Gen/GlueWrappers.lean): for each wrapper the reduction that is handed to
`_iteragg` (source text of the first argument), the forwarded arguments in order, the parameter names and defaults of the `def`
line; for `HDC.__init__` the attribute -> class table and the registration decorators.  The body of a wrapper must be exactly one
statement `yield from self._iteragg(<reduction>, <names...>)` after the docstring, and `np` must be bound by `import numpy as np`
with no other binding in the module; anything else: `FAILED Hdc.Gen.GlueWrappers: reason`, exit 1, previous output left in place.
Props/GenGlueWrappers.lean states the documented table by `decide`."""
import ast
import hashlib
import os
import sys
from pathlib import Path

REPO = Path(os.environ.get("HDC_REPO", "/repo"))
GEN = Path(__file__).resolve().parent.parent / "lean" / "Hdc" / "Gen"


class Unsupported(Exception):
    pass


def lit(node):
    if isinstance(node, ast.Constant) and (node.value is None or isinstance(node.value, (str, int, bool))):
        return "None" if node.value is None else repr(node.value)
    raise Unsupported(f"default is not a simple literal: {ast.dump(node)[:80]}")


def q(s):
    return '"' + s.replace("\\", "\\\\").replace('"', '\\"') + '"'


def body_after_doc(fn):
    b = list(fn.body)
    if b and isinstance(b[0], ast.Expr) and isinstance(b[0].value, ast.Constant) and isinstance(b[0].value.value, str):
        b = b[1:]
    return b


def main():
    src = (REPO / "hdc/algo/accessors.py").read_text()
    mod = ast.parse(src)
    binds = [n for n in ast.walk(mod) if isinstance(n, (ast.Import, ast.ImportFrom)) and any((a.asname or a.name) == "np" for a in n.names)]
    if len(binds) != 1 or not isinstance(binds[0], ast.Import) or binds[0].names[0].name != "numpy":
        raise Unsupported("`np` is not bound by exactly one `import numpy as np`")
    for n in ast.walk(mod):
        if isinstance(n, (ast.Assign, ast.AugAssign, ast.AnnAssign, ast.FunctionDef, ast.ClassDef)):
            names = [t.id for t in getattr(n, "targets", []) if isinstance(t, ast.Name)] + ([n.name] if hasattr(n, "name") else [])
            if "np" in names:
                raise Unsupported("`np` re-bound in the module")
    classes = {c.name: c for c in mod.body if isinstance(c, ast.ClassDef)}
    ia = classes.get("IterativeAggregation")
    if ia is None or [ast.unparse(b) for b in ia.bases] != ["AccessorBase"]:
        raise Unsupported("class IterativeAggregation(AccessorBase) not found")
    rows, shas = [], []
    fns = [f for f in ia.body if isinstance(f, ast.FunctionDef)]
    if sorted(f.name for f in fns) != ["_iteragg", "full", "mean", "sum"]:
        raise Unsupported(f"methods of IterativeAggregation changed: {[f.name for f in fns]}")
    for name in ("sum", "mean", "full"):
        fn = [f for f in fns if f.name == name][-1]
        if fn.decorator_list or fn.args.vararg or fn.args.kwarg or fn.args.kwonlyargs or fn.args.posonlyargs:
            raise Unsupported(f"{name}: decorators / *args / keyword-only parameters")
        params = [a.arg for a in fn.args.args]
        if params[:1] != ["self"] or len(fn.args.defaults) != len(params) - 1:
            raise Unsupported(f"{name}: every parameter after self must have a default")
        body = body_after_doc(fn)
        ok = (len(body) == 1 and isinstance(body[0], ast.Expr) and isinstance(body[0].value, ast.YieldFrom)
              and isinstance(body[0].value.value, ast.Call) and ast.unparse(body[0].value.value.func) == "self._iteragg"
              and not body[0].value.value.keywords and len(body[0].value.value.args) >= 1)
        if not ok:
            raise Unsupported(f"{name}: body is not exactly `yield from self._iteragg(<reduction>, ...)`")
        call = body[0].value.value
        fwd = []
        for a in call.args[1:]:
            if not isinstance(a, ast.Name):
                raise Unsupported(f"{name}: forwarded argument is not a plain name: {ast.unparse(a)}")
            fwd.append(a.id)
        rows.append((name, ast.unparse(call.args[0]), fwd, params[1:], [lit(d) for d in fn.args.defaults]))
        shas.append(ast.get_source_segment(src, fn))
    it = [f for f in fns if f.name == "_iteragg"][-1]
    it_params = [a.arg for a in it.args.args][1:]
    hdc = classes.get("HDC")
    if hdc is None:
        raise Unsupported("class HDC not found")
    decos = [ast.unparse(d) for d in hdc.decorator_list]
    init = [f for f in hdc.body if isinstance(f, ast.FunctionDef)]
    if [f.name for f in init] != ["__init__"] or [a.arg for a in init[0].args.args] != ["self", "xarray_obj"]:
        raise Unsupported("HDC must define exactly __init__(self, xarray_obj)")
    table = []
    for st in body_after_doc(init[0]):
        ok = (isinstance(st, ast.Assign) and len(st.targets) == 1 and isinstance(st.targets[0], ast.Attribute)
              and ast.unparse(st.targets[0].value) == "self" and isinstance(st.value, ast.Call) and isinstance(st.value.func, ast.Name)
              and [ast.unparse(a) for a in st.value.args] == ["xarray_obj"] and not st.value.keywords)
        if not ok:
            raise Unsupported(f"HDC.__init__: statement is not `self.<attr> = <Class>(xarray_obj)`: {ast.unparse(st)[:80]}")
        if st.value.func.id not in classes:
            raise Unsupported(f"HDC.__init__: {st.value.func.id} is not a class of the module")
        table.append((st.targets[0].attr, st.value.func.id))
    shas.append(ast.get_source_segment(src, hdc))
    sha = hashlib.sha256("\n".join(shas).encode()).hexdigest()[:16]
    L = ["/-", f"GENERATED by harness/summarise_wrappers.py from hdc/algo/accessors.py::IterativeAggregation.sum/mean/full, HDC (sha256 of the sources {sha}).  Do not edit.",
         "-/", "namespace Hdc.Gen.GlueWrappers", "",
         "/-- a wrapper `def name(self, params = defaults): yield from self._iteragg(reduction, forwarded...)` -/",
         "structure Wrapper where", "  name : String", "  reduction : String", "  forwarded : List String", "  params : List String", "  defaults : List String",
         "  deriving DecidableEq, Repr", "",
         "def wrappers : List Wrapper := ["]
    L += [",\n".join(f"  ⟨{q(n)}, {q(r)}, [{', '.join(map(q, f))}], [{', '.join(map(q, p))}], [{', '.join(map(q, d))}]⟩" for n, r, f, p, d in rows), "]", "",
          "/-- the parameters of `_iteragg` after `self` -/", f"def iteraggParams : List String := [{', '.join(map(q, it_params))}]", "",
          "/-- `HDC.__init__`: attribute, class constructed on the wrapped object -/",
          "def registry : List (String × String) := [" + ", ".join(f"({q(a)}, {q(c)})" for a, c in table) + "]", "",
          "/-- decorators of `class HDC`, outermost first -/", "def registryDecorators : List String := [" + ", ".join(map(q, decos)) + "]", "",
          "end Hdc.Gen.GlueWrappers", ""]
    text = "\n".join(L)
    out = GEN / "GlueWrappers.lean"
    if not out.exists() or out.read_text() != text:
        out.write_text(text)
    return 0


if __name__ == "__main__":
    try:
        sys.exit(main())
    except (Unsupported, SyntaxError, OSError, IndexError, KeyError, AttributeError) as e:
        print(f"FAILED Hdc.Gen.GlueWrappers: {e!r}")
        sys.exit(1)
