#!/venv/bin/python
"""Build corpus/selection_sensitive.json: short series on which the lambda-selection criteria (V-curve, GCV) have two
nearly equal lowest values (gap between 0.05 % and 1.2 % of the criterion's spread).  Any change to how fits / roughness / scores
are computed flips the selection on a good share of them, so the checks C04 / C05 / C06 run them first on every run.
Run once on the unchanged tree (`/venv/bin/python harness/build_corpus.py`); the result is committed."""
import json
import random
import sys
from pathlib import Path

import numpy as np

ROOT = Path(__file__).resolve().parent.parent
sys.path.insert(0, str(ROOT))
from harness import gen  # noqa: E402
from harness.props.c04 import vcurve_asym, vcurve_sym  # noqa: E402
from harness.props.c05 import gcv_scores  # noqa: E402


def main():
    rng = random.Random(20260929)
    out = {"optv": [], "optvp": [], "wcv": []}
    sr = list(np.arange(-2, 4.5, 0.5))
    tries = 0
    while min(len(v) for v in out.values()) < 60 and tries < 200000:
        tries += 1
        n = rng.choice([6, 8, 10, 12, 16, 24])
        y = gen.series(rng, n, rng.choice(["sign", "walk", "ndvi", "rain"]))
        if len(set(y)) < n // 2:
            continue
        m = [True] * n
        if rng.random() < 0.4:
            for i in rng.sample(range(1, n - 1), rng.randint(1, max(1, n // 5))):
                m[i] = False
        if sum(m) < 6:
            continue
        ya = np.array([float(v) if ok else 0.0 for v, ok in zip(y, m)])
        w = np.array(m, dtype="float64")
        p = rng.choice([0.1, 0.8, 0.9])
        for variant in out:
            if len(out[variant]) >= 60:
                continue
            with np.errstate(all="ignore"):
                v = vcurve_sym(ya, w, np.array(sr)) if variant == "optv" else (vcurve_asym(ya, w, p, np.array(sr)) if variant == "optvp" else gcv_scores(ya, w, np.array(sr)))
            if not np.all(np.isfinite(v)):
                continue
            s = np.sort(v)
            spread = s[-1] - s[0]
            gap = (s[1] - s[0]) / spread if spread > 0 else 0
            if 0.0005 < gap < 0.012:
                out[variant].append(dict(y=[int(a) for a in y], mask=[int(b) for b in m], p=p, sr=[float(a) for a in sr], gap=float(gap)))
    (ROOT / "corpus").mkdir(exist_ok=True)
    (ROOT / "corpus" / "selection_sensitive.json").write_text(json.dumps(out))
    print({k: len(v) for k, v in out.items()}, "tries", tries)


if __name__ == "__main__":
    main()
