#!/venv/bin/python
"""py2lean_wcv: translate the GCV-optimised smoothers (ops/ws2dwcv.py, ops/ws2dwcvp.py), which mix loops with NumPy vector
idioms, into imperative Lean 4 over an abstract carrier `α` (`Id.run do`) -> lean/Hdc/Gen/NumWs2dwcv.lean, NumWs2dwcvp.lean.
Built on the machinery of py2lean_num.py (`import py2lean_num as base`; `W` subclasses `base.K`).
`Hdc/Props/GenNumWcv.lean` / `GenNumWcvp.lean` prove the generated programs equal the hand models `Hdc.wcv` / `Hdc.wcvp`.

The translation is statement by statement and expression by expression (compositional, type directed); nothing is matched
against a canned text.  Expression types: `int`, `num` (= α), `bool`, `arrnum`, `arrint`, `arrbool`, `arrarr` (a Python list
of short float lists).  NumPy vector idioms go through the kernel-independent combinators of the hand-written
`lean/Hdc/PyNpW.lean`:

  a ∘ b (both arrays)              npMap2 (fun e₁ e₂ => e₁ ∘ e₂) a b          ∘ ∈ + - * / < > == !=
  a ∘ c, c ∘ a (c scalar)          npMap (fun e => e ∘ c) a                   (broadcast of a scalar)
  x ** 2, x ** 0.5, 10 ** x        e * e, G.sqrtw e, G.pow10 e                (lifted through npMap on arrays)
  -a, ~mask, np.abs, np.cos        npMap (fun e => …) a
  np.sum(a), a.sum()               npSum a (left fold from 0) ; on a mask: npCount (an Int)
  np.where(c, a, b)                npWhere{S|A}{S|A} c a b                    (S: scalar branch, A: array branch)
  a[mask]                          npSelect a mask          a[mask] = c      a := npMaskSet a mask c
  a[:] = c / a[:] = b[:]           npFill a c / b           a[l:h] = b       a := npSetSlice a l h b ;  b[l:h] -> npSlice b l h
  [e for x in a]                   npMap (fun x => e) a     np.array(mask, dtype=float64) -> npMap (if · then 1 else 0)
  np.arange(m), np.zeros, np.ones  npArange m, Array.replicate …
  np.median / np.max / np.min      npMedian / npMax / npMin  (DEFINED in PyNpW.lean as the model's `median` / `maxL` / `minL`
                                   of the list: the refinement is modulo "np.median = the model's sort-based median")
  [a, b], [], l.append(x), l[i][j], l[i, j], np.array(l)     #[a, b], #[], l.push x, rd (rdA l i) j, (identity)
  np.isnan(x), np.isinf(x), np.cos, np.pi, float literals     parameters of the generated function (`isnan`, `isinf`, `cos`,
                                   `pi`, fields of `G : GFns α` through the kernel's `consts` table)
  ws2d(y, s, w)                    Gen.Ws2d.ws2d y s w   (the translated ws2d; bridged by C01gen.gen_ws2d_eq_model)
  for s in arr:                    for s_it in arr.toList do s := s_it

Scoping.  Python locals live for the whole function; Lean `let mut` variables are block scoped.  A definite-assignment
analysis finds for every local the innermost block that contains all its occurrences and in which it is assigned before every
read on every path; it is declared there (`let` if assigned once, `let mut` otherwise).  This keeps the state tuples of the
translated loops small.  A local for which the analysis fails at function level MAY BE UNBOUND when read (Python:
UnboundLocalError; here `y_temp`, first bound under `if gcv[0] < gcv_temp[0]`): it gets a companion flag `<name>_set`,
every read that is not dominated by an assignment is preceded by `if !<name>_set then unbound := true`, and the function
returns `none` when `unbound` was raised, `some (…)` otherwise.

Aliasing.  Arrays are values in Lean.  A may-alias analysis (name = name, list.append(name)) rejects an in-place write
(`a[i] = …`, `a[mask] = …`, `a[:] = …`, `np.round(_, _, a)`) to an array that may be visible through another name that is
read later (or anywhere in an enclosing loop).  Parameters are assumed not to alias each other (gufunc buffers).

Unsupported constructs raise `base.Unsupported` -> `FAILED <module>: reason`, exit 1.

Instrumentation mode (kernels declared `safe=True`; class `SafeW`, a subclass of `py2lean_num.SafeMixin` mixed in front of `W`):
IN ADDITION to the ordinary module a second module `Hdc/Gen/Safe<Name>.lean`, namespace `Hdc.Gen.Safe`: the same statements plus
the flag `bad : Bool` (declared first), `bad := (bad || c1 || ...)` before every statement, result `(<ordinary result>, bad)`.
The checks are computed from the PYTHON AST (types / terms of sub-expressions through `W.ex`), in evaluation order:
  * `oob a.size i`                 every integer subscript `a[i]` (read or store; also on a list of lists: `l[i][j]`, `l[i, j]` give
                                   `oob l.size i` and `oob (rdA l i).size j`)                                   [Hdc/PySafe.lean]
  * `badSlice a.size lo hi`        every slice `a[lo:hi]` (read or store) unless `0 <= lo <= hi <= len a` (`a[:]` never)
  * `sliceLenNe lo hi b.size`      a slice store `a[lo:hi] = b` of an array with `len b != hi - lo`               [Hdc/PySafeW.lean]
  * `lenNe a.size b.size`          every NumPy operation on two arrays whose lengths must agree: `a ∘ b` (arithmetic, comparison),
                                   `np.where(c, a, b)`, `a[mask]`, `a[mask] = c`, `a[:] = b[:]`, `np.round(z, 0, out)`
                                   (flagged whenever the lengths DIFFER: NumPy raises, except that it broadcasts a length-1 array,
                                   which the combinators of PyNpW.lean do not model)
  * `emptyArr a.size`              `np.max(a)` / `np.min(a)` of an empty array (ValueError)
  * `decide (k < 0)`               `np.zeros(k)` / `np.ones(k)` with an integer expression `k` (not for `x.shape`)
  * `eqv e2 (nat 0)`               every SCALAR division `e1 / e2` (`decide (k = 0)` for an `int` divisor; nothing for a non-zero
                                   literal); array-valued divisions do not raise: not instrumented, listed in the header
  * `(Gen.Safe.ws2d y s w).2`      every `ws2d` call (the call itself becomes `(Gen.Safe.ws2d y s w).1`)
Every `Subscript`, `/` and `ws2d` node of a statement must have been visited by the check generator, otherwise
`Unsupported("safe: ...")`; list comprehensions may not contain any of them.  NOT instrumented (NumPy does not raise / outside the
scope): array-valued divisions, `np.sqrt` / `** 0.5` of a negative number, `np.median` of an empty array (nan), `np.array(l)` of a
ragged list, the UnboundLocalError of a may-be-unbound local (that one is reported by the ordinary translation through `none`).
"""
import ast
import hashlib
import sys
from pathlib import Path

sys.path.insert(0, str(Path(__file__).resolve().parent))
import py2lean_num as base  # noqa: E402

Unsupported = base.Unsupported

GCV_CONSTS = {"1e-15": "G.eig0", "1000000000000000.0": "G.big", "1.4826": "G.c1", "4.685": "G.c2", "1e-09": "G.madtol",
              "np.pi": "pi"}
GCV_EXTRA = "(G : GFns α) (cos : α → α) (isnan isinf : α → Bool) (rnd : α → α) (pi : α)"

KERNELS = [
    dict(name="ws2dwcv", file="hdc/algo/ops/ws2dwcv.py", func="ws2dwcv",
         params=[("y", "arrnum"), ("nodata", "num"), ("llas", "arrnum"), ("robust", "bool"), ("out", "arrnum"), ("lopt", "arrnum")],
         consts=GCV_CONSTS, locals={"robust_gcv": "arrarr"}, extra=GCV_EXTRA, ret=("out", "lopt"), uses="[IntCast α]",
         imports=["Hdc.Gen.Ws2d", "Hdc.PyNpW"], safe=True, safe_imports=["Hdc.PySafeW", "Hdc.Gen.SafeWs2d"]),
    dict(name="ws2dwcvp", file="hdc/algo/ops/ws2dwcvp.py", func="ws2dwcvp",
         params=[("y", "arrnum"), ("nodata", "num"), ("p", "num"), ("llas", "arrnum"), ("robust", "bool"), ("out", "arrnum"), ("lopt", "arrnum")],
         consts=GCV_CONSTS, locals={"robust_gcv": "arrarr"}, extra=GCV_EXTRA, ret=("out", "lopt"), uses="[IntCast α]",
         imports=["Hdc.Gen.Ws2d", "Hdc.PyNpW"], safe=True, safe_imports=["Hdc.PySafeW", "Hdc.Gen.SafeWs2d"]),
]

ARR = ("arrnum", "arrint", "arrbool", "arrarr")
ELEM = {"arrnum": "num", "arrint": "int", "arrbool": "bool", "arrarr": "arrnum"}
ARR_OF = {"num": "arrnum", "int": "arrint", "bool": "arrbool"}


class V:
    """a translated expression: type, Lean term, integer literal value (if it is one)"""
    def __init__(self, ty, term, lit=None):
        self.ty, self.term, self.lit = ty, term, lit


def np_attr(f, names):
    """`np.<name>` for a name in `names`"""
    return isinstance(f, ast.Attribute) and isinstance(f.value, ast.Name) and f.value.id == "np" and f.attr in names


class W(base.K):
    LEAN_TY = dict(base.K.LEAN_TY, bool="Bool", arrbool="Array Bool", arrarr="Array (Array α)")
    DEFAULT = {"int": "0", "num": "nat 0", "bool": "false", "arrnum": "#[]", "arrint": "#[]", "arrbool": "#[]", "arrarr": "#[]"}

    def __init__(self, cfg, fn):
        super().__init__(cfg, fn)
        self.params = [n for n, t in cfg["params"] if t != "skip"]
        self.nvar = 0
        self.comp_vars = {}        # variables bound by a list comprehension (expression scope)
        self.loads = None          # names loaded by the expression under translation (for the unbound guards)

    # ---------------------------------------------------------------- expressions
    def fresh(self):
        self.nvar += 1
        return f"e{self.nvar}"

    def num(self, v):
        """scalar as a carrier term"""
        if v.ty == "num":
            return v.term
        if v.ty == "int":
            if v.lit is not None:
                return f"(nat {v.lit})" if v.lit >= 0 else f"(-(nat {-v.lit}))"
            return f"(({v.term} : Int) : α)"
        raise Unsupported(f"{v.ty} used as a number")

    def as_num_array(self, v):
        if v.ty == "arrnum":
            return v
        if v.ty == "arrint":
            x = self.fresh()
            return V("arrnum", f"(npMap (fun ({x} : Int) => (({x} : Int) : α)) {v.term})")
        raise Unsupported(f"{v.ty} used as a float array")

    def lift1(self, v, f, out_elem="num"):
        """apply the scalar operation `f : V -> term` to a scalar, or elementwise to an array"""
        if v.ty in ARR:
            if v.ty == "arrarr":
                raise Unsupported("arithmetic on a list of lists")
            x = self.fresh()
            return V(ARR_OF[out_elem], f"(npMap (fun {x} => {f(V(ELEM[v.ty], x))}) {v.term})")
        return V(out_elem, f(v))

    def lift2(self, a, b, f, out_elem):
        """binary scalar operation `f : V -> V -> term`, broadcast over arrays"""
        for v in (a, b):
            if v.ty == "arrarr":
                raise Unsupported("arithmetic on a list of lists")
        if a.ty in ARR and b.ty in ARR:
            x, y = self.fresh(), self.fresh()
            return V(ARR_OF[out_elem], f"(npMap2 (fun {x} {y} => {f(V(ELEM[a.ty], x), V(ELEM[b.ty], y))}) {a.term} {b.term})")
        if a.ty in ARR:
            x = self.fresh()
            return V(ARR_OF[out_elem], f"(npMap (fun {x} => {f(V(ELEM[a.ty], x), b)}) {a.term})")
        if b.ty in ARR:
            x = self.fresh()
            return V(ARR_OF[out_elem], f"(npMap (fun {x} => {f(a, V(ELEM[b.ty], x))}) {b.term})")
        return V(out_elem, f(a, b))

    def const(self, key):
        if key in self.cfg["consts"]:
            return V("num", self.cfg["consts"][key])
        raise Unsupported(f"float literal / constant {key} (not in the kernel's consts table)")

    def arith(self, op, a, b):
        sym = {ast.Add: "+", ast.Sub: "-", ast.Mult: "*", ast.Div: "/"}.get(type(op))
        if sym is None:
            raise Unsupported("operator " + type(op).__name__)
        scal = lambda v: ELEM[v.ty] if v.ty in ARR else v.ty
        for v in (a, b):
            if scal(v) not in ("int", "num"):
                raise Unsupported(f"arithmetic on {v.ty}")
        if scal(a) == "int" and scal(b) == "int" and sym != "/":
            return self.lift2(a, b, lambda x, y: f"({x.term} {sym} {y.term})", "int")
        if a.ty == "arrint":
            a = self.as_num_array(a)
        if b.ty == "arrint":
            b = self.as_num_array(b)
        return self.lift2(a, b, lambda x, y: f"({self.num(x)} {sym} {self.num(y)})", "num")

    def power(self, e):
        l, r = e.left, e.right
        if isinstance(r, ast.Constant) and not isinstance(r.value, bool) and r.value == 2:
            v = self.ex(l)
            if v.ty == "arrint":
                v = self.as_num_array(v)
            return self.lift1(v, lambda x: f"({self.num(x)} * {self.num(x)})")
        if isinstance(r, ast.Constant) and r.value == 0.5:
            v = self.ex(l)
            return self.lift1(v, lambda x: f"(G.sqrtw {self.num(x)})")
        if isinstance(l, ast.Constant) and not isinstance(l.value, bool) and l.value == 10:
            v = self.ex(r)
            return self.lift1(v, lambda x: f"(G.pow10 {self.num(x)})")
        raise Unsupported("power other than x ** 2, x ** 0.5, 10 ** x")

    def compare(self, op, a, b):
        scal = lambda v: ELEM[v.ty] if v.ty in ARR else v.ty
        if scal(a) == "int" and scal(b) == "int":
            sym = {ast.Lt: "<", ast.LtE: "≤", ast.Gt: ">", ast.GtE: "≥", ast.Eq: "=", ast.NotEq: "≠"}.get(type(op))
            if sym is None:
                raise Unsupported("comparison " + type(op).__name__)
            return self.lift2(a, b, lambda x, y: f"(decide ({x.term} {sym} {y.term}))", "bool")
        for v in (a, b):
            if scal(v) not in ("int", "num"):
                raise Unsupported(f"comparison of {v.ty}")
        if a.ty == "arrint":
            a = self.as_num_array(a)
        if b.ty == "arrint":
            b = self.as_num_array(b)
        if isinstance(op, ast.Lt):
            f = lambda x, y: f"(decide ({self.num(x)} < {self.num(y)}))"
        elif isinstance(op, ast.Gt):
            f = lambda x, y: f"(decide ({self.num(y)} < {self.num(x)}))"
        elif isinstance(op, ast.Eq):
            f = lambda x, y: f"(eqv {self.num(x)} {self.num(y)})"
        elif isinstance(op, ast.NotEq):
            f = lambda x, y: f"(!(eqv {self.num(x)} {self.num(y)}))"
        else:
            raise Unsupported("float comparison <= / >=")
        return self.lift2(a, b, f, "bool")

    def size_term(self, a):
        """Nat size for np.zeros / np.ones"""
        if isinstance(a, ast.Attribute) and a.attr == "shape" and isinstance(a.value, ast.Name):
            return f"{self.ex(a.value).term}.size"
        v = self.ex(a)
        if v.ty != "int":
            raise Unsupported("array size")
        return f"({v.term}).toNat"

    def call(self, e):
        f, a = e.func, e.args
        kw = {k.arg: k.value for k in e.keywords}
        if isinstance(f, ast.Name) and f.id == "ws2d" and len(a) == 3 and not kw:
            y, s, w = (self.ex(x) for x in a)
            if (y.ty, w.ty) != ("arrnum", "arrnum") or s.ty not in ("num", "int"):
                raise Unsupported("ws2d argument types")
            return V("arrnum", "(" + self.callee_term("ws2d", f"{y.term} {self.num(s)} {w.term}") + ")")
        if isinstance(f, ast.Name) and f.id == "len" and len(a) == 1:
            v = self.ex(a[0])
            if v.ty not in ARR:
                raise Unsupported("len of a scalar")
            return V("int", f"({v.term}.size : Int)")
        if isinstance(f, ast.Attribute) and f.attr == "sum" and not a and not kw:      # x.sum()
            return self.np_sum(self.ex(f.value))
        if not np_attr(f, {"array", "sum", "cos", "sqrt", "abs", "median", "max", "min", "where", "isnan", "isinf", "zeros",
                           "ones", "arange"}):
            raise Unsupported("call " + ast.dump(f)[:60])
        name = f.attr
        if name == "array":
            if set(kw) - {"dtype"} or len(a) != 1:
                raise Unsupported("np.array arguments")
            v = self.ex(a[0])
            if "dtype" in kw:
                if not (isinstance(kw["dtype"], ast.Name) and kw["dtype"].id == "float64"):
                    raise Unsupported("np.array dtype")
                if v.ty == "arrbool":
                    x = self.fresh()
                    return V("arrnum", f"(npMap (fun ({x} : Bool) => if {x} then (nat 1 : α) else (nat 0 : α)) {v.term})")
                if v.ty == "arrint":
                    return self.as_num_array(v)
            if v.ty in ("arrnum", "arrarr"):
                return v       # a fresh array with the same content
            raise Unsupported(f"np.array of {v.ty}")
        if kw:
            raise Unsupported("keyword arguments")
        if name == "sum" and len(a) == 1:
            return self.np_sum(self.ex(a[0]))
        if name in ("cos", "sqrt") and len(a) == 1:
            fn = {"cos": "cos", "sqrt": "G.sqrt"}[name]
            v = self.ex(a[0])
            if v.ty == "arrint":
                v = self.as_num_array(v)
            return self.lift1(v, lambda x: f"({fn} {self.num(x)})")
        if name == "abs" and len(a) == 1:
            return self.lift1(self.ex(a[0]), lambda x: f"(absv {self.num(x)})")
        if name in ("median", "max", "min") and len(a) == 1:
            v = self.ex(a[0])
            if v.ty != "arrnum":
                raise Unsupported(f"np.{name} of {v.ty}")
            return V("num", f"(np{name.capitalize()} {v.term})")
        if name in ("isnan", "isinf") and len(a) == 1:
            return self.lift1(self.ex(a[0]), lambda x: f"({name} {self.num(x)})", "bool")
        if name == "where" and len(a) == 3:
            c, x, y = (self.ex(t) for t in a)
            if c.ty != "arrbool":
                raise Unsupported("np.where condition")
            kinds = ""
            terms = []
            for v in (x, y):
                if v.ty == "arrint":
                    v = self.as_num_array(v)
                if v.ty == "arrnum":
                    kinds += "A"
                    terms.append(v.term)
                else:
                    kinds += "S"
                    terms.append(self.num(v))
            return V("arrnum", f"(npWhere{kinds} {c.term} {terms[0]} {terms[1]})")
        if name in ("zeros", "ones") and len(a) == 1:
            return V("arrnum", f"(Array.replicate {self.size_term(a[0])} (nat {0 if name == 'zeros' else 1}))")
        if name == "arange" and len(a) == 1:
            v = self.ex(a[0])
            if v.ty != "int":
                raise Unsupported("np.arange of a non-integer")
            return V("arrint", f"(npArange {v.term})")
        raise Unsupported("call np." + name)

    def np_sum(self, v):
        if v.ty == "arrnum":
            return V("num", f"(npSum {v.term})")
        if v.ty == "arrbool":
            return V("int", f"(npCount {v.term})")
        raise Unsupported(f"sum of {v.ty}")

    def slice_bounds(self, sl, arr_term):
        if sl.step is not None:
            raise Unsupported("slice step")
        lo = self.ex(sl.lower) if sl.lower is not None else V("int", "(0 : Int)")
        hi = self.ex(sl.upper) if sl.upper is not None else V("int", f"({arr_term}.size : Int)")
        if lo.ty != "int" or hi.ty != "int":
            raise Unsupported("slice bounds")
        return lo.term, hi.term

    def subscript(self, e):
        if isinstance(e.value, ast.Attribute) and e.value.attr == "shape":
            if not (isinstance(e.slice, ast.Constant) and e.slice.value == 0):
                raise Unsupported("shape index")
            v = self.ex(e.value.value)
            if v.ty not in ARR or v.ty == "arrarr":
                raise Unsupported("shape of a non-array")
            return V("int", f"({v.term}.size : Int)")
        v = self.ex(e.value)
        if v.ty not in ARR:
            raise Unsupported("subscript of a scalar")
        if isinstance(e.slice, ast.Slice):
            if v.ty != "arrnum":
                raise Unsupported("slice of " + v.ty)
            if e.slice.lower is None and e.slice.upper is None and e.slice.step is None:
                return v            # a[:] : the whole array
            lo, hi = self.slice_bounds(e.slice, v.term)
            return V("arrnum", f"(npSlice {v.term} {lo} {hi})")
        if isinstance(e.slice, ast.Tuple):
            if v.ty != "arrarr" or len(e.slice.elts) != 2:
                raise Unsupported("tuple index")
            i, j = (self.ex(t) for t in e.slice.elts)
            if i.ty != "int" or j.ty != "int":
                raise Unsupported("tuple index type")
            return V("num", f"(rd (rdA {v.term} {i.term}) {j.term})")
        i = self.ex(e.slice)
        if i.ty == "int":
            if v.ty == "arrnum":
                return V("num", f"(rd {v.term} {i.term})")
            if v.ty == "arrint":
                return V("int", f"(rdI {v.term} {i.term})")
            if v.ty == "arrarr":
                return V("arrnum", f"(rdA {v.term} {i.term})")
            raise Unsupported("index of " + v.ty)
        if i.ty == "arrbool" and v.ty == "arrnum":
            return V("arrnum", f"(npSelect {v.term} {i.term})")
        raise Unsupported(f"index type {i.ty}")

    def ex(self, e):
        if isinstance(e, ast.Constant):
            if isinstance(e.value, bool):
                return V("bool", "true" if e.value else "false")
            if isinstance(e.value, int):
                return V("int", f"({e.value} : Int)", lit=e.value)
            if isinstance(e.value, float):
                if e.value == int(e.value) and abs(e.value) < 2 ** 31 and e.value >= 0:
                    return V("num", f"(nat {int(e.value)})")
                return self.const(repr(e.value))
            raise Unsupported("constant " + repr(e.value))
        if isinstance(e, ast.Name):
            if e.id in self.comp_vars:
                return V(self.comp_vars[e.id], e.id)
            if e.id not in self.ty:
                raise Unsupported(f"name {e.id} read before any assignment in source order")
            if self.loads is not None:
                self.loads.add(e.id)
            return V(self.ty[e.id], e.id)
        if isinstance(e, ast.Attribute):
            if np_attr(e, {"pi"}):
                return self.const("np.pi")
            raise Unsupported("attribute " + e.attr)
        if isinstance(e, ast.Subscript):
            return self.subscript(e)
        if isinstance(e, ast.UnaryOp):
            if isinstance(e.op, ast.USub):
                v = self.ex(e.operand)
                if v.ty == "int" and v.lit is not None:
                    return V("int", f"(-{v.lit} : Int)", lit=-v.lit)
                if v.ty == "int":
                    return V("int", f"(-{v.term})")
                return self.lift1(v, lambda x: f"(-{self.num(x)})")
            if isinstance(e.op, ast.Not):
                v = self.ex(e.operand)
                if v.ty != "bool":
                    raise Unsupported("not of " + v.ty)
                return V("bool", f"(!{v.term})")
            if isinstance(e.op, ast.Invert):
                v = self.ex(e.operand)
                if v.ty not in ("bool", "arrbool"):
                    raise Unsupported("~ of " + v.ty)
                return self.lift1(v, lambda x: f"(!{x.term})", "bool")
            raise Unsupported("unary operator")
        if isinstance(e, ast.BinOp):
            if isinstance(e.op, ast.Pow):
                return self.power(e)
            return self.arith(e.op, self.ex(e.left), self.ex(e.right))
        if isinstance(e, ast.Compare):
            if len(e.ops) != 1:
                raise Unsupported("chained comparison")
            return self.compare(e.ops[0], self.ex(e.left), self.ex(e.comparators[0]))
        if isinstance(e, ast.BoolOp):
            vs = [self.ex(v) for v in e.values]
            if any(v.ty != "bool" for v in vs):
                raise Unsupported("and / or on non-booleans")
            op = " && " if isinstance(e.op, ast.And) else " || "
            return V("bool", "(" + op.join(v.term for v in vs) + ")")
        if isinstance(e, ast.Call):
            return self.call(e)
        if isinstance(e, ast.List):
            if not e.elts:
                return V("emptylist", "#[]")
            vs = [self.ex(v) for v in e.elts]
            if all(v.ty in ("num", "int") for v in vs):
                return V("arrnum", "#[" + ", ".join(self.num(v) for v in vs) + "]")
            raise Unsupported("list of " + ", ".join(v.ty for v in vs))
        if isinstance(e, ast.ListComp):
            if len(e.generators) != 1 or e.generators[0].ifs or e.generators[0].is_async or not isinstance(e.generators[0].target, ast.Name):
                raise Unsupported("list comprehension form")
            g = e.generators[0]
            it = self.ex(g.iter)
            if it.ty not in ("arrnum", "arrint", "arrbool"):
                raise Unsupported("list comprehension over " + it.ty)
            x = g.target.id
            if x in self.ty or x in self.comp_vars or x in self.all_names:
                raise Unsupported(f"comprehension variable {x} shadows a local")
            self.comp_vars[x] = ELEM[it.ty]
            try:
                body = self.ex(e.elt)
            finally:
                del self.comp_vars[x]
            if body.ty not in ("num", "int", "bool"):
                raise Unsupported("list comprehension element " + body.ty)
            return V(ARR_OF[body.ty], f"(npMap (fun {x} => {body.term}) {it.term})")
        raise Unsupported("expression " + ast.dump(e)[:80])

    def cond(self, e):
        v = self.ex(e)
        if v.ty != "bool":
            raise Unsupported("condition of type " + v.ty)
        return v.term

    # ---------------------------------------------------------------- analysis: names, scopes, definite assignment
    @staticmethod
    def own_exprs(s):
        """the expressions evaluated by the statement itself (not by nested blocks)"""
        if isinstance(s, ast.Assign):
            return [s.value] + list(s.targets)
        if isinstance(s, ast.AugAssign):
            return [s.value, s.target]
        if isinstance(s, ast.Expr):
            return [s.value]
        if isinstance(s, ast.For):
            return [s.iter, s.target]
        if isinstance(s, ast.If):
            return [s.test]
        if isinstance(s, (ast.Break, ast.Pass)):
            return []
        raise Unsupported("statement " + type(s).__name__)

    @staticmethod
    def sub_blocks(s):
        if isinstance(s, ast.For):
            if s.orelse:
                raise Unsupported("for ... else")
            return [s.body]
        if isinstance(s, ast.If):
            return [s.body, s.orelse] if s.orelse else [s.body]
        return []

    def comp_targets(self):
        out = set()
        for n in ast.walk(self.fn):
            if isinstance(n, ast.ListComp):
                for g in n.generators:
                    for t in ast.walk(g.target):
                        if isinstance(t, ast.Name):
                            out.add(t.id)
        return out

    def stmt_stores(self, s, name):
        """does the statement itself (re)bind `name` / write into it?  -> 'bind', 'mutate' or None"""
        if isinstance(s, ast.Assign):
            for t in s.targets:
                if isinstance(t, ast.Name) and t.id == name:
                    return "bind"
                if isinstance(t, ast.Subscript) and isinstance(t.value, ast.Name) and t.value.id == name:
                    return "mutate"
                if isinstance(t, ast.Tuple):
                    raise Unsupported("tuple assignment")
        if isinstance(s, ast.AugAssign):
            t = s.target
            if isinstance(t, ast.Name) and t.id == name:
                return "mutate"
            if isinstance(t, ast.Subscript) and isinstance(t.value, ast.Name) and t.value.id == name:
                return "mutate"
        if isinstance(s, ast.For) and isinstance(s.target, ast.Name) and s.target.id == name:
            return "bind"
        if isinstance(s, ast.Expr) and isinstance(s.value, ast.Call):
            c = s.value
            if isinstance(c.func, ast.Attribute) and c.func.attr == "append" and isinstance(c.func.value, ast.Name) and c.func.value.id == name:
                return "mutate"
            if np_attr(c.func, {"round"}) and len(c.args) == 3 and isinstance(c.args[2], ast.Name) and c.args[2].id == name:
                return "mutate"
        return None

    def stmt_loads(self, s, name):
        """does the statement itself read `name` (a write into `name[...]` needs the old array: a read)?"""
        for e in self.own_exprs(s):
            for n in ast.walk(e):
                if isinstance(n, ast.Name) and n.id == name:
                    if isinstance(n.ctx, ast.Load):
                        return True
        if isinstance(s, ast.AugAssign) and isinstance(s.target, ast.Name) and s.target.id == name:
            return True
        return False

    @staticmethod
    def contains_jump(s):
        return any(isinstance(n, (ast.Break, ast.Continue, ast.Return)) for n in ast.walk(s))

    def da(self, stmts, name, assigned):
        """definite assignment of `name` through a block: (every read is preceded by an assignment, assigned after)"""
        ok = True
        for s in stmts:
            if self.stmt_loads(s, name) and not assigned:
                ok = False
            if isinstance(s, ast.For):
                inner = assigned or self.stmt_stores(s, name) == "bind"
                ok1, _ = self.da(s.body, name, inner)
                ok = ok and ok1
                # `for _ in range(c)` with a literal c >= 1 runs its body at least once: the statements before the first
                # jump are executed
                it = s.iter
                if (isinstance(it, ast.Call) and isinstance(it.func, ast.Name) and it.func.id == "range" and len(it.args) == 1
                        and isinstance(it.args[0], ast.Constant) and isinstance(it.args[0].value, int) and it.args[0].value >= 1):
                    head = []
                    for b in s.body:
                        if self.contains_jump(b):
                            break
                        head.append(b)
                    _, assigned = self.da(head, name, assigned)
            elif isinstance(s, ast.If):
                ok1, a1 = self.da(s.body, name, assigned)
                ok2, a2 = self.da(s.orelse, name, assigned)
                ok = ok and ok1 and ok2
                assigned = a1 and a2
            elif self.stmt_stores(s, name) == "bind":
                assigned = True
        return ok, assigned

    def analyse(self):
        """types of all locals (dry run in source order), home blocks, declaration points, may-be-unbound names, aliases"""
        fn = self.fn
        comp = self.comp_targets()
        # occurrences: name -> list of block chains (a chain = the list of enclosing statement lists)
        occ, nstores = {}, {}

        def walk(stmts, chain):
            for s in stmts:
                for e in self.own_exprs(s):
                    for n in ast.walk(e):
                        if isinstance(n, ast.Name) and n.id not in comp and n.id not in ("np", "float64", "ws2d", "range", "len"):
                            occ.setdefault(n.id, []).append((chain, s))
                for nm in list(occ):
                    if self.stmt_stores(s, nm):
                        nstores[nm] = nstores.get(nm, 0) + 1
                for b in self.sub_blocks(s):
                    walk(b, chain + [b])
        walk(fn.body, [fn.body])
        self.all_names = set(occ)
        for nm in comp:
            if nm in occ:
                raise Unsupported(f"comprehension variable {nm} is also a local")
        self.home, self.decl_stmt, self.hoist, self.maybe_unbound, self.loopvar = {}, {}, {}, [], {}
        self.nstores = nstores
        for nm, refs in occ.items():
            if nm in self.params:
                continue
            # a loop variable that lives only in its loop
            fors = [s for _, s in refs if isinstance(s, ast.For) and isinstance(s.target, ast.Name) and s.target.id == nm]
            if len(fors) == 1 and nstores.get(nm, 0) == 1:
                f = fors[0]
                if all(s is f or (len(ch) > 0 and any(b is f.body for b in ch)) for ch, s in refs):
                    if not any(isinstance(n, ast.Name) and n.id == nm for n in ast.walk(f.iter)):
                        self.loopvar[nm] = f
                        continue
            chains = [ch for ch, _ in refs]
            k = min(len(c) for c in chains)
            common = 0
            while common < k and all(c[common] is chains[0][common] for c in chains):
                common += 1
            blk = chains[0][common - 1]
            ok, _ = self.da(blk, nm, False)
            if not ok:
                ok_fn, _ = self.da(fn.body, nm, False)
                if ok_fn:
                    raise Unsupported(f"scope of {nm}")     # cannot happen: all occurrences are inside `blk`
                self.maybe_unbound.append(nm)
                self.home[nm] = fn.body
                self.hoist.setdefault(id(fn.body), []).append(nm)
                continue
            self.home[nm] = blk
            first = next(s for s in blk if any(s is r or self.inside(r, s) for _, r in refs))
            if isinstance(first, ast.Assign) and len(first.targets) == 1 and isinstance(first.targets[0], ast.Name) and first.targets[0].id == nm:
                self.decl_stmt[nm] = first
            else:
                self.hoist.setdefault(id(blk), []).append(nm)
        self.check_aliases()

    @staticmethod
    def inside(inner, outer):
        return any(n is inner for n in ast.walk(outer))

    # -- may-alias analysis for in-place writes
    def check_aliases(self):
        fn = self.fn
        order = []           # statements in source order with their enclosing outermost loop

        def walk(stmts, top_loop):
            for s in stmts:
                order.append((s, top_loop))
                for b in self.sub_blocks(s):
                    walk(b, top_loop or (s if isinstance(s, ast.For) else None))
        walk(fn.body, None)

        def join(p, q):
            """union of two may-alias relations given as sets of unordered pairs"""
            return p | q

        def kill(rel, a):
            return {pr for pr in rel if a not in pr}

        def cls(rel, a):
            out, todo = {a}, [a]
            while todo:
                x = todo.pop()
                for pr in rel:
                    if x in pr:
                        for y in pr:
                            if y not in out:
                                out.add(y)
                                todo.append(y)
            return out

        def loaded_later(name, s, top_loop):
            idx = next(i for i, (t, _) in enumerate(order) if t is s)
            for i, (t, tl) in enumerate(order):
                if i > idx or (top_loop is not None and (t is top_loop or tl is top_loop)):
                    if t is not s and self.stmt_loads(t, name):
                        return True
            return False

        def transfer(stmts, rel, top_loop):
            for s in stmts:
                if isinstance(s, ast.Assign) and len(s.targets) == 1 and isinstance(s.targets[0], ast.Name):
                    a = s.targets[0].id
                    rel = kill(rel, a)
                    v = s.value
                    if isinstance(v, ast.Name):
                        rel = rel | {frozenset((a, v.id))} if a != v.id else rel
                    elif isinstance(v, ast.Subscript) and isinstance(v.value, ast.Name) and isinstance(v.slice, ast.Slice):
                        rel = rel | {frozenset((a, v.value.id))}      # a view
                elif isinstance(s, ast.Expr) and isinstance(s.value, ast.Call) and isinstance(s.value.func, ast.Attribute) \
                        and s.value.func.attr == "append" and isinstance(s.value.func.value, ast.Name):
                    arg = s.value.args[0]
                    if isinstance(arg, ast.Name):
                        rel = rel | {frozenset((s.value.func.value.id, arg.id))}
                else:
                    for nm in self.all_names:
                        if self.stmt_stores(s, nm) == "mutate" and not (isinstance(s, ast.Expr) and isinstance(s.value.func, ast.Attribute) and s.value.func.attr == "append"):
                            for other in cls(rel, nm) - {nm}:
                                if loaded_later(other, s, top_loop):
                                    raise Unsupported(f"in-place write to {nm} may be visible through its alias {other}")
                if isinstance(s, ast.For):
                    tl = top_loop or s
                    cur = rel
                    for _ in range(len(self.all_names) + 2):      # fixpoint of the loop
                        nxt = join(cur, transfer(s.body, cur, tl))
                        if nxt == cur:
                            break
                        cur = nxt
                    rel = cur
                elif isinstance(s, ast.If):
                    rel = join(transfer(s.body, rel, top_loop), transfer(s.orelse, rel, top_loop))
            return rel
        transfer(fn.body, set(), None)

    # ---------------------------------------------------------------- statements
    def declare(self, name, ty, term, ind, s):
        """an assignment `name = term`"""
        if ty == "emptylist":
            ty = self.cfg.get("locals", {}).get(name)
            if ty is None:
                raise Unsupported(f"type of the empty list {name} (give it in the kernel's `locals`)")
        if name in self.ty and self.ty[name] != ty:
            raise Unsupported(f"{name} changes type {self.ty[name]} -> {ty}")
        if name in self.params or name in self.declared:
            self.emit(ind, f"{name} := {term}")
        elif self.decl_stmt.get(name) is s:
            self.declared.add(name)
            self.ty[name] = ty
            mut = "let mut" if self.nstores.get(name, 0) > 1 else "let"
            self.emit(ind, f"{mut} {name} : {self.LEAN_TY[ty]} := {term}")
        else:
            raise Unsupported(f"assignment to {name} outside its scope")
        if name in self.maybe_unbound:
            self.emit(ind, f"{name}_set := true")
            self.defset.add(name)

    def guarded(self, ind, fn):
        """translate the expressions of one statement with `fn`, then emit the unbound-guards in front of its output"""
        outer, self.loads = self.loads, set()
        mark = len(self.lines)
        res = fn()
        loads, self.loads = self.loads, outer
        guards = []
        for nm in self.maybe_unbound:
            if nm in loads and nm not in self.defset:
                guards.append("  " * ind + f"if (!{nm}_set) then")
                guards.append("  " * (ind + 1) + "unbound := true")
        self.lines[mark:mark] = guards
        return res

    def pre_type(self, nm):
        """type of a hoisted name: dry translation of its first binding"""
        hint = self.cfg.get("locals", {}).get(nm)
        if hint:
            return hint
        raise Unsupported(f"type of {nm}")

    def block(self, stmts, ind):
        for nm in self.hoist.get(id(stmts), []):
            ty = self.types[nm]
            self.ty[nm] = ty
            self.declared.add(nm)
            self.emit(ind, f"let mut {nm} : {self.LEAN_TY[ty]} := {self.DEFAULT[ty]}")
            if nm in self.maybe_unbound:
                self.emit(ind, f"let mut {nm}_set : Bool := false")
        for s in stmts:
            self.guarded(ind, lambda s=s: self.st(s, ind))

    def st(self, s, ind):
        if isinstance(s, ast.Expr) and isinstance(s.value, ast.Constant):
            return                                       # docstring
        if isinstance(s, ast.Assign):
            if len(s.targets) != 1:
                raise Unsupported("chained assignment")
            t = s.targets[0]
            if isinstance(t, ast.Name):
                v = self.ex(s.value)
                return self.declare(t.id, v.ty, v.term, ind, s)
            if isinstance(t, ast.Subscript) and isinstance(t.value, ast.Name):
                arr = t.value.id
                a = self.ex(t.value)
                if a.ty != "arrnum":
                    raise Unsupported("write into " + a.ty)
                v = self.ex(s.value)
                if isinstance(t.slice, ast.Slice):
                    if t.slice.lower is None and t.slice.upper is None and t.slice.step is None:
                        if v.ty == "arrnum":
                            return self.emit(ind, f"{arr} := npCopyTo {arr} {v.term}")
                        return self.emit(ind, f"{arr} := npFill {arr} {self.num(v)}")
                    lo, hi = self.slice_bounds(t.slice, arr)
                    if v.ty != "arrnum":
                        raise Unsupported("slice assignment of a scalar")
                    return self.emit(ind, f"{arr} := npSetSlice {arr} {lo} {hi} {v.term}")
                i = self.ex(t.slice)
                if i.ty == "int":
                    return self.emit(ind, f"{arr} := wr {arr} {i.term} {self.num(v)}")
                if i.ty == "arrbool":
                    if v.ty in ARR:
                        raise Unsupported("mask assignment of an array")
                    return self.emit(ind, f"{arr} := npMaskSet {arr} {i.term} {self.num(v)}")
                raise Unsupported("index type " + i.ty)
            raise Unsupported("assignment target")
        if isinstance(s, ast.Expr) and isinstance(s.value, ast.Call):
            c = s.value
            if isinstance(c.func, ast.Attribute) and c.func.attr == "append" and isinstance(c.func.value, ast.Name) and len(c.args) == 1:
                lst = self.ex(c.func.value)
                v = self.ex(c.args[0])
                if (lst.ty, v.ty) != ("arrarr", "arrnum"):
                    raise Unsupported(f"append {v.ty} to {lst.ty}")
                return self.emit(ind, f"{lst.term} := {lst.term}.push {v.term}")
            if np_attr(c.func, {"round"}) and len(c.args) == 3 and isinstance(c.args[1], ast.Constant) and c.args[1].value == 0 \
                    and isinstance(c.args[2], ast.Name) and not c.keywords:
                z = self.ex(c.args[0])
                o = self.ex(c.args[2])
                if (z.ty, o.ty) != ("arrnum", "arrnum"):
                    raise Unsupported("np.round argument types")
                return self.emit(ind, f"{o.term} := npCopyTo {o.term} ({z.term}.map rnd)")
            raise Unsupported("expression statement " + ast.dump(c)[:80])
        if isinstance(s, ast.For):
            if not isinstance(s.target, ast.Name):
                raise Unsupported("for target")
            var = s.target.id
            it = s.iter
            if isinstance(it, ast.Call) and isinstance(it.func, ast.Name) and it.func.id == "range" and not it.keywords:
                a = [self.ex(x) for x in it.args]
                if any(v.ty != "int" for v in a) or len(a) not in (1, 2):
                    raise Unsupported("range form")
                rng = f"pyRange (0 : Int) {a[0].term}" if len(a) == 1 else f"pyRange {a[0].term} {a[1].term}"
                el = "int"
            else:
                v = self.ex(it)
                if v.ty not in ("arrnum", "arrint"):
                    raise Unsupported("for iterable " + v.ty)
                if not isinstance(it, ast.Name):
                    raise Unsupported("for over an expression")
                if any(self.stmt_stores(b, it.id) for b in ast.walk(s) if isinstance(b, ast.stmt) and b is not s):
                    raise Unsupported(f"{it.id} is modified inside the loop over it")
                rng = f"{v.term}.toList"
                el = ELEM[v.ty]
            if var == "_":
                self.emit(ind, f"for _it in {rng} do")
            elif self.loopvar.get(var) is s:
                self.ty[var] = el
                self.emit(ind, f"for {var} in {rng} do")
            else:
                if self.types.get(var) != el:
                    raise Unsupported(f"loop variable {var} changes type")
                self.emit(ind, f"for {var}_it in {rng} do")
                self.emit(ind + 1, f"{var} := {var}_it")
                if var in self.maybe_unbound:
                    raise Unsupported("loop variable may be unbound")
            saved = set(self.defset)
            self.block(s.body, ind + 1)
            self.defset = saved
            return
        if isinstance(s, ast.If):
            self.emit(ind, f"if {self.cond(s.test)} then")
            saved = set(self.defset)
            self.block(s.body, ind + 1)
            d1, self.defset = self.defset, set(saved)
            if s.orelse:
                self.emit(ind, "else")
                self.block(s.orelse, ind + 1)
            self.defset = d1 & self.defset
            return
        if isinstance(s, ast.Break):
            return self.emit(ind, "break")
        raise Unsupported(type(s).__name__ + ": " + ast.dump(s)[:100])

    def infer_types(self):
        """dry run: translate everything once, discarding the output, to learn the type of every local"""
        saved = (dict(self.ty), set(self.declared))
        types = {}
        outer = self

        class Dry(W):
            def declare(self, name, ty, term, ind, s):
                if ty == "emptylist":
                    ty = self.cfg.get("locals", {}).get(name)
                    if ty is None:
                        raise Unsupported(f"type of the empty list {name} (give it in the kernel's `locals`)")
                if name in self.ty and self.ty[name] != ty:
                    raise Unsupported(f"{name} changes type {self.ty[name]} -> {ty}")
                self.ty[name] = ty
                types.setdefault(name, ty)

            def block(self, stmts, ind):
                for s in stmts:
                    self.st(s, ind)
        d = Dry(self.cfg, self.fn)
        d.all_names = self.all_names
        d.loopvar = {}
        d.maybe_unbound = []
        d.defset = set()
        d.types = types

        # loop variables get their type when the loop is met: pre-scan
        class T(ast.NodeVisitor):
            def visit_For(s2, node):
                it = node.iter
                if isinstance(node.target, ast.Name):
                    if isinstance(it, ast.Call) and isinstance(it.func, ast.Name) and it.func.id == "range":
                        types.setdefault(node.target.id, "int")
                s2.generic_visit(node)
        T().visit(self.fn)
        # array-iteration loop variables: element type of the iterated array, resolved lazily in source order
        orig_st = d.st

        def st(s, ind):
            if isinstance(s, ast.For) and isinstance(s.target, ast.Name) and s.target.id != "_":
                it = s.iter
                if not (isinstance(it, ast.Call) and isinstance(it.func, ast.Name) and it.func.id == "range"):
                    v = d.ex(it)
                    if v.ty in ("arrnum", "arrint"):
                        types.setdefault(s.target.id, ELEM[v.ty])
                d.ty[s.target.id] = types.get(s.target.id, "int")
            return orig_st(s, ind)
        d.st = st
        d.block(self.fn.body, 1)
        self.ty, self.declared = saved
        return types

    def run(self):
        self.analyse()
        self.types = self.infer_types()
        self.defset = set()
        for nm in self.params:
            if self.nstores.get(nm, 0) > 0:
                self.emit(1, f"let mut {nm} : {self.LEAN_TY[self.ty[nm]]} := {nm}")
        if self.maybe_unbound:
            self.emit(1, "let mut unbound : Bool := false")
        self.block(self.fn.body, 1)
        ret = self.cfg["ret"]
        res = ret if isinstance(ret, str) else "(" + ", ".join(ret) + ")"
        if self.maybe_unbound:
            self.emit(1, f"return (if unbound then none else some {res})")
        else:
            self.emit(1, f"return {res}")
        return "\n".join(self.lines)


class SafeW(base.SafeMixin):
    """instrumentation of the constructs `W` translates (see the module docstring); mixed in front of `W`"""

    # `W.guarded(ind, fn)` (unbound guards of a statement) and `SafeMixin.guarded(g, c)` (a check under its guards) share a name
    def guarded(self, a, b):
        if callable(b):
            return W.guarded(self, a, b)
        return base.SafeMixin.guarded(self, a, b)

    def tv(self, e):
        """type and term of a sub-expression, through the translator (the numbering of bound variables is left alone)"""
        n = self.nvar
        try:
            return self.ex(e)
        finally:
            self.nvar = n

    def size_of(self, e):
        return f"{self.tv(e).term}.size"

    def ck(self, e, out, g=()):
        if e is None or isinstance(e, (ast.Constant, ast.Name)):
            return
        if isinstance(e, ast.Attribute):
            if np_attr(e, {"pi"}):
                return
            return self.ck(e.value, out, g)
        if isinstance(e, ast.Subscript):
            self.seen.add(id(e))
            if isinstance(e.value, ast.Attribute) and e.value.attr == "shape":       # x.shape[0]: a tuple
                if not (isinstance(e.slice, ast.Constant) and e.slice.value == 0):
                    raise Unsupported("safe: shape index")
                return self.ck(e.value.value, out, g)
            self.ck(e.value, out, g)
            v = self.tv(e.value)
            if v.ty not in ARR:
                raise Unsupported("safe: subscript of " + v.ty)
            sl = e.slice
            if isinstance(sl, ast.Slice):
                if sl.step is not None:
                    raise Unsupported("safe: slice step")
                self.ck(sl.lower, out, g)
                self.ck(sl.upper, out, g)
                if sl.lower is None and sl.upper is None:
                    return
                for b in (sl.lower, sl.upper):
                    if b is not None and self.tv(b).ty != "int":
                        raise Unsupported("safe: slice bound")
                if sl.upper is None:
                    out.append(self.guarded(g, f"badSliceFrom {v.term}.size {self.tv(sl.lower).term}"))
                else:
                    lo = "(0 : Int)" if sl.lower is None else self.tv(sl.lower).term
                    out.append(self.guarded(g, f"badSlice {v.term}.size {lo} {self.tv(sl.upper).term}"))
                return
            if isinstance(sl, ast.Tuple):
                if v.ty != "arrarr" or len(sl.elts) != 2:
                    raise Unsupported("safe: tuple index")
                for x in sl.elts:
                    self.ck(x, out, g)
                i, j = (self.tv(x) for x in sl.elts)
                if i.ty != "int" or j.ty != "int":
                    raise Unsupported("safe: tuple index type")
                out.append(self.guarded(g, f"oob {v.term}.size {i.term}"))
                out.append(self.guarded(g, f"oob (rdA {v.term} {i.term}).size {j.term}"))
                return
            self.ck(sl, out, g)
            i = self.tv(sl)
            if i.ty == "int":
                out.append(self.guarded(g, f"oob {v.term}.size {i.term}"))
            elif i.ty == "arrbool" and v.ty == "arrnum":
                out.append(self.guarded(g, f"lenNe {v.term}.size {i.term}.size"))
            else:
                raise Unsupported("safe: index of type " + i.ty)
            return
        if isinstance(e, ast.BinOp):
            self.ck(e.left, out, g)
            self.ck(e.right, out, g)
            if isinstance(e.op, ast.Pow):
                return                    # x ** 2, x ** 0.5, 10 ** x (the only forms translated): no exception
            a, b = self.tv(e.left), self.tv(e.right)
            if a.ty in ARR and b.ty in ARR:
                out.append(self.guarded(g, f"lenNe {a.term}.size {b.term}.size"))
            if isinstance(e.op, (ast.Div, ast.FloorDiv, ast.Mod)):
                self.seen.add(id(e))
                if a.ty in ("int", "num") and b.ty in ("int", "num"):
                    if isinstance(e.right, ast.Constant) and isinstance(e.right.value, (int, float)) and not isinstance(e.right.value, bool):
                        if e.right.value == 0:
                            out.append(self.guarded(g, "true"))
                    elif b.ty == "int":
                        out.append(self.guarded(g, f"decide ({b.term} = (0 : Int))"))
                    else:
                        out.append(self.guarded(g, f"eqv {b.term} (nat 0)"))
                elif a.ty in ARR or b.ty in ARR:
                    self.array_divs.append(ast.unparse(e))          # NumPy array division: does not raise
                else:
                    raise Unsupported("safe: division of " + a.ty + " by " + b.ty)
            return
        if isinstance(e, ast.UnaryOp):
            return self.ck(e.operand, out, g)
        if isinstance(e, ast.Compare):
            if len(e.ops) != 1:
                raise Unsupported("safe: chained comparison")
            self.ck(e.left, out, g)
            self.ck(e.comparators[0], out, g)
            a, b = self.tv(e.left), self.tv(e.comparators[0])
            if a.ty in ARR and b.ty in ARR:
                out.append(self.guarded(g, f"lenNe {a.term}.size {b.term}.size"))
            return
        if isinstance(e, ast.BoolOp):
            gs = list(g)
            for v in e.values:
                self.ck(v, out, tuple(gs))
                b = self.tv(v).term
                gs.append(b if isinstance(e.op, ast.And) else f"(!{b})")
            return
        if isinstance(e, ast.List):
            for x in e.elts:
                self.ck(x, out, g)
            return
        if isinstance(e, ast.ListComp):
            # the element expression runs once per cell: a check inside it would not be a scalar condition
            for n in ast.walk(e.elt):
                if isinstance(n, (ast.Subscript, ast.ListComp)) or (isinstance(n, ast.BinOp) and isinstance(n.op, (ast.Div, ast.FloorDiv, ast.Mod))) \
                        or (isinstance(n, ast.Call) and isinstance(n.func, ast.Name) and n.func.id in self.callee_names()):
                    raise Unsupported("safe: list comprehension with a subscript, a division or a kernel call")
            if len(e.generators) != 1:
                raise Unsupported("safe: list comprehension form")
            return self.ck(e.generators[0].iter, out, g)
        if isinstance(e, ast.Call):
            f, a = e.func, e.args
            if isinstance(f, ast.Attribute) and not (isinstance(f.value, ast.Name) and f.value.id == "np"):
                self.ck(f.value, out, g)                       # x.sum(), l.append(x)
            for x in a:
                self.ck(x, out, g)
            for kw in e.keywords:
                self.ck(kw.value, out, g)
            if isinstance(f, ast.Name) and f.id in self.callee_names():
                self.seen.add(id(e))
                if f.id != "ws2d":
                    raise Unsupported("safe: callee " + f.id)
                self._want = "2"
                try:
                    out.append(self.guarded(g, self.tv(e).term))
                finally:
                    self._want = "1"
            elif np_attr(f, {"max", "min"}) and len(a) == 1:
                out.append(self.guarded(g, f"emptyArr {self.size_of(a[0])}"))
            elif np_attr(f, {"zeros", "ones"}) and len(a) == 1:
                if not (isinstance(a[0], ast.Attribute) and a[0].attr == "shape"):
                    k = self.tv(a[0])
                    if k.ty != "int":
                        raise Unsupported("safe: array size")
                    out.append(self.guarded(g, f"decide ({k.term} < (0 : Int))"))
            elif np_attr(f, {"where"}) and len(a) == 3:
                c = self.tv(a[0])
                for x in a[1:]:
                    v = self.tv(x)
                    if v.ty in ARR:
                        out.append(self.guarded(g, f"lenNe {c.term}.size {v.term}.size"))
            elif np_attr(f, {"round"}) and len(a) == 3:
                out.append(self.guarded(g, f"lenNe {self.size_of(a[2])} {self.size_of(a[0])}"))
            return
        raise Unsupported("safe: " + type(e).__name__)

    def stmt_checks(self, s):
        out = []
        self.seen = set()
        if isinstance(s, ast.Assign):
            if len(s.targets) != 1:
                raise Unsupported("safe: chained assignment")
            t = s.targets[0]
            self.ck(s.value, out)
            self.ck(t, out)
            if isinstance(t, ast.Subscript) and not (isinstance(t.value, ast.Attribute)):
                v = self.tv(s.value)
                if isinstance(t.slice, ast.Slice):
                    if v.ty in ARR:
                        if t.slice.lower is None and t.slice.upper is None:
                            out.append(f"lenNe {self.size_of(t.value)} {v.term}.size")          # a[:] = b
                        elif t.slice.upper is not None:
                            lo = "(0 : Int)" if t.slice.lower is None else self.tv(t.slice.lower).term
                            out.append(f"sliceLenNe {lo} {self.tv(t.slice.upper).term} {v.term}.size")      # a[lo:hi] = b
                        else:
                            raise Unsupported("safe: store into a[lo:]")
                elif v.ty in ARR:
                    raise Unsupported("safe: array stored through an index")
        elif isinstance(s, ast.For):
            self.ck(s.iter, out)
        elif isinstance(s, ast.If):
            self.ck(s.test, out)
        elif isinstance(s, ast.Expr):
            self.ck(s.value, out)
        elif not isinstance(s, (ast.Break, ast.Pass)):
            raise Unsupported("safe: statement " + type(s).__name__)
        # never skip silently: every subscript, division and kernel call the statement evaluates has been visited
        for x in self.own_exprs(s):
            for n in ast.walk(x):
                if (isinstance(n, ast.Subscript) or (isinstance(n, ast.BinOp) and isinstance(n.op, (ast.Div, ast.FloorDiv, ast.Mod)))
                        or (isinstance(n, ast.Call) and isinstance(n.func, ast.Name) and n.func.id in self.callee_names())) and id(n) not in self.seen:
                    raise Unsupported("safe: not instrumented: " + ast.unparse(n))
        return list(dict.fromkeys(out))

    def st(self, s, ind):
        if isinstance(s, ast.Expr) and isinstance(s.value, ast.Constant):
            return super().st(s, ind)
        cs = self.stmt_checks(s)
        if cs:
            self.emit(ind, "bad := (bad || " + " || ".join(f"({c})" for c in cs) + ")")
        return super().st(s, ind)


def module_of(cfg):
    return "Num" + cfg["name"].capitalize()


def main(kernels=None, tool="py2lean_wcv"):
    gen = base.OUT.parent
    rc = 0
    for cfg in (kernels or KERNELS):
        module = module_of(cfg)
        try:
            src = (base.REPO / cfg["file"]).read_text()
            mod = ast.parse(src)
            fn = [n for n in ast.walk(mod) if isinstance(n, ast.FunctionDef) and n.name == cfg["func"]][-1]
            k = W(cfg, fn)
            base.K.check_signature(k)
            body = k.run()
            sig = " ".join(f"({n} : {W.LEAN_TY[t]})" for n, t in cfg["params"] if t != "skip")
            ret = cfg["ret"]
            rty = "Array α" if isinstance(ret, str) else "(" + " × ".join("Array α" for _ in ret) + ")"
            if k.maybe_unbound:
                rty = f"Option {rty}"
            sha = hashlib.sha256(ast.get_source_segment(src, fn).encode()).hexdigest()[:16]
            imports = "".join(f"import {m}\n" for m in ["Hdc.Gen.NumBase"] + cfg.get("imports", []))
            text = (f"{imports}/-\nGENERATED by harness/{tool}.py from {cfg['file']}::{cfg['func']} (sha256 of the function source {sha}).  Do not edit.\n"
                    f"Locals that may be unbound when read (tracked by `<name>_set`, reported through `none`): {', '.join(k.maybe_unbound) or 'none'}.\n-/\n"
                    f"namespace Hdc.Gen.NumKernels\nopen Hdc Hdc.PyNpW\nvariable {{α : Type}} [Add α] [Sub α] [Mul α] [Div α] [Neg α] [NatCast α] [LT α] [DecidableLT α]\n\n"
                    f"/-- `{cfg['file']}::{cfg['func']}` -/\ndef {cfg['name']} {cfg['uses']} {cfg['extra']} {sig} : {rty} := Id.run do\n{body}\n\nend Hdc.Gen.NumKernels\n")
            base.write_if_changed(gen / f"{module}.lean", text)
            if cfg.get("safe"):
                module = base.safe_module_of(cfg)
                mix = cfg.get("safe_mixin") or SafeW
                ks = type("Safe" + W.__name__, (mix, W), {})(cfg, fn)
                base.K.check_signature(ks)
                body = ks.run()
                imports = "".join(f"import {m}\n" for m in ["Hdc.Gen.NumBase", "Hdc.PySafe"] + cfg.get("imports", []) + cfg.get("safe_imports", []))
                note = ("  Array-valued divisions (not instrumented): " + "; ".join(dict.fromkeys(ks.array_divs)) + ".") if ks.array_divs else ""
                text = (f"{imports}/-\nGENERATED by harness/{tool}.py (instrumentation mode) from {cfg['file']}::{cfg['func']} (sha256 of the function source {sha}).  Do not edit.\n"
                        f"The statements of `Hdc.Gen.NumKernels.{cfg['name']}` plus the flag `bad`: set when a subscript is outside `[-len, len)`, a slice is not\n"
                        f"`0 <= lo <= hi <= len`, two arrays combined by a NumPy operation differ in length, `np.max` / `np.min` gets an empty array, a scalar\n"
                        f"divisor is zero, or the instrumented `ws2d` sets its flag.{note}\n"
                        f"Locals that may be unbound when read (reported through `none` in the first component, NOT through the flag): {', '.join(ks.maybe_unbound) or 'none'}.\n-/\n"
                        f"namespace Hdc.Gen.Safe\nopen Hdc Hdc.PyNpW Hdc.Gen.NumKernels\nvariable {{α : Type}} [Add α] [Sub α] [Mul α] [Div α] [Neg α] [NatCast α] [LT α] [DecidableLT α]\n\n"
                        f"/-- `{cfg['file']}::{cfg['func']}`, instrumented -/\ndef {cfg['name']} {cfg['uses']} {cfg['extra']} {sig} : ({rty}) × Bool := Id.run do\n{body}\n\nend Hdc.Gen.Safe\n")
                base.write_if_changed(gen / f"{module}.lean", text)
        except (Unsupported, StopIteration, KeyError, IndexError, AttributeError, OSError, SyntaxError) as e:
            print(f"FAILED Hdc.Gen.{module}: unsupported construct in {cfg['func']}: {e!r}")
            rc = 1
    return rc


if __name__ == "__main__":
    sys.exit(main())
