#!/venv/bin/python
"""Discrimination test of the type-level model (harness/summarise_types.py + lean/Hdc/Props/Types.lean).

Seeded defects that exploit the TYPED semantics of the compiled kernels are applied to scratch copies of the source tree
(HDC_REPO, default /repo), the tables are regenerated and `Hdc/Props/Types.lean` is re-checked against each regenerated
`Hdc/Gen/Types.lean` (in an overlay of the built library, the project itself is not touched).  Every seeded defect must
make at least one theorem fail; every harmless edit (rename locals, reorder independent statements, comments / blank
lines) must leave all theorems true.

usage:  HDC_REPO=<tree> /venv/bin/python harness/types_seedtest.py [--keep DIR] [--only name,name] [--jobs N]
exit 0 iff all expectations hold.  Needs `lake build Hdc.Props.Types` to have been run (uses the built .olean files).
"""
import argparse
import os
import re
import shutil
import subprocess
import sys
import tempfile
import time
from concurrent.futures import ThreadPoolExecutor
from pathlib import Path

HERE = Path(__file__).resolve().parent
LEAN = HERE.parent / "lean"
REPO = Path(os.environ.get("HDC_REPO", "/repo")).resolve()
OPS = "hdc/algo/ops"


def sub(path, old, new, count=1):
    s = path.read_text()
    if old not in s:
        raise SystemExit(f"seedtest: pattern not found in {path}: {old[:60]!r}")
    path.write_text(s.replace(old, new, count))


def resub(path, pat, new):
    path.write_text(re.sub(pat, new, path.read_text()))


def m_tinterpolate(r):
    sub(r / OPS / "tinterpolate.py", "[(int16[:], float64[:], int32[:], uint8[:], int16[:])],",
        "[\n            (int16[:], uint8[:], int32[:], uint8[:], int16[:]),\n"
        "            (int16[:], float64[:], int32[:], uint8[:], int16[:]),\n        ],")


def m_mean_grp(r):
    sub(r / OPS / "stats.py",
        "        if n == 0:\n            avg = nodata\n        else:\n            avg = avg / n\n\n        yy[grp_ix] = avg\n",
        "        if n == 0:\n            yy[grp_ix] = nodata\n        else:\n            yy[grp_ix] = avg / n\n")


def m_autocorr(r):
    sub(r / OPS / "autocorr.py", "        x = float64(xx[i])\n        y = float64(yy[i])\n", "        x = xx[i]\n        y = yy[i]\n")


def m_gammastd_grp(r):
    a = '            "(int16[:], int16[:], float64, float64, int16[:, :], int16[:])",\n'
    b = '            "(float32[:], int16[:], float64, float64, int16[:, :], int16[:])",\n'
    sub(r / OPS / "stats.py", a + b, b + a)


SENS_OLD = ("    for i in range(n - 1):\n        for j in range(i + 1, n):\n            d[ix] = (x[j] - x[i]) / (j - i)\n            ix += 1\n")


def m_sens_slope(r):
    sub(r / OPS / "stats.py", SENS_OLD,
        "    for i in range(n - 1):\n        m = n - i - 1\n        diffs = x[i + 1 :] - x[i]\n"
        "        d[ix : ix + m] = diffs / np.arange(1, m + 1)\n        ix += m\n")


def m_sens_slope_fused(r):
    sub(r / OPS / "stats.py", SENS_OLD,
        "    for i in range(n - 1):\n        m = n - i - 1\n"
        "        d[ix : ix + m] = (x[i + 1 :] - x[i]) / np.arange(1, m + 1)\n        ix += m\n")


def m_lroo(r):
    sub(r / OPS / "lroo.py", "    dots = np.where(data.flatten() == 1)[0]\n", "    dots = np.where(data.flatten() == 1)[0].astype(np.uint8)\n")


def m_fastmath_pgu(r):
    sub(r / OPS / "ws2dpgu.py", '        "(n),(),(),() -> (n)",\n        nopython=True,\n', '        "(n),(),(),() -> (n)",\n        nopython=True,\n        fastmath=True,\n')


def m_fastmath_wcv(r):
    sub(r / OPS / "ws2dwcv.py", '        "(n),(),(m),() -> (n),()",\n        nopython=True,\n',
        '        "(n),(),(m),() -> (n),()",\n        nopython=True,\n        fastmath={"arcp", "contract", "ninf", "nsz", "reassoc"},\n')


def m_layout_gammastd_grp(r):
    sub(r / OPS / "stats.py", '"(int16[:], int16[:], float64, float64, int16[:, :], int16[:])"', '"(int16[::1], int16[:], float64, float64, int16[:, :], int16[:])"')


def m_layout_wcv_llas(r):
    sub(r / OPS / "ws2dwcv.py", "[(float64[:], float64, float64[:], boolean, int16[:], float64[:])]", "[(float64[:], float64, float64[::1], boolean, int16[:], float64[:])]")


def m_layout_optvplc_y(r):
    sub(r / OPS / "ws2doptvplc.py", "[(int16[:], float64, float64, float64, int16[:], float64[:])]", "[(int16[::1], float64, float64, float64, int16[:], float64[:])]")


def h_rename(r):
    p = r / OPS / "stats.py"
    s = p.read_text()
    a = s.index("def mean_grp(")
    b = s.index("@lazycompile", a)
    p.write_text(s[:a] + s[a:b].replace("avg", "acc").replace("pixv", "val") + s[b:])
    resub(r / OPS / "ws2d.py", r"\bi1\b", "im1")
    resub(r / OPS / "ws2d.py", r"\bi2\b", "im2")
    sub(r / OPS / "ws2dgu.py", "z = ws2d(y, lmda, w)\n            np.round(z, 0, out)",
        "smoothed = ws2d(y, lmda, w)\n            np.round(smoothed, 0, out)")


def h_reorder(r):
    sub(r / OPS / "ws2d.py", "    d = z.copy()\n    c = z.copy()\n    e = z.copy()\n", "    e = z.copy()\n    c = z.copy()\n    d = z.copy()\n")
    sub(r / OPS / "stats.py", "    n = xx.size\n    yy[:] = 0\n", "    yy[:] = 0\n    n = xx.size\n")
    sub(r / OPS / "autocorr.py", "            Sx += x\n            Sxx += x * x\n            nx += 1\n\n        if y_ok:",
        "            Sxx += x * x\n            nx += 1\n            Sx += x\n\n        if y_ok:")


def h_comments(r):
    for f in ["stats.py", "ws2d.py", "autocorr.py", "tinterpolate.py", "lroo.py", "zonal.py", "ws2dwcvp.py"]:
        p = r / OPS / f
        out = []
        for line in p.read_text().split("\n"):
            out.append(line)
            st = line.strip()
            if st.startswith("for ") and st.endswith(":"):
                out += [" " * (len(line) - len(line.lstrip()) + 4) + "# harmless comment", ""]
        p.write_text("\n".join(out))


# name -> (edit, must fail?, description)
CASES = {
    "tinterpolate_uint8_loop": (m_tinterpolate, True, "new first gufunc loop (int16, uint8, int32, uint8 -> int16) of tinterpolate"),
    "mean_grp_unification": (m_mean_grp, True, "mean_grp: the two re-assignments of avg removed (avg unifies to float32)"),
    "autocorr_casts": (m_autocorr, True, "autocorr_1d_float: float64(...) casts of x, y removed"),
    "gammastd_grp_swap": (m_gammastd_grp, True, "gammastd_grp: the two declared signatures swapped"),
    "sens_slope_vectorised": (m_sens_slope, True, "mk_sens_slope vectorised: diffs = x[i+1:] - x[i] on the input array"),
    "sens_slope_fused": (m_sens_slope_fused, True, "mk_sens_slope vectorised as ONE fused array expression (no int16 wrap, but float32 quotient)"),
    "lroo_uint8": (m_lroo, True, "lroo: positions .astype(np.uint8)"),
    "fastmath_ws2dpgu": (m_fastmath_pgu, True, "fastmath=True added to the guvectorize decorator of ws2dpgu"),
    "fastmath_set_ws2dwcv": (m_fastmath_wcv, True, 'fastmath={"arcp","contract","ninf","nsz","reassoc"} on ws2dwcv'),
    "layout_gammastd_grp": (m_layout_gammastd_grp, True, "gammastd_grp: int16[::1] for xx in the int16 signature"),
    "layout_ws2dwcv_llas": (m_layout_wcv_llas, True, "ws2dwcv: float64[::1] for llas"),
    "layout_ws2doptvplc_y": (m_layout_optvplc_y, True, "ws2doptvplc: int16[::1] for y"),
    "harmless_rename": (h_rename, False, "rename locals (avg, pixv in mean_grp; i1, i2 in ws2d; z in ws2dgu)"),
    "harmless_reorder": (h_reorder, False, "reorder independent statements (ws2d, rolling_sum, autocorr_1d_float)"),
    "harmless_comments": (h_comments, False, "comments and blank lines after every for header of 7 modules"),
}

PRED = {"probesAgree": "select_agrees_numpy", "loopsReachable": "loops_reachable", "storesSafe": "stores_safe",
        "outputsDocumented": "outputs_documented", "accumulatorsWide": "accumulators_wide", "noNarrowArith": "no_narrow_arith",
        "castsSafe": "casts_safe", "flagsDocumented": "flags_documented", "decoratorDocumented": "decorator_documented",
        "layoutsAny": "layouts_any"}


def lean_bin():
    r = subprocess.run(["lake", "env", "which", "lean"], cwd=LEAN, capture_output=True, text=True)
    if r.returncode != 0:
        raise SystemExit("seedtest: cannot locate lean: " + r.stderr)
    return r.stdout.strip()


def check(work: Path, leanexe: str):
    """compile work/Types.lean and Props/Types.lean against it in an overlay of the built library;
    returns (failing theorems, report lines)"""
    lib = LEAN / ".lake" / "build" / "lib" / "lean"
    ov = work / "lib"
    shutil.rmtree(ov, ignore_errors=True)
    ov.mkdir(parents=True)
    subprocess.run(["cp", "-rs", str(lib / "Hdc"), str(ov / "Hdc")], check=True)
    for p in list((ov / "Hdc" / "Gen").glob("Types.*")) + list((ov / "Hdc" / "Props").glob("Types.*")):
        p.unlink()
    src = work / "src"
    (src / "Hdc" / "Gen").mkdir(parents=True, exist_ok=True)
    (src / "Hdc" / "Props").mkdir(parents=True, exist_ok=True)
    shutil.copy(work / "Types.lean", src / "Hdc" / "Gen" / "Types.lean")
    shutil.copy(LEAN / "Hdc" / "Props" / "Types.lean", src / "Hdc" / "Props" / "Types.lean")
    env = dict(os.environ, LEAN_PATH=str(ov))
    r = subprocess.run([leanexe, f"--root={src}", str(src / "Hdc" / "Gen" / "Types.lean"), "-o", str(ov / "Hdc" / "Gen" / "Types.olean"),
                        "-i", str(ov / "Hdc" / "Gen" / "Types.ilean")], env=env, capture_output=True, text=True, cwd=src)
    if r.returncode != 0:
        return ["<generated file does not compile>"], (r.stdout + r.stderr).splitlines()[:5]
    r = subprocess.run([leanexe, f"--root={src}", str(src / "Hdc" / "Props" / "Types.lean"), "-o", str(ov / "Hdc" / "Props" / "Types.olean")],
                       env=env, capture_output=True, text=True, cwd=src)
    log = r.stdout + r.stderr
    (work / "props.log").write_text(log)
    failing = set()
    for m in re.finditer(r"error: (.*?)(?=\n\S+\.lean:\d+:\d+: |\Z)", log, flags=re.S):
        msg = m.group(1)
        hit = re.search(r"k_(\w+)\.(\w+)", msg)
        if hit and hit.group(2) in PRED:
            failing.add(f"{PRED[hit.group(2)]}_{hit.group(1)}")
        elif "gufuncNames" in msg or "njitNames" in msg:
            failing.add("kernels_covered")
        elif "skippedModules" in msg:
            failing.add("skipped_modules")
        elif "sharedAgree" in msg:
            failing.add("shared_helper_flags")
        elif "typings.any" in msg:
            failing.add("typings_complete")
        elif "narrowDocs.all" in msg:
            failing.add("whitelists_tight")
        else:
            failing.add("<" + msg.strip().splitlines()[0][:80] + ">")
    if r.returncode != 0 and not failing:
        failing.add("<lean failed>")
    # name the sites
    props = (LEAN / "Hdc" / "Props" / "Types.lean").read_text()
    a = props.index("namespace Hdc.Props.Types")
    b = props.index("/-! ## the kernels the families are stated for -/")
    rep = src / "Report.lean"
    rep.write_text("import Hdc.Model.Types\nimport Hdc.Gen.Types\n" + props[a:b]
                   + '#eval IO.println (String.intercalate "\\n" (kernels.flatMap (fun k => (if k.gufunc then k.reportLoops shadowOK else []) ++ k.reportFlags flagDocs decoDocs layoutDocs ++ k.report outDocs narrowDocs accumDocs castDocs)).eraseDups)\n'
                   + "end Hdc.Props.Types\n")
    r = subprocess.run([leanexe, f"--root={src}", str(rep)], env=env, capture_output=True, text=True, cwd=src)
    report = [re.sub(r"Hdc\.Types\.(DType|Role)\.", "", ln) for ln in r.stdout.splitlines() if ln.strip()]
    return sorted(failing), report


def run_case(name, root: Path, leanexe: str, jobs: int):
    edit, must_fail, descr = CASES[name]
    t = time.time()
    work = root / name
    shutil.rmtree(work, ignore_errors=True)
    work.mkdir(parents=True)
    shutil.copytree(REPO / "hdc", work / "hdc")
    edit(work)
    r = subprocess.run([sys.executable, str(HERE / "summarise_types.py"), "--out", str(work / "Types.lean"), "--jobs", str(jobs)],
                       env=dict(os.environ, HDC_REPO=str(work)), capture_output=True, text=True)
    gen = (r.stdout + r.stderr).strip().splitlines()[-1:] or [""]
    if r.returncode != 0 or not (work / "Types.lean").exists():
        return name, must_fail, descr, ["<" + gen[0][:200] + ">"], [], time.time() - t
    failing, report = check(work, leanexe)
    return name, must_fail, descr, failing, report, time.time() - t


def main():
    ap = argparse.ArgumentParser()
    ap.add_argument("--keep", default=None, help="directory for the scratch trees (default: a temporary directory, removed)")
    ap.add_argument("--only", default=None)
    ap.add_argument("--jobs", type=int, default=max(2, (os.cpu_count() or 4) // 3), help="compile processes per case (3 cases run at a time)")
    opts = ap.parse_args()
    names = [n for n in CASES if not opts.only or n in opts.only.split(",")]
    root = Path(opts.keep).resolve() if opts.keep else Path(tempfile.mkdtemp(prefix="types-seedtest-"))
    root.mkdir(parents=True, exist_ok=True)
    leanexe = lean_bin()
    ok = True
    with ThreadPoolExecutor(max_workers=3) as ex:
        results = list(ex.map(lambda n: run_case(n, root, leanexe, opts.jobs), names))
    for name, must_fail, descr, failing, report, dt in results:
        good = bool(failing) == must_fail and not any(f.startswith("<") for f in failing)
        ok &= good
        print(f"{'ok ' if good else 'BAD'} {name:26s} {'seeded' if must_fail else 'harmless'}  {dt:5.0f}s  {descr}")
        print(f"      failing theorems: {', '.join(failing) if failing else '(none)'}")
        for ln in report[:12]:
            print("      | " + ln[:230])
        if len(report) > 12:
            print(f"      | ... {len(report) - 12} more")
    if not opts.keep:
        shutil.rmtree(root, ignore_errors=True)
    print("seedtest:", "all expectations hold" if ok else "EXPECTATIONS VIOLATED")
    sys.exit(0 if ok else 1)


if __name__ == "__main__":
    main()
