#!/venv/bin/python
"""py2lean: translate loop kernels of hdc-algo (Python source, via `ast`) into imperative Lean 4 (`Id.run do`).

Output: lean/Hdc/Gen/Kernels.lean.  For every configured kernel `Hdc/Props/Gen*.lean` proves that the generated program
equals the hand-written model the property theorems are about, so that for these kernels the tie between source and model is
a THEOREM re-checked on every run instead of a sampled correspondence.

Supported subset (anything else -> Unsupported -> exit 1 -> the check treats the refinement theorems as broken obligations):
  statements : `x = e`, `a[i] = e`, `x += e`, `a[i] += e`, `for v in range(...)` (1-3 args, step -1 allowed), `if/elif/else`,
               `continue`, `return e | (e, ...)`, docstrings, `assert` (dropped), `n = a.size | len(a) | a.shape[0]`
  expressions: names, int literals, + - *, comparisons, and/or/not, `a[i]`, casts `int64(e) float64(e)` (identity on the model
               carrier), `np.where(a.flatten() == k)[0]` (primitive `whereEq`)
Typing: each kernel declares its parameters ("arr" | "int" | "num" | "out"); locals are `Int` when assigned an integer-only
expression, otherwise the carrier.  Integer-valued kernels use the carrier `Int`.

Optional per-kernel setting `round_stores={"<array>": "<fn>"}` (rounding-aware translation of a floating-point array that
the integer carrier otherwise idealises): the generated function takes an additional leading parameter `<fn> : Int → Int`
("the value stored into a cell of this array when the exact value is the integer n", e.g. float32 rounding) and EVERY value
stored into `<array>` is wrapped by it: `a[i] = e` -> `wr a i (fn e)`, `a[i] += e` -> `wr a i (fn ((rd a i) + e))`,
`a[:] = e` -> `a.map (fun _ => (fn e))`.  Reads are not wrapped (a stored value is read back unchanged) and nothing else is
rounded: this models an accumulation in the array's own type, i.e. the addition `a[i] + e` is taken to be computed exactly
and rounded once by the store (true for IEEE arithmetic when `e` is representable in the type the addition is done in).
Stores of a sentinel (`yy[ii] = nodata`) are wrapped like every other store - float32(nodata) is what the array holds - so a
theorem about the generated program needs `fn nodata = nodata` (the sentinel is representable, |nodata| <= 2^24 for float32;
cf. the repaired defect about sentinels beyond 2^24) or it shows the rounded sentinel.  Kernels without the setting are
translated exactly as before (byte-identical output).

Instrumentation mode (`K(cfg, fn, safe=True)`, `translate(cfg, safe=True)`): for every kernel a second module
Hdc/Gen/Safe<Name>.lean with THE SAME program plus one mutable flag `bad : Bool`, raised in front of every statement whose
subscripts are outside Python's accepted range (what exactly is checked: SAFE_HEADER below = Hdc/Gen/SafeBase.lean); the
program returns `(result, bad)`.  Implementation: the expression translators record one condition per subscript (`chk`) and
`emit` writes `bad := (bad || c1 || ..)` in front of the statement that is being emitted; with `safe=False` nothing is
recorded and the output is byte-identical to what it was.  Hdc/Props/Safe<Name>.lean prove, per kernel, `safe_<k>_fst`
(first component = the uninstrumented program, by the lock-step tactic `safe_sim`) and `safe_<k>_ok` (flag down in contract).
"""
import ast
import hashlib
import os
import sys
from pathlib import Path

REPO = Path(os.environ.get("HDC_REPO", "/repo"))
OUT = Path(__file__).resolve().parent.parent / "lean" / "Hdc" / "Gen" / "Kernels.lean"


class Unsupported(Exception):
    pass


KERNELS = [
    # (lean name, file, python function, {param: kind}, result description)
    dict(name="rolling_sum", file="hdc/algo/ops/stats.py", func="rolling_sum", unwrap=True,
         params=dict(xx="arr", window_size="int", nodata="num", yy="out"), ret="yy"),
    # the same source with the float32 accumulator `yy` made explicit: every store into `yy` goes through `rnd`
    dict(name="rolling_sum_r", file="hdc/algo/ops/stats.py", func="rolling_sum", unwrap=True,
         params=dict(xx="arr", window_size="int", nodata="num", yy="out"), ret="yy", round_stores=dict(yy="rnd")),
    dict(name="mk_score_counts", file="hdc/algo/ops/stats.py", func="mk_score", unwrap=False,
         params=dict(x="arr"), ret=("_s1", "_s2"), stop_before="tau"),
    dict(name="lroo", file="hdc/algo/ops/lroo.py", func="lroo", unwrap=True,
         params=dict(data="arr", out="out"), ret="out"),
    dict(name="autocorr_sums", file="hdc/algo/ops/autocorr.py", func="autocorr_1d_int", unwrap=False,
         params=dict(data="arr", nodata="num"), ret=("Sxy", "Sx_", "Sy_", "nxy", "Sx", "Sxx", "nx", "Sy", "Syy", "ny"), stop_before="result"),
]


class K:
    def __init__(self, cfg, fn, safe=False):
        self.cfg, self.fn = cfg, fn
        self.safe = safe                       # instrumentation mode: the same program + the flag `bad` (see SAFE_HEADER)
        self.checks = []                       # violation conditions of the statement being translated (safe mode)
        self.kinds = dict(cfg["params"])       # name -> arr | int | num | out
        self.ints = {k for k, v in self.kinds.items() if v == "int"}
        self.arrs = {k for k, v in self.kinds.items() if v in ("arr", "out")}
        self.nums = {k for k, v in self.kinds.items() if v == "num"}
        self.declared = set(self.kinds)
        self.lines = []
        # optional: arrays whose stores are rounded, array name -> name of the rounding parameter (Int -> Int)
        self.round_stores = dict(cfg.get("round_stores") or {})
        for arr, fn_name in self.round_stores.items():
            if arr not in self.arrs:
                raise Unsupported(f"round_stores: {arr} is not an array parameter")
            if fn_name in self.kinds:
                raise Unsupported(f"round_stores: the name {fn_name} is a parameter of the kernel")
            if any(isinstance(n, ast.Name) and n.id == fn_name for n in ast.walk(fn)):
                raise Unsupported(f"round_stores: the name {fn_name} occurs in the source")

    def stored(self, arr, term):
        """the value that ends up in a cell of `arr` when `term` is stored (identity unless `arr` is in round_stores)"""
        fn_name = self.round_stores.get(arr)
        return term if fn_name is None else f"({fn_name} {term})"

    # ---- typing
    def is_int(self, e):
        if isinstance(e, ast.Constant):
            return isinstance(e.value, int) and not isinstance(e.value, bool)
        if isinstance(e, ast.Name):
            return e.id in self.ints
        if isinstance(e, ast.BinOp) and isinstance(e.op, (ast.Add, ast.Sub, ast.Mult)):
            return self.is_int(e.left) and self.is_int(e.right)
        if isinstance(e, ast.UnaryOp) and isinstance(e.op, ast.USub):
            return self.is_int(e.operand)
        if isinstance(e, ast.Attribute) and e.attr == "size":
            return True
        if isinstance(e, ast.Subscript) and isinstance(e.value, ast.Attribute) and e.value.attr == "shape":
            return True
        if isinstance(e, ast.Call) and isinstance(e.func, ast.Name) and e.func.id == "len":
            return True
        if isinstance(e, ast.Call) and isinstance(e.func, ast.Name) and e.func.id == "int64" and self.is_int(e.args[0]):
            return True
        return False

    def iexpr(self, e):
        if isinstance(e, ast.Constant):
            return f"({e.value} : Int)" if e.value >= 0 else f"(-{-e.value} : Int)"
        if isinstance(e, ast.Name):
            return e.id
        if isinstance(e, ast.BinOp):
            op = {ast.Add: "+", ast.Sub: "-", ast.Mult: "*"}[type(e.op)]
            return f"({self.iexpr(e.left)} {op} {self.iexpr(e.right)})"
        if isinstance(e, ast.UnaryOp):
            return f"(-{self.iexpr(e.operand)})"
        if isinstance(e, ast.Attribute) and e.attr == "size":
            return f"({self.arr_name(e.value)}.size : Int)"
        if isinstance(e, ast.Subscript):
            return f"({self.arr_name(e.value.value)}.size : Int)"
        if isinstance(e, ast.Call) and e.func.id == "len":
            return f"({self.arr_name(e.args[0])}.size : Int)"
        if isinstance(e, ast.Call) and e.func.id == "int64":
            return self.iexpr(e.args[0])
        raise Unsupported(ast.dump(e)[:80])

    def arr_name(self, e):
        if isinstance(e, ast.Name) and e.id in self.arrs:
            return e.id
        raise Unsupported("array expression " + ast.dump(e)[:60])

    # ---- instrumentation (safe mode only; without it nothing below changes the output)
    def chk(self, term):
        """record a violation condition (a Bool term) of the statement being translated; `emit` writes
        `bad := (bad || c1 || ...)` in front of the statement"""
        if self.safe and term not in self.checks:
            self.checks.append(term)

    def chk_index(self, arr, i):
        """`arr[i]`, read or write: violated unless -len(arr) <= i < len(arr)"""
        self.chk(f"(oob ({arr}.size : Int) {i})")

    def nexpr(self, e):
        """carrier-valued expression (carrier = Int for these kernels)"""
        if self.is_int(e):
            return self.iexpr(e)
        if isinstance(e, ast.Name):
            if e.id in self.arrs:
                raise Unsupported("array used as scalar")
            return e.id
        if isinstance(e, ast.Subscript) and isinstance(e.value, ast.Name) and e.value.id in self.arrs:
            i = self.iexpr(e.slice)
            self.chk_index(e.value.id, i)
            return f"(rd {e.value.id} {i})"
        if isinstance(e, ast.BinOp) and isinstance(e.op, (ast.Add, ast.Sub, ast.Mult)):
            op = {ast.Add: "+", ast.Sub: "-", ast.Mult: "*"}[type(e.op)]
            return f"({self.nexpr(e.left)} {op} {self.nexpr(e.right)})"
        if isinstance(e, ast.UnaryOp) and isinstance(e.op, ast.USub):
            return f"(-{self.nexpr(e.operand)})"
        if isinstance(e, ast.Call) and isinstance(e.func, ast.Name) and e.func.id in ("int64", "float64") and len(e.args) == 1:
            return self.nexpr(e.args[0])
        raise Unsupported(ast.dump(e)[:80])

    def bexpr(self, e):
        if isinstance(e, ast.Compare) and len(e.ops) == 1:
            op = {ast.Lt: "<", ast.LtE: "≤", ast.Gt: ">", ast.GtE: "≥", ast.Eq: "==", ast.NotEq: "!="}.get(type(e.ops[0]))
            if op is None:
                raise Unsupported("compare")
            return f"(decide ({self.nexpr(e.left)} {op.replace('==', '=').replace('!=', '≠')} {self.nexpr(e.comparators[0])}))"
        if isinstance(e, ast.BoolOp):
            op = " && " if isinstance(e.op, ast.And) else " || "
            parts = []
            for j, v in enumerate(e.values):
                n0 = len(self.checks)
                term = self.bexpr(v)
                if j > 0 and len(self.checks) > n0:
                    # Python evaluates a later operand only when the earlier ones do not decide: its checks are guarded
                    fresh = self.checks[n0:]
                    del self.checks[n0:]
                    guard = "(" + op.join(parts) + ")"
                    if isinstance(e.op, ast.Or):
                        guard = f"(!{guard})"
                    for c in fresh:
                        self.chk(f"({guard} && {c})")
                parts.append(term)
            return "(" + op.join(parts) + ")"
        if isinstance(e, ast.UnaryOp) and isinstance(e.op, ast.Not):
            return f"(!{self.bexpr(e.operand)})"
        raise Unsupported("condition " + ast.dump(e)[:60])

    # ---- statements
    def emit(self, ind, txt):
        if self.checks:                        # safe mode: the checks of this statement's subscripts, evaluated before it
            cs, self.checks = self.checks, []
            self.lines.append("  " * ind + "bad := (bad || " + " || ".join(cs) + ")")
        self.lines.append("  " * ind + txt)

    def assign_name(self, name, value_ast, ind):
        # primitive: np.where(a.flatten() == k)[0]
        v = value_ast
        if (isinstance(v, ast.Subscript) and isinstance(v.value, ast.Call) and isinstance(v.value.func, ast.Attribute) and v.value.func.attr == "where"):
            cmp_ = v.value.args[0]
            arr = cmp_.left.func.value if isinstance(cmp_.left, ast.Call) else cmp_.left
            self.arrs.add(name)
            self.declared.add(name)
            self.emit(ind, f"let mut {name} : Array Int := whereEq {self.arr_name(arr)} {self.nexpr(cmp_.comparators[0])}")
            return
        if isinstance(v, ast.Subscript) and isinstance(v.slice, ast.Slice) and isinstance(v.value, ast.Name) and v.value.id in self.arrs:
            # x[:-1] / x[1:] views
            s = v.slice
            lo = "(0 : Int)" if s.lower is None else self.iexpr(s.lower)
            hi = f"({v.value.id}.size : Int)" if s.upper is None else self.iexpr(s.upper)
            self.arrs.add(name)
            self.declared.add(name)
            self.emit(ind, f"let mut {name} : Array Int := pySlice {v.value.id} {lo} {hi}")
            return
        isint = self.is_int(v)
        term = self.iexpr(v) if isint else self.nexpr(v)
        if name in self.declared:
            self.emit(ind, f"{name} := {term}")
        else:
            self.declared.add(name)
            (self.ints if isint else self.nums).add(name)
            self.emit(ind, f"let mut {name} : Int := {term}")

    def stmt(self, s, ind):
        if isinstance(s, ast.Expr) and isinstance(s.value, ast.Constant):
            return
        if isinstance(s, ast.Assert):
            return
        if isinstance(s, ast.Assign) and len(s.targets) == 1:
            t = s.targets[0]
            if isinstance(t, ast.Name):
                return self.assign_name(t.id, s.value, ind)
            if isinstance(t, ast.Subscript) and isinstance(t.value, ast.Name) and t.value.id in self.arrs:
                if isinstance(t.slice, ast.Slice):
                    if t.slice.lower is None and t.slice.upper is None:
                        return self.emit(ind, f"{t.value.id} := {t.value.id}.map (fun _ => {self.stored(t.value.id, self.nexpr(s.value))})")
                    raise Unsupported("slice store")
                val = self.nexpr(s.value)
                i = self.iexpr(t.slice)
                self.chk_index(t.value.id, i)
                return self.emit(ind, f"{t.value.id} := wr {t.value.id} {i} {self.stored(t.value.id, val)}")
            raise Unsupported("assignment target")
        if isinstance(s, ast.AugAssign) and isinstance(s.op, ast.Add):
            t = s.target
            if isinstance(t, ast.Name):
                if t.id not in self.declared:
                    raise Unsupported("augmented assignment to undeclared name")
                rhs = self.iexpr(s.value) if (t.id in self.ints and self.is_int(s.value)) else self.nexpr(s.value)
                return self.emit(ind, f"{t.id} := ({t.id} + {rhs})")
            if isinstance(t, ast.Subscript) and isinstance(t.value, ast.Name) and t.value.id in self.arrs:
                i = self.iexpr(t.slice)
                self.chk_index(t.value.id, i)
                return self.emit(ind, f"{t.value.id} := wr {t.value.id} {i} {self.stored(t.value.id, f'((rd {t.value.id} {i}) + {self.nexpr(s.value)})')}")
            raise Unsupported("augmented target")
        if isinstance(s, ast.For) and isinstance(s.target, ast.Name) and isinstance(s.iter, ast.Call) and isinstance(s.iter.func, ast.Name) and s.iter.func.id == "range":
            a = s.iter.args
            if len(a) == 1:
                it = f"pyRange (0 : Int) {self.iexpr(a[0])}"
            elif len(a) == 2:
                it = f"pyRange {self.iexpr(a[0])} {self.iexpr(a[1])}"
            elif len(a) == 3 and isinstance(a[2], ast.UnaryOp) and isinstance(a[2].operand, ast.Constant) and a[2].operand.value == 1:
                it = f"pyRangeDown {self.iexpr(a[0])} {self.iexpr(a[1])}"
            else:
                raise Unsupported("range form")
            self.ints.add(s.target.id)
            self.declared.add(s.target.id)
            self.emit(ind, f"for {s.target.id} in {it} do")
            for b in s.body:
                self.stmt(b, ind + 1)
            return
        if isinstance(s, ast.If):
            self.emit(ind, f"if {self.bexpr(s.test)} then")
            for b in s.body:
                self.stmt(b, ind + 1)
            if s.orelse:
                self.emit(ind, "else")
                for b in s.orelse:
                    self.stmt(b, ind + 1)
            return
        if isinstance(s, ast.Continue):
            return self.emit(ind, "continue")
        raise Unsupported(type(s).__name__ + ": " + ast.dump(s)[:80])

    def predeclare(self):
        """names first assigned inside a loop / branch stay visible afterwards in Python: declare them up front"""
        top = {t.id for s in self.fn.body if isinstance(s, ast.Assign) for t in s.targets if isinstance(t, ast.Name)}
        for node in ast.walk(self.fn):
            if isinstance(node, (ast.For, ast.If)):
                for sub in ast.walk(node):
                    if isinstance(sub, ast.Assign) and isinstance(sub.targets[0], ast.Name):
                        nm = sub.targets[0].id
                        if nm not in top and nm not in self.declared:
                            self.declared.add(nm)
                            self.ints.add(nm)
                            self.emit(1, f"let mut {nm} : Int := 0")

    def check_signature(self):
        """the `def` line must be the one the translator is configured for (a reordered / renamed parameter or a default value
        would otherwise leave the generated program unchanged)"""
        a = self.fn.args
        names = [x.arg for x in a.args]
        want = list(self.cfg["params"])
        if names != want or a.defaults or a.vararg or a.kwarg or a.kwonlyargs or a.posonlyargs:
            raise Unsupported(f"signature changed: def {self.fn.name}({ast.unparse(a)}) but the translator is configured for ({', '.join(want)})")

    def run(self):
        self.check_signature()
        if self.safe:
            self.emit(1, "let mut bad : Bool := false")
        for nm, kind in self.cfg["params"].items():
            if kind == "out":
                self.emit(1, f"let mut {nm} : Array Int := {nm}")     # output buffers are assigned to
        self.predeclare()
        stop = self.cfg.get("stop_before")
        for s in self.fn.body:
            if stop and isinstance(s, ast.Assign) and isinstance(s.targets[0], ast.Name) and s.targets[0].id == stop:
                break
            if isinstance(s, ast.Return):
                break
            self.stmt(s, 1)
        ret = self.cfg["ret"]
        rterm = ret if isinstance(ret, str) else "(" + ", ".join(ret) + ")"
        self.emit(1, "return " + (f"({rterm}, bad)" if self.safe else rterm))
        return "\n".join(self.lines)

    def signature(self):
        parts = [f"({fn_name} : Int → Int)" for fn_name in dict.fromkeys(self.round_stores.values())]
        for nm, kind in self.cfg["params"].items():
            parts.append(f"({nm} : {'Array Int' if kind in ('arr', 'out') else 'Int'})")
        ret = self.cfg["ret"]
        rty = "Array Int" if isinstance(ret, str) else " × ".join("Int" for _ in ret)
        return " ".join(parts), (f"({rty}) × Bool" if self.safe else rty)


HEADER = """/-
GENERATED by harness/py2lean.py (fixed prelude).  Do not edit.
Statement-by-statement translations of integer loop kernels (Hdc/Gen/K*.lean); arrays are `Array Int`, indices `Int` with Python wrap-around.
-/
namespace Hdc.Gen.Kernels

/-- Python index on an array of length `n`: negative indices wrap around -/
def ix (n : Nat) (i : Int) : Nat := if i < 0 then (i + (n : Int)).toNat else i.toNat

/-- `a[i]` (0 when out of range) -/
def rd (a : Array Int) (i : Int) : Int := a.getD (ix a.size i) 0

/-- `a[i] = v` (dropped when out of range) -/
def wr (a : Array Int) (i : Int) (v : Int) : Array Int := a.setIfInBounds (ix a.size i) v

/-- `range(a, b)` -/
def pyRange (a b : Int) : List Int := (List.range (b - a).toNat).map fun (k : Nat) => a + Int.ofNat k

/-- `range(a, b, -1)` -/
def pyRangeDown (a b : Int) : List Int := (List.range (a - b).toNat).map fun (k : Nat) => a - Int.ofNat k

/-- `np.where(a == k)[0]`: positions holding `k` -/
def whereEq (a : Array Int) (k : Int) : Array Int :=
  ((List.range a.size).filter fun i => a.getD i 0 = k).map Int.ofNat |>.toArray

/-- `a[lo:hi]` for 0 <= lo, hi possibly negative (Python slice with step 1) -/
def pySlice (a : Array Int) (lo hi : Int) : Array Int :=
  let n : Int := a.size
  let norm := fun (i : Int) => (if i < 0 then max 0 (i + n) else min i n).toNat
  a.extract (norm lo) (norm hi)

"""


SAFE_HEADER = """/-
GENERATED by harness/py2lean.py (fixed prelude).  Do not edit.
Instrumentation mode of the integer-kernel translators (py2lean.py, the integer half of py2lean_stats.py): next to
Hdc/Gen/K<Kernel>.lean a second module Hdc/Gen/Safe<Kernel>.lean holds THE SAME program, statement by statement, with
one more mutable variable `bad : Bool` (initially false) and, in front of every statement that subscripts an array, one
statement `bad := (bad || c1 || ... )` with a condition per subscript of that statement (in evaluation order, duplicates
once); the program returns `(result, bad)`.  Numba compiles the kernels without bounds checks: `bad = false` says that no
subscript of the run was outside its array.

  a[i]  (read, write, `a[i] += v`)   oob a.size i           : NOT  -len(a) <= i < len(a)   (Python's accepted range; negative
                                                              indices wrap, which the flag accepts)
  a[i, j] / a[i, j, k]               oob d0 i || oob d1 j (|| oob d2 k)  each index against ITS axis, and
                                     oobFlat a.size (flat.. )            the row-major position inside the flat buffer the
                                                                         translation passes the n-d array as
  p = a[mask]   a[mask] = v          maskBad a mask         : NOT  len(mask) == len(a)
  x / n  with an integer divisor     n = 0                  (true division; a floating divisor is Unsupported in this mode;
                                                             `//` and `%` are not in the translated subset at all)
  a[lo:hi] (views), a[:] = v         nothing: Python and Numba clamp slice bounds to the array, a slice never leaves it
  for v in a:                        nothing: the iteration reads the cells 0 .. len(a)-1
A subscript inside a later operand of `p and q` / `p or q` is evaluated conditionally: its condition is guarded, `(p && c)` /
`(!p && c)`.
-/
namespace Hdc.Gen.Safe

/-- `i` is NOT an index Python accepts on an axis of length `n` (accepted: `-n ≤ i < n`) -/
def oob (n : Int) (i : Int) : Bool := decide (i < -n) || decide (n ≤ i)

/-- the row-major position `p` is outside a flat buffer of `n` cells (no wrap-around here) -/
def oobFlat (n : Nat) (p : Int) : Bool := decide (p < 0) || decide ((n : Int) ≤ p)

/-- a boolean mask that has not the length of the array it selects from -/
def maskBad {γ : Type} (a : Array γ) (mask : Array Bool) : Bool := decide (mask.size ≠ a.size)

end Hdc.Gen.Safe
"""


def module_name(cfg, prefix="K"):
    return prefix + "".join(w.capitalize() for w in cfg["name"].split("_"))


def write_if_changed(path, text):
    path.parent.mkdir(parents=True, exist_ok=True)
    if not path.exists() or path.read_text() != text:
        tmp = path.with_suffix(".tmp")
        tmp.write_text(text)
        tmp.replace(path)
        print(f"py2lean: wrote {path}")


def translate(cfg, safe=False):
    """the text of Hdc/Gen/K<Name>.lean (safe=False) or of the instrumented Hdc/Gen/Safe<Name>.lean (safe=True)"""
    src = (REPO / cfg["file"]).read_text()
    mod = ast.parse(src)
    fn = [n for n in ast.walk(mod) if isinstance(n, ast.FunctionDef) and n.name == cfg["func"]][-1]      # a later def shadows an earlier one
    k = K(cfg, fn, safe=safe)
    body = k.run()
    if k.checks:
        raise Unsupported("safe mode: checks left over")
    sig, rty = k.signature()
    sha = hashlib.sha256(ast.get_source_segment(src, fn).encode()).hexdigest()[:16]
    if safe:
        return (f"import Hdc.Gen.KernelsBase\nimport Hdc.Gen.SafeBase\n/-\nGENERATED by harness/py2lean.py (instrumentation mode) from {cfg['file']}::{cfg['func']} "
                f"(sha256 of the function source {sha}).  Do not edit.\n-/\n"
                f"namespace Hdc.Gen.Safe\nopen Hdc.Gen.Kernels (rd wr pyRange pyRangeDown whereEq pySlice)\n\n"
                f"/-- `{cfg['file']}::{cfg['func']}` with the flag `bad`: (result, some subscript was out of range) -/\n"
                f"def {cfg['name']} {sig} : {rty} := Id.run do\n{body}\n\nend Hdc.Gen.Safe\n")
    note = "".join(f"\nEvery value stored into `{a}` is wrapped by the parameter `{f} : Int → Int` (round_stores)." for a, f in k.round_stores.items())
    return (f"import Hdc.Gen.KernelsBase\n/-\nGENERATED by harness/py2lean.py from {cfg['file']}::{cfg['func']} (sha256 of the function source {sha}).  Do not edit.{note}\n-/\n"
            f"namespace Hdc.Gen.Kernels\n\n/-- `{cfg['file']}::{cfg['func']}` -/\ndef {cfg['name']} {sig} : {rty} := Id.run do\n{body}\n\nend Hdc.Gen.Kernels\n")


def main():
    """One generated module per kernel (Hdc/Gen/K<Name>.lean) on top of the fixed prelude Hdc/Gen/KernelsBase.lean, so that a
    change to one kernel's source touches only the theorems about that kernel.  A kernel that cannot be translated is reported
    as `FAILED <module>: reason` (exit 1); its previous output is left in place (stale, and treated as broken by the checks).
    In addition, per kernel, the instrumented module Hdc/Gen/Safe<Name>.lean (prelude Hdc/Gen/SafeBase.lean)."""
    gen = OUT.parent
    write_if_changed(gen / "KernelsBase.lean", HEADER + "end Hdc.Gen.Kernels\n")
    write_if_changed(gen / "SafeBase.lean", SAFE_HEADER)
    rc = 0
    for cfg in KERNELS:
        for safe in (False, True):
            if safe and cfg.get("round_stores"):
                continue          # the rounding-aware variant is a second reading of the same source; its Safe twin is that of the plain kernel
            module = module_name(cfg, "Safe" if safe else "K")
            try:
                write_if_changed(gen / f"{module}.lean", translate(cfg, safe))
            except (Unsupported, StopIteration, KeyError, IndexError, AttributeError, OSError, SyntaxError) as e:
                print(f"FAILED Hdc.Gen.{module}: unsupported construct in {cfg['func']}: {e!r}")
                rc = 1
    return rc


if __name__ == "__main__":
    sys.exit(main())
