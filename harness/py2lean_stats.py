#!/venv/bin/python
"""py2lean_stats: translate the grouped / zonal means, the float autocorrelation and the Mann-Kendall pieces of hdc-algo
(Python source, via `ast`, statement by statement) into imperative Lean 4 (`Id.run do`).

It re-uses the machinery of `py2lean.py` (integer kernels, `Array Int`) and `py2lean_num.py` (floating kernels over an
abstract carrier `α`) by SUBCLASSING their translators `K`; the new constructs are translated through the generic,
hand-written combinators of `lean/Hdc/PyNpT.lean`.

Integer kernels (class KI, prelude Hdc/Gen/KernelsBase.lean + Hdc/PyNpT.lean) -> Hdc/Gen/K<Name>.lean
    mean_grp  (ops/stats.py)     do_mean  (ops/zonal.py)
  new constructs
    * floating results.  The data cells are exact integers (`Int`), but these kernels divide.  As Numba does, a scalar that
      is assigned both integers and a true division (`avg`) is unified to the floating type; so is an array created with a
      float dtype (`sums`, `result`) and a floating output buffer (`yy`).  The floating type is an abstract `β` with the
      operations `F : FloatOps β` (`F.lit` int -> float, `F.add`, `F.div`, `F.nan`); `a / b` -> `F.div a b` is never
      evaluated by the translation, so the generated program returns the quotients *before* the division (instantiate
      `F.div` with pairing).  Other arithmetic on floating scalars (`-`, `*`) is Unsupported.
    * `m = a == k` (boolean mask) -> `npEqMask a k`;  `p = a[m]` -> `npCompress a m`;  `a[m] = v` -> `npMaskSet a m v`
    * `for v in a:` -> index loop reading `a` (as py2lean_num)
    * n-d arrays: a parameter declared `("arr", k)` is passed FLATTENED (row-major) together with its `k` dimensions
      `<name>_d0 ...`; `t, nr, nc = a.shape` reads them; `a[i, j, k]` -> cell `flat3 d0 d1 d2 i j k` of the flat array;
      `np.zeros((d0, d1, d2), dtype=..)` -> `npFull (d0*d1*d2) 0` with the dimensions bound to `<name>_d0 ...`;
      `a.shape[1]` -> the bound dimension
    * `np.zeros(n, dtype=np.float64 | np.int64 | <dtype parameter>)`, `a[:] = 0`, `np.nan`
  instrumentation mode (`KI(cfg, fn, safe=True)`, see py2lean.py): per kernel a second module Hdc/Gen/Safe<Name>.lean, the same
    program + the flag `bad`; in addition to `a[i]` it checks n-d subscripts (each index against its axis + the flat position),
    boolean masks (`a[mask]`, `a[mask] = v`: the mask must have the length of `a`) and `x / n` with an integer divisor `n = 0`

Floating kernels (class KN, prelude Hdc/Gen/NumBase.lean + Hdc/PyNpT.lean) -> Hdc/Gen/Num<Name>.lean
    autocorr_1d_float (ops/autocorr.py)   mk_score, mk_variance_s, mk_z_score, mk_p_value, mk_sens_slope,
    mann_kendall_trend_1d (ops/stats.py)
  new constructs: boolean locals (`x_ok = not isnan(x)`, `if x_ok and y_ok`), `isnan` (a parameter), `assert` (dropped),
    slices `a[:-1]`, `a[1:]` (`pySliceG`), integer-valued float literals (`1.0` -> `nat 1`), `x ** -0.5` -> `rsqrt x`,
    `erf`/`sqrt` -> `F.erf`/`F.sqrt` (F : MKFns α), `int(<comparison>)` (stays a Bool), `int(a / b)` on integers ->
    `Int.tdiv a b`, `np.unique` -> `npUnique`, `np.median`/`np.nanmedian` -> `npMedian`, `np.ones(n)` -> `npFull n (nat 1)`,
    external calls on compile-time constants (`sc.ndtri(1 - alpha / 2)` with the default `alpha = 0.05`) -> a named constant
    of the kernel's `extern_consts` table (`F.zcrit`), calls of other translated kernels, tuple results of mixed types,
    `elif`, `.size`.
  instrumentation mode (`py2lean_num.SafeMixin` through the subclass `SafeKN`; kernels declared `safe=True, safe_mixin=SafeKN`:
    mk_sens_slope -> Hdc/Gen/SafeMkSens.lean, mk_variance_s -> Hdc/Gen/SafeMkVariance.lean, namespace Hdc.Gen.Safe): the checks
    of py2lean_num (every subscript `oob`, every slice `badSlice`, every scalar division by a non-literal `decide (k = 0)` /
    `eqv e (nat 0)`, also inside `int(a / b)`) plus, for the constructs of KN,
      * `np.ones(n)` / `np.zeros(n)` with an integer length -> `negLen n` (ValueError "negative dimensions"; Hdc/PySafeT.lean)
      * `np.unique(a)`, `np.median(a)`, `np.nanmedian(a)` of a 1-d array NAME, `ndtri(<constant>)`: total (the median of an
        empty array is NaN and a warning, not an exception) -> no check
      * `x ** e`, `assert`, calls of other translated kernels (`calls=`), any other `np.` / `sc.` function, keywords:
        Unsupported("safe: ...") (the Safe module is reported FAILED, the ordinary module is still written)
Anything else raises Unsupported -> `FAILED <module>: reason`, exit 1.
"""
import ast
import hashlib
import os
import sys
from pathlib import Path

sys.path.insert(0, str(Path(__file__).resolve().parent))
import py2lean as pyi          # noqa: E402
import py2lean_num as base     # noqa: E402

REPO = Path(os.environ.get("HDC_REPO", "/repo"))
GEN = Path(__file__).resolve().parent.parent / "lean" / "Hdc" / "Gen"
TOOL = "py2lean_stats"

Unsupported = base.Unsupported
pyi.Unsupported = base.Unsupported      # one exception class for both machineries


# =====================================================================================================================
# integer kernels with floating results
# =====================================================================================================================

FLOAT_DTYPES = {"float64", "float32"}
INT_DTYPES = {"int64", "int32", "int16", "int8"}


class KI(pyi.K):
    """`py2lean.K` + masks, gathers, n-d arrays and floating results (see the module docstring)."""

    LEAN_TY = {"int": "Int", "f": "β", "arr": "Array Int", "arrf": "Array β", "mask": "Array Bool"}
    INIT = {"int": "0", "f": "F.lit 0", "arr": "#[]", "arrf": "#[]", "mask": "#[]"}

    def __init__(self, cfg, fn, safe=False):
        params = {}
        self.dims = {}                      # n-d array -> the Lean names of its dimensions
        self.fdtypes = set()                # parameters that are a (floating) dtype
        self.ty = {}                        # every name -> int | f | arr | arrf | mask
        for nm, kind in cfg["params"].items():
            if isinstance(kind, tuple):
                kind, nd = kind
                self.dims[nm] = [f"{nm}_d{k}" for k in range(nd)]
            if kind == "fdtype":
                self.fdtypes.add(nm)
                continue
            params[nm] = kind
            self.ty[nm] = {"arr": "arr", "out": "arr", "int": "int", "num": "int", "arrf": "arrf", "outf": "arrf"}[kind]
        super().__init__(dict(cfg, params={k: ("arr" if v == "arrf" else "out" if v == "outf" else v) for k, v in params.items()}), fn, safe=safe)
        self.cfg = cfg
        self.arrs = {k for k, v in self.ty.items() if v == "arr"}
        self.tmp = 0
        self.infer()

    # ---------------------------------------------------------------- types
    def dtype_kind(self, call):
        """element type of `np.zeros(.., dtype=..)`: f | int"""
        for kw in call.keywords:
            if kw.arg == "dtype":
                v = kw.value
                nm = v.attr if isinstance(v, ast.Attribute) else (v.id if isinstance(v, ast.Name) else (v.value if isinstance(v, ast.Constant) else None))
                if nm in FLOAT_DTYPES or nm in self.fdtypes:
                    return "f"
                if nm in INT_DTYPES:
                    return "int"
                raise Unsupported(f"dtype {nm}")
        return "f"                           # NumPy's default dtype is float64

    def tyof(self, e):
        """int | f | arr | arrf | mask | shape of an expression (None = unknown yet, during inference)"""
        if isinstance(e, ast.Constant):
            if isinstance(e.value, bool) or not isinstance(e.value, int):
                raise Unsupported(f"literal {e.value!r}")
            return "int"
        if isinstance(e, ast.Name):
            return self.ty.get(e.id)
        if isinstance(e, ast.Attribute):
            if e.attr == "nan" and isinstance(e.value, ast.Name) and e.value.id == "np":
                return "f"
            if e.attr == "size":
                return "int"
            if e.attr == "shape":
                return "shape"
            raise Unsupported("attribute " + e.attr)
        if isinstance(e, ast.UnaryOp) and isinstance(e.op, ast.USub):
            return self.tyof(e.operand)
        if isinstance(e, ast.BinOp):
            if isinstance(e.op, ast.Div):
                return "f"
            lt, rt = self.tyof(e.left), self.tyof(e.right)
            if lt is None or rt is None:
                return None
            if lt in ("int", "f") and rt in ("int", "f"):
                return "f" if "f" in (lt, rt) else "int"
            raise Unsupported("array arithmetic " + ast.dump(e)[:60])
        if isinstance(e, ast.Compare):
            lt = self.tyof(e.left)
            if lt == "arr" and len(e.ops) == 1 and isinstance(e.ops[0], ast.Eq):
                return "mask"
            return "bool"
        if isinstance(e, ast.Subscript):
            if isinstance(e.value, ast.Attribute) and e.value.attr == "shape":
                return "int"
            at = self.tyof(e.value)
            if at is None:
                return None
            if isinstance(e.slice, ast.Name) and self.ty.get(e.slice.id) == "mask":
                return at                                        # a[mask]
            if isinstance(e.slice, ast.Slice):
                return at
            return {"arr": "int", "arrf": "f"}.get(at)
        if isinstance(e, ast.Call):
            f = e.func
            if isinstance(f, ast.Name) and f.id == "len":
                return "int"
            if isinstance(f, ast.Name) and f.id in ("int64", "float64") and len(e.args) == 1:
                return self.tyof(e.args[0])                      # casts: identity on the exact carrier
            if isinstance(f, ast.Attribute) and f.attr == "zeros" and isinstance(f.value, ast.Name) and f.value.id == "np":
                return {"f": "arrf", "int": "arr"}[self.dtype_kind(e)]
        raise Unsupported("expression " + ast.dump(e)[:80])

    def infer(self):
        """types of the locals: a scalar that is ever assigned a floating value is floating everywhere (Numba's unification)"""
        for _ in range(4):
            for node in ast.walk(self.fn):
                if isinstance(node, ast.For) and isinstance(node.target, ast.Name):
                    it = node.iter
                    if isinstance(it, ast.Call) and isinstance(it.func, ast.Name) and it.func.id == "range":
                        self.ty[node.target.id] = "int"
                    elif isinstance(it, ast.Name) and self.ty.get(it.id) in ("arr", "arrf"):
                        self.ty[node.target.id] = "int" if self.ty[it.id] == "arr" else "f"
                pairs = []
                if isinstance(node, ast.Assign) and len(node.targets) == 1:
                    t = node.targets[0]
                    if isinstance(t, ast.Name):
                        pairs.append((t.id, node.value))
                    elif isinstance(t, ast.Tuple) and isinstance(node.value, ast.Attribute) and node.value.attr == "shape":
                        for el in t.elts:
                            self.ty[el.id] = "int"
                elif isinstance(node, ast.AugAssign) and isinstance(node.target, ast.Name):
                    pairs.append((node.target.id, node.value))
                for nm, v in pairs:
                    try:
                        t = self.tyof(v)
                    except Unsupported:
                        t = None
                    if t is None or t in ("bool", "shape"):
                        continue
                    old = self.ty.get(nm)
                    if old is None or (old == "int" and t == "f"):
                        self.ty[nm] = t
                    elif old != t and not (old == "f" and t == "int"):
                        raise Unsupported(f"{nm} changes type {old} -> {t}")
        self.arrs = {k for k, v in self.ty.items() if v in ("arr", "arrf")}
        self.ints = {k for k, v in self.ty.items() if v == "int"}

    # ---------------------------------------------------------------- expressions
    def is_int(self, e):
        try:
            return self.tyof(e) == "int"
        except Unsupported:
            return False

    def index(self, arr, sl):
        """the (flat) index term of `arr[sl]`"""
        if isinstance(sl, ast.Tuple):
            d = self.dims.get(arr)
            if d is None or len(d) != len(sl.elts) or len(d) not in (2, 3):
                raise Unsupported(f"{len(sl.elts)}-d index into {arr}")
            ixs = [self.iexpr(x) for x in sl.elts]
            flat = f"(flat{len(d)} {' '.join(d)} {' '.join(ixs)})"
            for dk, ik in zip(d, ixs):                            # safe mode: each index against its axis ...
                self.chk(f"(oob {dk} {ik})")
            self.chk(f"(oobFlat {arr}.size {flat})")              # ... and the position inside the flat buffer
            return flat
        if arr in self.dims:
            raise Unsupported(f"1-d index into the n-d array {arr}")
        i = self.iexpr(sl)
        self.chk_index(arr, i)
        return i

    def iexpr(self, e):
        if self.tyof(e) != "int":
            raise Unsupported("integer expression expected: " + ast.dump(e)[:60])
        if isinstance(e, ast.Subscript):
            if isinstance(e.value, ast.Attribute) and e.value.attr == "shape":
                arr = self.arr_name(e.value.value)
                if arr in self.dims:
                    if not (isinstance(e.slice, ast.Constant) and 0 <= e.slice.value < len(self.dims[arr])):
                        raise Unsupported("shape index")
                    return self.dims[arr][e.slice.value]
                return f"({arr}.size : Int)"
            arr = self.arr_name(e.value)
            return f"(rd {arr} {self.index(arr, e.slice)})"
        if isinstance(e, ast.Attribute) and e.attr == "size" and self.arr_name(e.value) in self.dims:
            raise Unsupported(".size of an n-d array")
        if isinstance(e, ast.Call) and isinstance(e.func, ast.Name) and e.func.id == "len" and self.arr_name(e.args[0]) in self.dims:
            return self.dims[e.args[0].id][0]
        if isinstance(e, ast.Call) and isinstance(e.func, ast.Name) and e.func.id in ("int64", "float64"):
            return self.iexpr(e.args[0])
        return super().iexpr(e)

    def nexpr(self, e):
        return self.iexpr(e)                 # data cells and counters are both `Int`

    def fexpr(self, e):
        """floating-valued term (type β); an integer sub-term is converted with `F.lit`"""
        t = self.tyof(e)
        if t == "int":
            return f"(F.lit {self.iexpr(e)})"
        if t != "f":
            raise Unsupported("floating expression expected: " + ast.dump(e)[:60])
        if isinstance(e, ast.Name):
            return e.id
        if isinstance(e, ast.Attribute):
            return "F.nan"
        if isinstance(e, ast.BinOp) and isinstance(e.op, ast.Div):
            num = self.fexpr(e.left)
            if self.safe:                                         # true division: flagged when the (integer) divisor is 0
                if self.tyof(e.right) != "int":
                    raise Unsupported("safe mode: division by a floating value")
                self.chk(f"(decide ({self.iexpr(e.right)} = (0 : Int)))")
            return f"(F.div {num} {self.fexpr(e.right)})"
        if isinstance(e, ast.BinOp) and isinstance(e.op, ast.Add):
            return f"(F.add {self.fexpr(e.left)} {self.fexpr(e.right)})"
        if isinstance(e, ast.Subscript):
            arr = self.arr_name(e.value)
            return f"(rdD {arr} {self.index(arr, e.slice)} (F.lit 0))"
        if isinstance(e, ast.Call) and isinstance(e.func, ast.Name) and e.func.id in ("int64", "float64"):
            return self.fexpr(e.args[0])
        raise Unsupported("floating arithmetic " + ast.dump(e)[:80])

    def bexpr(self, e):
        if isinstance(e, ast.Compare):
            for x in [e.left] + e.comparators:
                if self.tyof(x) != "int":
                    raise Unsupported("comparison of non-integers " + ast.dump(e)[:60])
        return super().bexpr(e)

    # ---------------------------------------------------------------- statements
    def bind(self, name, term, ind):
        t = self.ty[name]
        if name in self.declared:
            self.emit(ind, f"{name} := {term}")
        else:
            self.declared.add(name)
            self.emit(ind, f"let mut {name} : {self.LEAN_TY[t]} := {term}")

    def assign_name(self, name, v, ind):
        t = self.ty.get(name)
        if t is None:
            raise Unsupported(f"no type for {name}")
        vt = self.tyof(v)
        if t == "mask":                                           # m = a == k
            return self.bind(name, f"npEqMask {self.arr_name(v.left)} {self.iexpr(v.comparators[0])}", ind)
        if t in ("arr", "arrf") and isinstance(v, ast.Subscript) and isinstance(v.slice, ast.Name) and self.ty.get(v.slice.id) == "mask":
            self.chk(f"(maskBad {self.arr_name(v.value)} {v.slice.id})")
            return self.bind(name, f"npCompress {self.arr_name(v.value)} {v.slice.id}", ind)     # p = a[m]
        if t in ("arr", "arrf") and isinstance(v, ast.Call) and isinstance(v.func, ast.Attribute) and v.func.attr == "zeros":
            shape = v.args[0]
            zero = "(F.lit 0)" if t == "arrf" else "(0 : Int)"
            if isinstance(shape, ast.Tuple):
                if name in self.declared:
                    raise Unsupported("re-allocation of an n-d array")
                self.dims[name] = [f"{name}_d{k}" for k in range(len(shape.elts))]
                for d, x in zip(self.dims[name], shape.elts):
                    self.emit(ind, f"let {d} : Int := {self.iexpr(x)}")
                return self.bind(name, f"npFull ({' * '.join(self.dims[name])}) {zero}", ind)
            return self.bind(name, f"npFull {self.iexpr(shape)} {zero}", ind)
        if t == "f":
            return self.bind(name, self.fexpr(v), ind)
        if t == "int" and vt == "int":
            return self.bind(name, self.iexpr(v), ind)
        raise Unsupported(f"assignment {name} = " + ast.dump(v)[:60])

    def stmt(self, s, ind):
        if isinstance(s, ast.Assign) and len(s.targets) == 1:
            t, v = s.targets[0], s.value
            if isinstance(t, ast.Tuple) and isinstance(v, ast.Attribute) and v.attr == "shape":       # t, nr, nc = a.shape
                arr = self.arr_name(v.value)
                if arr not in self.dims or len(self.dims[arr]) != len(t.elts):
                    raise Unsupported("shape unpacking")
                for el, d in zip(t.elts, self.dims[arr]):
                    self.bind(el.id, d, ind)
                return
            if isinstance(t, ast.Name):
                return self.assign_name(t.id, v, ind)
            if isinstance(t, ast.Subscript) and isinstance(t.value, ast.Name) and t.value.id in self.arrs:
                arr = t.value.id
                flt = self.ty[arr] == "arrf"
                val = self.fexpr(v) if flt else self.iexpr(v)
                if isinstance(t.slice, ast.Name) and self.ty.get(t.slice.id) == "mask":             # a[m] = v
                    self.chk(f"(maskBad {arr} {t.slice.id})")
                    return self.emit(ind, f"{arr} := npMaskSet {arr} {t.slice.id} {val}")
                if isinstance(t.slice, ast.Slice):
                    if t.slice.lower is None and t.slice.upper is None and t.slice.step is None:    # a[:] = v
                        return self.emit(ind, f"{arr} := {arr}.map (fun _ => {val})")
                    raise Unsupported("slice store")
                return self.emit(ind, f"{arr} := {'wrG' if flt else 'wr'} {arr} {self.index(arr, t.slice)} {val}")
            raise Unsupported("assignment target")
        if isinstance(s, ast.AugAssign) and isinstance(s.op, ast.Add):
            t = s.target
            if isinstance(t, ast.Name):
                if t.id not in self.declared:
                    raise Unsupported("augmented assignment to undeclared name")
                if self.ty[t.id] == "f":
                    return self.emit(ind, f"{t.id} := (F.add {t.id} {self.fexpr(s.value)})")
                return self.emit(ind, f"{t.id} := ({t.id} + {self.iexpr(s.value)})")
            if isinstance(t, ast.Subscript) and isinstance(t.value, ast.Name) and t.value.id in self.arrs:
                arr = t.value.id
                i = self.index(arr, t.slice)
                if self.ty[arr] == "arrf":
                    return self.emit(ind, f"{arr} := wrG {arr} {i} (F.add (rdD {arr} {i} (F.lit 0)) {self.fexpr(s.value)})")
                return self.emit(ind, f"{arr} := wr {arr} {i} ((rd {arr} {i}) + {self.iexpr(s.value)})")
            raise Unsupported("augmented target")
        if isinstance(s, ast.For) and isinstance(s.target, ast.Name) and isinstance(s.iter, ast.Name):
            it = s.iter.id                                                                          # for v in a:
            if self.ty.get(it) not in ("arr", "arrf") or it in self.dims:
                raise Unsupported("for iterable")
            self.tmp += 1
            ixv = f"it{self.tmp}"
            self.emit(ind, f"for {ixv} in pyRange (0 : Int) ({it}.size : Int) do")
            rd = f"rd {it} {ixv}" if self.ty[it] == "arr" else f"rdD {it} {ixv} (F.lit 0)"
            self.emit(ind + 1, f"let {s.target.id} : {self.LEAN_TY[self.ty[s.target.id]]} := {rd}")
            for b in s.body:
                self.stmt(b, ind + 1)
            return
        return super().stmt(s, ind)                          # for-range, if, continue, docstring, assert

    def predeclare(self):
        """names first assigned inside a loop / branch stay visible afterwards in Python: declare them up front"""
        top = {t.id for s in self.fn.body if isinstance(s, ast.Assign) for t in s.targets if isinstance(t, ast.Name)}
        top |= {el.id for s in self.fn.body if isinstance(s, ast.Assign) for t in s.targets if isinstance(t, ast.Tuple) for el in t.elts}
        for node in ast.walk(self.fn):
            if isinstance(node, (ast.For, ast.If)):
                for sub in ast.walk(node):
                    if isinstance(sub, ast.Assign) and isinstance(sub.targets[0], ast.Name):
                        nm = sub.targets[0].id
                        if nm not in top and nm not in self.declared:
                            t = self.ty.get(nm)
                            if t is None:
                                raise Unsupported(f"no type for {nm}")
                            self.declared.add(nm)
                            self.emit(1, f"let mut {nm} : {self.LEAN_TY[t]} := {self.INIT[t]}")

    def run(self):
        if self.safe:
            self.emit(1, "let mut bad : Bool := false")
        for nm, kind in self.cfg["params"].items():
            if kind in ("out", "outf"):
                self.emit(1, f"let mut {nm} : {self.LEAN_TY[self.ty[nm]]} := {nm}")
        self.predeclare()
        ret = self.cfg["ret"]
        for s in self.fn.body:
            if isinstance(s, ast.Return):
                if not (isinstance(s.value, ast.Name) and s.value.id == ret):
                    raise Unsupported("return value")
                break
            self.stmt(s, 1)
        self.emit(1, f"return ({ret}, bad)" if self.safe else f"return {ret}")
        return "\n".join(self.lines)

    def signature(self):
        parts = ["{β : Type} (F : FloatOps β)"]
        for nm, kind in self.cfg["params"].items():
            if nm in self.fdtypes:
                continue
            parts.append(f"({nm} : {self.LEAN_TY[self.ty[nm]]})")
            if nm in self.dims:
                parts.append("(" + " ".join(self.dims[nm]) + " : Int)")
        rty = self.LEAN_TY[self.ty[self.cfg["ret"]]]
        return " ".join(parts), (f"({rty}) × Bool" if self.safe else rty)


INT_KERNELS = [
    # the floating output buffer `yy` (float32) and the accumulator `avg` are of the abstract floating type β
    dict(name="mean_grp", file="hdc/algo/ops/stats.py", func="mean_grp",
         params=dict(xx="arr", groups="arr", num_groups="int", nodata="num", yy="outf"), ret="yy"),
    # `pixels` (T, Y, X) and `z_pixels` (Y, X) are passed flattened together with their dimensions
    dict(name="do_mean", file="hdc/algo/ops/zonal.py", func="do_mean",
         defaults={"out_dtype": "np.float32"},
         params=dict(pixels=("arr", 3), z_pixels=("arr", 2), num_zones="int", nodata="num", z_nodata="num", out_dtype="fdtype"),
         ret="result"),
]


def int_module(cfg, prefix="K"):
    return prefix + "".join(w.capitalize() for w in cfg["name"].split("_"))


def translate_int(cfg, safe=False):
    """the text of Hdc/Gen/K<Name>.lean (safe=False) or of the instrumented Hdc/Gen/Safe<Name>.lean (safe=True: the same
    program + the flag `bad`, see the prelude Hdc/Gen/SafeBase.lean written by py2lean.py)"""
    src = (REPO / cfg["file"]).read_text()
    mod = ast.parse(src)
    fn = [n for n in ast.walk(mod) if isinstance(n, ast.FunctionDef) and n.name == cfg["func"]][-1]
    names, want = [a.arg for a in fn.args.args], list(cfg["params"])
    defaults = {a.arg: ast.unparse(d) for a, d in zip(fn.args.args[len(fn.args.args) - len(fn.args.defaults):], fn.args.defaults)}
    if names != want or defaults != cfg.get("defaults", {}) or fn.args.vararg or fn.args.kwarg or fn.args.kwonlyargs:
        raise Unsupported(f"signature changed: def {fn.name}({ast.unparse(fn.args)}) but the translator is configured for ({', '.join(want)}) with defaults {cfg.get('defaults', {})}")
    k = KI(cfg, fn, safe=safe)
    body = k.run()
    if k.checks:
        raise Unsupported("safe mode: checks left over")
    sig, rty = k.signature()
    sha = hashlib.sha256(ast.get_source_segment(src, fn).encode()).hexdigest()[:16]
    if safe:
        return (f"import Hdc.Gen.KernelsBase\nimport Hdc.Gen.SafeBase\nimport Hdc.PyNpT\n/-\nGENERATED by harness/{TOOL}.py (instrumentation mode) from {cfg['file']}::{cfg['func']} "
                f"(sha256 of the function source {sha}).  Do not edit.\n-/\n"
                f"namespace Hdc.Gen.Safe\nopen Hdc.Gen.Kernels (rd wr pyRange pyRangeDown whereEq pySlice)\n"
                f"open Hdc.PyNpT (FloatOps rdD wrG npEqMask npCompress npMaskSet npFull flat2 flat3)\n\n"
                f"/-- `{cfg['file']}::{cfg['func']}` with the flag `bad`: (result, some subscript was out of range) -/\n"
                f"def {cfg['name']} {sig} : {rty} := Id.run do\n{body}\n\nend Hdc.Gen.Safe\n")
    return (f"import Hdc.Gen.KernelsBase\nimport Hdc.PyNpT\n/-\nGENERATED by harness/{TOOL}.py from {cfg['file']}::{cfg['func']} "
            f"(sha256 of the function source {sha}).  Do not edit.\n-/\n"
            f"namespace Hdc.Gen.Kernels\nopen Hdc.PyNpT (FloatOps rdD wrG npEqMask npCompress npMaskSet npFull flat2 flat3)\n\n"
            f"/-- `{cfg['file']}::{cfg['func']}` -/\ndef {cfg['name']} {sig} : {rty} := Id.run do\n{body}\n\nend Hdc.Gen.Kernels\n")


# =====================================================================================================================
# floating kernels
# =====================================================================================================================

class KN(base.K):
    """`py2lean_num.K` + boolean locals, `isnan`, slices, `**-0.5`, integer-valued float literals, `assert`, externals,
    calls of other translated kernels, tuple results."""

    LEAN_TY = dict(base.K.LEAN_TY, bool="Bool")
    INIT = dict(base.K.INIT, bool="false")

    def __init__(self, cfg, fn):
        super().__init__(cfg, fn)
        # parameters with a default value that the kernel's declaration does not list are compile-time constants
        a = fn.args
        self.defaults = {}
        for arg, dv in zip(a.args[len(a.args) - len(a.defaults):], a.defaults):
            if arg.arg not in self.ty and isinstance(dv, ast.Constant) and isinstance(dv.value, (int, float)):
                self.defaults[arg.arg] = dv.value

    # ---------------------------------------------------------------- compile-time constants, externals
    def const_eval(self, e):
        if isinstance(e, ast.Constant) and isinstance(e.value, (int, float)) and not isinstance(e.value, bool):
            return e.value
        if isinstance(e, ast.Name) and e.id in self.defaults:
            return self.defaults[e.id]
        if isinstance(e, ast.BinOp) and isinstance(e.op, (ast.Add, ast.Sub, ast.Mult, ast.Div)):
            l, r = self.const_eval(e.left), self.const_eval(e.right)
            return {ast.Add: l + r, ast.Sub: l - r, ast.Mult: l * r}[type(e.op)] if not isinstance(e.op, ast.Div) else l / r
        raise Unsupported("not a compile-time constant: " + ast.dump(e)[:60])

    def np_call(self, e):
        """name of `np.<f>(..)` / `sc.<f>(..)`, else None"""
        if isinstance(e, ast.Call) and isinstance(e.func, ast.Attribute) and isinstance(e.func.value, ast.Name) \
                and e.func.value.id in ("np", "sc") and not e.keywords:
            return e.func.attr
        return None

    def kernel_call(self, e):
        if isinstance(e, ast.Call) and isinstance(e.func, ast.Name) and e.func.id in self.cfg.get("calls", {}) and not e.keywords:
            return self.cfg["calls"][e.func.id]
        return None

    # ---------------------------------------------------------------- types
    def typeof(self, e):
        if isinstance(e, (ast.Compare, ast.BoolOp)) or (isinstance(e, ast.UnaryOp) and isinstance(e.op, ast.Not)):
            return "bool"
        if isinstance(e, ast.Call) and isinstance(e.func, ast.Name):
            f = e.func.id
            if f == "isnan":
                return "bool"
            if f == "erf":
                return "num"
            if f == "int" and len(e.args) == 1:
                a = e.args[0]
                if self.typeof(a) == "bool":
                    return "bool"                  # int(<comparison>): 0/1, only used as a truth value afterwards
                if isinstance(a, ast.BinOp) and isinstance(a.op, ast.Div) and self.typeof(a.left) == self.typeof(a.right) == "int":
                    return "int"                   # int(a / b) on integers
                raise Unsupported("int(..) of " + ast.dump(a)[:60])
            kc = self.kernel_call(e)
            if kc is not None:
                return kc[1] if isinstance(kc[1], str) else "tuple"
        npf = self.np_call(e)
        if npf == "unique" or npf == "ones":
            return "arrnum"
        if npf in ("median", "nanmedian", "ndtri"):
            return "num"
        if isinstance(e, ast.BinOp) and isinstance(e.op, ast.Pow):
            return "num"
        if isinstance(e, ast.Attribute) and e.attr == "size":
            return "int"
        if isinstance(e, ast.Subscript) and isinstance(e.slice, ast.Slice):
            return self.typeof(e.value)
        return super().typeof(e)

    # ---------------------------------------------------------------- expressions
    def iexpr(self, e):
        if isinstance(e, ast.Attribute) and e.attr == "size" and isinstance(e.value, ast.Name):
            return f"({e.value.id}.size : Int)"
        if isinstance(e, ast.Call) and isinstance(e.func, ast.Name) and e.func.id == "int":
            a = e.args[0]                                                    # int(a / b): truncation of the exact quotient
            return f"(Int.tdiv {self.iexpr(a.left)} {self.iexpr(a.right)})"
        return super().iexpr(e)

    def nexpr(self, e):
        t = self.typeof(e)
        if t == "int" and self.cfg.get("intcast") and not isinstance(e, ast.Constant) \
                and not (isinstance(e, ast.UnaryOp) and isinstance(e.operand, ast.Constant)):
            return f"({self.cfg['intcast']} {self.iexpr(e)})"                # int -> float conversion named by the kernel
        if t == "num" and isinstance(e, ast.Constant) and float(e.value) == int(e.value) and int(e.value) >= 0 \
                and repr(float(e.value)) not in self.cfg["consts"]:
            return f"(nat {int(e.value)})"                                   # 1.0 -> nat 1
        if isinstance(e, ast.BinOp) and isinstance(e.op, ast.Pow):
            r = e.right
            if isinstance(r, ast.UnaryOp) and isinstance(r.op, ast.USub) and isinstance(r.operand, ast.Constant) and r.operand.value == 0.5:
                return f"(rsqrt {self.nexpr(e.left)})"                       # x ** -0.5
            raise Unsupported("power " + ast.dump(e)[:60])
        if isinstance(e, ast.Call) and isinstance(e.func, ast.Name) and e.func.id == "erf" and len(e.args) == 1:
            return f"(F.erf {self.nexpr(e.args[0])})"
        npf = self.np_call(e)
        if npf in ("median", "nanmedian") and len(e.args) == 1 and isinstance(e.args[0], ast.Name) and self.ty.get(e.args[0].id) == "arrnum":
            return f"(PyNpT.npMedian {e.args[0].id})"                         # EXTERNAL -> the model's median
        if npf is not None and len(e.args) == 1:
            key = f"{npf}({self.const_eval(e.args[0])!r})"                   # external function of a constant -> named constant
            if key in self.cfg.get("extern_consts", {}):
                return self.cfg["extern_consts"][key]
            raise Unsupported("external call " + key)
        kc = self.kernel_call(e)
        if kc is not None and kc[1] == "num":
            return "(" + " ".join([kc[0]] + [self.value_term(a)[1] for a in e.args]) + ")"
        return super().nexpr(e)

    def bexpr(self, e):
        if isinstance(e, ast.Name):
            if self.ty.get(e.id) != "bool":
                raise Unsupported(f"truth value of the non-boolean {e.id}")
            return e.id
        if isinstance(e, ast.Call) and isinstance(e.func, ast.Name) and e.func.id == "isnan" and len(e.args) == 1:
            return f"(isnan {self.nexpr(e.args[0])})"
        if isinstance(e, ast.Call) and isinstance(e.func, ast.Name) and e.func.id == "int" and self.typeof(e) == "bool":
            return self.bexpr(e.args[0])
        return super().bexpr(e)

    # ---------------------------------------------------------------- statements
    def value_term(self, v):
        if isinstance(v, ast.Subscript) and isinstance(v.slice, ast.Slice) and isinstance(v.value, ast.Name) \
                and not (v.slice.lower is None and v.slice.upper is None):
            s = v.slice                                                      # a[lo:hi] (a copy: the kernels only read it)
            if s.step is not None or self.ty.get(v.value.id) != "arrnum":
                raise Unsupported("slice " + ast.dump(v)[:60])
            lo = "(0 : Int)" if s.lower is None else self.iexpr(s.lower)
            hi = f"({v.value.id}.size : Int)" if s.upper is None else self.iexpr(s.upper)
            return "arrnum", f"PyNpT.pySliceG {v.value.id} {lo} {hi}"
        npf = self.np_call(v)
        if npf == "unique" and len(v.args) == 1 and isinstance(v.args[0], ast.Name) and self.ty.get(v.args[0].id) == "arrnum":
            return "arrnum", f"PyNpT.npUnique {v.args[0].id}"                 # EXTERNAL -> the model's Py.unique
        if npf == "ones" and len(v.args) == 1:
            return "arrnum", f"PyNpT.npFull {self.iexpr(v.args[0])} (nat 1)"
        if isinstance(v, ast.Name) and self.ty.get(v.id) in ("arrnum", "arrint"):
            return self.ty[v.id], v.id
        if self.typeof(v) == "bool":
            return "bool", self.bexpr(v)
        return super().value_term(v)

    def stmt(self, s, ind):
        if isinstance(s, ast.Assert):
            return                                                           # assertions about ndim / dtype: dropped
        if isinstance(s, ast.Return) and isinstance(s.value, ast.Tuple):
            return self.emit(ind, "return (" + ", ".join(self.value_term(x)[1] for x in s.value.elts) + ")")
        if isinstance(s, ast.Assign) and len(s.targets) == 1 and isinstance(s.targets[0], ast.Tuple):
            kc = self.kernel_call(s.value)                                   # a, b = kernel(..)
            if kc is not None:
                tys = kc[1]
                if isinstance(tys, str) or len(tys) != len(s.targets[0].elts) or len(tys) != 2:
                    raise Unsupported("tuple result")
                self.tmp += 1
                tmp = f"tmp{self.tmp}"
                self.emit(ind, f"let {tmp} := " + " ".join([kc[0]] + [self.value_term(a)[1] for a in s.value.args]))
                for el, ty, proj in zip(s.targets[0].elts, tys, ("1", "2")):
                    if not isinstance(el, ast.Name):
                        raise Unsupported("tuple target")
                    if el.id != "_":
                        self.set_name(el.id, ty, f"{tmp}.{proj}", ind)
                return
        return super().stmt(s, ind)


class SafeKN(base.SafeMixin):
    """`py2lean_num.SafeMixin` for the constructs `KN` adds (see the module docstring).  Every check is computed from the Python
    AST; what is not understood raises Unsupported("safe: ...")."""

    NP_TOTAL = {"unique": 1, "median": 1, "nanmedian": 1}      # total on a 1-d array: nothing to check
    NP_ALLOC = ("ones", "zeros")                                # allocation: the length must not be negative
    NP_BASE = ("round", "copy")                                 # constructs of py2lean_num: its own rules

    def ck(self, e, out, g=()):
        if isinstance(e, ast.BinOp) and isinstance(e.op, ast.Pow):
            raise Unsupported("safe: `**` (a zero base with a negative exponent raises for Python floats)")
        if isinstance(e, ast.Call):
            if isinstance(e.func, ast.Name) and e.func.id in self.cfg.get("calls", {}):
                raise Unsupported(f"safe: call of the translated kernel {e.func.id}")
            f = e.func
            if isinstance(f, ast.Attribute) and isinstance(f.value, ast.Name) and f.value.id in ("np", "sc"):
                if f.attr in self.NP_BASE or (f.attr == "zeros" and not (len(e.args) == 1 and self.is_int_len(e.args[0]))):
                    return super().ck(e, out, g)
                if e.keywords:
                    raise Unsupported(f"safe: keywords of np.{f.attr}")
                if f.attr in self.NP_TOTAL:
                    if len(e.args) != self.NP_TOTAL[f.attr] or not all(isinstance(a, ast.Name) and self.ty.get(a.id) == "arrnum" for a in e.args):
                        raise Unsupported(f"safe: np.{f.attr} of something else than a 1-d array name")
                    return
                if f.attr in self.NP_ALLOC:
                    if len(e.args) != 1 or not self.is_int_len(e.args[0]):
                        raise Unsupported(f"safe: np.{f.attr} with a shape that is not an integer")
                    n = e.args[0]
                    self.ck(n, out, g)
                    if isinstance(n, ast.Constant):
                        if n.value < 0:
                            out.append(self.guarded(g, "true"))
                        return                                 # a non-negative literal length needs no check
                    out.append(self.guarded(g, f"negLen {self.iexpr(n)}"))
                    return
                if f.attr == "ndtri" and len(e.args) == 1:
                    self.const_eval(e.args[0])                  # a compile-time constant (else Unsupported)
                    return
                raise Unsupported(f"safe: np.{f.attr}")
        return super().ck(e, out, g)

    def is_int_len(self, a):
        try:
            return self.typeof(a) == "int" and not (isinstance(a, ast.Constant) and isinstance(a.value, bool))
        except Unsupported:
            return False


SAFE_NOTE = ("Additional check of harness/py2lean_stats.py (SafeKN): `negLen n` for `np.ones(n)` / `np.zeros(n)` with a negative length "
             "(Hdc/PySafeT.lean).\nNot instrumented (total): `np.unique`, `np.median`, `np.nanmedian` of a 1-d array, divisions by a non-zero literal.")

MK_FILE = "hdc/algo/ops/stats.py"
NUM_KERNELS = [
    # `isnan` is a parameter (the carrier has no NaN: the model reads a cell with `isnan` as missing); `x ** -0.5` -> rsqrt
    dict(name="autocorr_1d_float", module="NumAutocorrFloat", file="hdc/algo/ops/autocorr.py", func="autocorr_1d_float",
         params=[("data", "arrnum")], consts={"1e-08": "eps"}, extra="(isnan : α → Bool) (rsqrt : α → α) (eps : α)",
         ret=None, uses="", imports=["Hdc.PyNpT"], translator=KN),
    # Mann-Kendall: sqrt, erf, 0.5, ndtri(0.975) and the int -> float conversion are the fields of `F : MKFns α`
    dict(name="mk_score", module="NumMkScore", file=MK_FILE, func="mk_score", params=[("x", "arrnum")],
         consts={"0.5": "F.half"}, intcast="F.ofInt", extra="(F : MKFns α)", ret=None, rty="Int × α", uses="",
         imports=["Hdc.PyNpT"], translator=KN),
    dict(name="mk_variance_s", module="NumMkVariance", file=MK_FILE, func="mk_variance_s", params=[("x", "arrnum")],
         consts={}, intcast="F.ofInt", extra="(F : MKFns α)", ret=None, uses="", imports=["Hdc.PyNpT"], translator=KN,
         safe=True, safe_mixin=SafeKN, safe_imports=["Hdc.PySafeT"]),
    dict(name="mk_z_score", module="NumMkZ", file=MK_FILE, func="mk_z_score", params=[("s", "int"), ("vs", "num")],
         consts={}, intcast="F.ofInt", extra="(F : MKFns α)", ret=None, uses="", imports=["Hdc.PyNpT"], translator=KN),
    dict(name="mk_p_value", module="NumMkP", file=MK_FILE, func="mk_p_value", params=[("z", "num")], const_params={"alpha": 0.05},
         consts={"0.5": "F.half"}, extern_consts={"ndtri(0.975)": "F.zcrit"}, intcast="F.ofInt", extra="(F : MKFns α)",
         ret=None, rty="α × Bool", uses="", imports=["Hdc.PyNpT"], translator=KN),
    dict(name="mk_sens_slope", module="NumMkSens", file=MK_FILE, func="mk_sens_slope", params=[("x", "arrnum")],
         consts={}, extra="", ret=None, rty="α × α", uses="[IntCast α]", imports=["Hdc.PyNpT"], translator=KN,
         safe=True, safe_mixin=SafeKN, safe_imports=["Hdc.PySafeT"]),
    dict(name="mann_kendall_trend_1d", module="NumMkTrend", file=MK_FILE, func="mann_kendall_trend_1d",
         params=[("x", "arrnum")], consts={}, intcast="F.ofInt", extra="(F : MKFns α)", ret=None, rty="α × α × α × Int",
         uses="[IntCast α]", translator=KN,
         imports=["Hdc.PyNpT", "Hdc.Gen.NumMkScore", "Hdc.Gen.NumMkVariance", "Hdc.Gen.NumMkZ", "Hdc.Gen.NumMkP", "Hdc.Gen.NumMkSens"],
         calls={"mk_score": ("mk_score F", ["int", "num"]), "mk_variance_s": ("mk_variance_s F", "num"),
                "mk_z_score": ("mk_z_score F", "num"), "mk_p_value": ("mk_p_value F", ["num", "bool"]),
                "mk_sens_slope": ("mk_sens_slope", ["num", "num"])}),
]


def write_if_changed(path, text):
    path.parent.mkdir(parents=True, exist_ok=True)
    if not path.exists() or path.read_text() != text:
        tmp = path.with_suffix(".tmp")
        tmp.write_text(text)
        tmp.replace(path)
        print(f"{TOOL}: wrote {path}")


def main(argv=None):
    """One generated module per kernel.  A kernel that cannot be translated is reported as `FAILED <module>: reason` (exit 1);
    its previous output stays in place (stale, and treated as broken by the checks)."""
    rc = 0
    pyi.write_if_changed(GEN / "SafeBase.lean", pyi.SAFE_HEADER)
    for cfg in INT_KERNELS:
        for safe in (False, True):
            module = int_module(cfg, "Safe" if safe else "K")
            try:
                write_if_changed(GEN / f"{module}.lean", translate_int(cfg, safe))
            except (Unsupported, StopIteration, KeyError, IndexError, AttributeError, OSError, SyntaxError, TypeError) as e:
                print(f"FAILED Hdc.Gen.{module}: unsupported construct in {cfg['func']}: {e!r}")
                rc = 1
    base.write_if_changed.__globals__["print"] = lambda *a, **k: print(*(str(x).replace("py2lean_num:", TOOL + ":") for x in a), **k)
    for c in NUM_KERNELS:
        if c.get("safe"):
            c["safe_note"] = "\n" + SAFE_NOTE          # hook of py2lean_num.main: name the checks SafeKN adds in the header
    rc |= base.main(kernels=NUM_KERNELS, tool=TOOL)
    return rc


if __name__ == "__main__":
    sys.exit(main())
