#!/usr/bin/env python3
"""Regenerate lean/obligations.json: property id -> theorem modules and the property theorems they state.

Every `theorem` in Hdc/Props/<module>.lean is a property theorem (helper lemmas live under Hdc/Lemmas/)."""
import json
import re
from pathlib import Path

LEAN = Path(__file__).resolve().parent.parent / "lean"
MODULES = {
    "C01": ["C01", "C01gen"],
    "C02": ["C02", "GenNumGu", "GenNumPgu"],
    "C03": ["C03", "GenNumGu", "GenNumPgu"],
    "C04": ["C04", "GenNumOptv", "GenNumOptvp", "GenNumOptvpCore", "GenNumOptvplc"],
    "C05": ["C05", "GenNumWcv", "GenNumWcvp"],
    "C06": ["C06core", "C06"],
    "C07": ["C07", "GenNumBrent", "GenNumGammafit", "GenNumGammastd"],
    "C08": ["C08", "GenNumGammastd", "GenNumGammastdYxt", "SafeBrentq", "SafeGammafit", "SafeGammastd"],
    "C09": ["C09", "GenNumGammastdGrp"],
    "C10": ["C10", "GenKMk", "GenNumMkScore", "GenNumMkVar", "GenNumMkZ", "GenNumMkP", "GenNumMkSens", "GenNumMkTrend"],
    "C11": ["C11"], "C12": ["C12"], "C13": ["C13", "Types"],
    "C14": ["C14", "SafeRollingSum", "SafeLroo", "SafeMeanGrp", "SafeDoMean", "SafeAutocorrSums", "SafeMkScoreCounts",
            "SafeWs2d", "SafeTinterpolate", "SafeWs2doptv"],
    "C15": ["C15", "GenKAC", "GenNumACFloat"],
    "C16": ["C16", "GenKDoMean", "GenKDoMeanB"],
    "C17": ["C17", "C17round", "C17float", "GenKRS", "GenKRSround", "GenKMeanGrp", "GenKMeanGrpB"],
    "C18": ["C18", "GenKLroo"], "C19": ["C19"], "C20": ["C20", "GenNumTI"],
}


def theorems(path: Path):
    txt = re.sub(r"/-.*?-/", "", path.read_text(), flags=re.S)
    ns, out = [], []
    for ln in txt.split("\n"):
        ln = ln.split("--")[0]
        m = re.match(r"\s*namespace\s+(\S+)", ln)
        if m:
            ns.append(m.group(1))
            continue
        m = re.match(r"\s*end\s+(\S+)", ln)
        if m and ns and ns[-1].split(".")[-1] == m.group(1).split(".")[-1]:
            ns.pop()
            continue
        m = re.match(r"\s*(?:@\[[^\]]*\]\s*)?(?:private\s+|protected\s+)?theorem\s+([^\s:({\[$]+)", ln)
        if m:
            out.append(".".join(ns + [m.group(1)]))
        # Props/Types.lean states one family of theorems per kernel through two command macros
        m = re.match(r"\s*gufunc_family\s+(\S+)\s+documented", ln)
        if m:
            out += [".".join(ns + [f"{p}_{m.group(1)}"]) for p in ("select_agrees_numpy", "loops_reachable", "stores_safe", "outputs_documented",
                                                                 "accumulators_wide", "no_narrow_arith", "casts_safe", "flags_documented",
                                                                 "decorator_documented", "layouts_any")]
        m = re.match(r"\s*njit_family\s+(\S+)\s*$", ln)
        if m:
            out += [".".join(ns + [f"{p}_{m.group(1)}"]) for p in ("stores_safe", "outputs_documented", "accumulators_wide", "no_narrow_arith", "casts_safe",
                                                                 "flags_documented", "decorator_documented")]
    return out


def main():
    res = {}
    for pid, mods in MODULES.items():
        ms, ts = [], []
        for m in mods:
            p = LEAN / "Hdc" / "Props" / f"{m}.lean"
            if p.exists():
                ms.append(f"Hdc.Props.{m}")
                ts += theorems(p)
        if ms:
            res[pid] = dict(modules=ms, theorems=ts)
    (LEAN / "obligations.json").write_text(json.dumps(res, indent=1))
    for k, v in res.items():
        print(k, len(v["theorems"]))


if __name__ == "__main__":
    main()
