#!/usr/bin/env python3
"""Regenerate lean/obligations.json: property id -> theorem modules and the property theorems they state.

Every `theorem` in Hdc/Props/<module>.lean is a property theorem (helper lemmas live under Hdc/Lemmas/)."""
import json
import re
from pathlib import Path

LEAN = Path(__file__).resolve().parent.parent / "lean"
T = "TypesK"          # per-kernel type-level theorems (Numba typing, loops, flags, layouts): Props/TypesK<Kernel>.lean
SMOOTH_FIXED = [T + "Ws2dgu", T + "Ws2dpgu"]
SMOOTH_V = [T + "Ws2doptv", T + "Ws2doptvp", T + "Ws2doptvplc", T + "Ws2doptvplcTyx"]
SMOOTH_GCV = [T + "Ws2dwcv", T + "Ws2dwcvp"]
SPI = [T + "GammastdGrp", T + "GammastdYxt"]
MK = [T + "MannKendallTrendGuU", T + "MannKendallTrendGuNdU", T + "MannKendallTrendYxt"]
ALL_TYPES = (["TypesGlobal"] + SMOOTH_FIXED + SMOOTH_V + SMOOTH_GCV + SPI + MK
             + [T + "Tinterpolate", T + "Lroo", T + "MeanGrp", T + "RollingSum", T + "Autocorr", T + "AutocorrTyx", T + "DoMean", T + "Ws2dwcvpU"])
MODULES = {
    "C01": ["C01", "C01gen"],
    "C02": ["C02", "GenNumGu", "GenNumPgu", "GenGlueWhits"] + SMOOTH_FIXED + SMOOTH_V[:3] + SMOOTH_GCV,
    "C03": ["C03", "GenNumGu", "GenNumPgu", "GenGlueWhits"] + SMOOTH_FIXED,
    "C04": ["C04", "GenNumOptv", "GenNumOptvp", "GenNumOptvpCore", "GenNumOptvplc", "GenNumOptvplcTyx", "GenGlueWhitsvc"] + SMOOTH_V,
    "C05": ["C05", "GenNumWcv", "GenNumWcvp", "GenGlueWhitswcv", "SafeWs2dwcvOk", "SafeWs2dwcvpOk"] + SMOOTH_GCV,
    "C06": ["C06core", "C06"] + SMOOTH_FIXED + SMOOTH_V[:3] + SMOOTH_GCV,
    "C07": ["C07", "GenNumBrent", "GenNumGammafit", "GenNumGammastd", "GenGlueSpi", "GenGlueCalIndices"] + SPI,
    "C08": ["C08", "GenNumGammastd", "GenNumGammastdYxt", "SafeBrentq", "SafeGammafit", "SafeGammastd", "SafeGammastdGrp", "SafeGammastdYxt", "GenGlueSpi"] + SPI,
    "C09": ["C09", "GenNumGammastdGrp", "GenGlueCalIndices", "GenGlueSpi", "GenGlueLinspace", T + "GammastdGrp"],
    "C10": ["C10", "GenKMk", "GenNumMkScore", "GenNumMkVar", "GenNumMkZ", "GenNumMkP", "GenNumMkSens", "GenNumMkTrend", "GenGlueMktrend"] + MK,
    "C11": ["C11", "GenGluePeriod", "GenGlueAnomalies"], "C12": ["C12", "GenNumOptvplcTyx", "GenGlueZonalMean", T + "Ws2doptvplcTyx"], "C13": ["C13"] + ALL_TYPES,
    "C14": ["C14", "SafeRollingSum", "SafeLroo", "SafeMeanGrp", "SafeDoMean", "SafeAutocorrSums", "SafeMkScoreCounts",
            "SafeWs2d", "SafeTinterpolate", "SafeWs2doptv", "SafeWs2dgu", "SafeWs2dpgu", "SafeWs2doptvpCore", "SafeWs2doptvp", "SafeWs2doptvplc",
            "SafeMkSens", "SafeMkVariance", "SafeGammastdGrp", "SafeGammastdYxt", "SafeWs2dwcv", "SafeWs2dwcvOk", "SafeWs2dwcvp", "SafeWs2dwcvpOk"],
    "C15": ["C15", "GenKAC", "GenNumACFloat", "GenNumACInt", "GenNumAC1d", "GenNumACYxt", "GenNumACTyx", "GenNumACWrapInv", "GenGlueAutocorrAcc", T + "Autocorr", T + "AutocorrTyx"],
    "C16": ["C16", "GenKDoMean", "GenKDoMeanB", "GenGlueZonalMean", T + "DoMean"],
    "C17": ["C17", "C17round", "C17float", "GenKRS", "GenKRSround", "GenKMeanGrp", "GenKMeanGrpB", "GenGlueMeanGrp", "GenGlueRollingSumAcc", T + "MeanGrp", T + "RollingSum"],
    "C18": ["C18", "GenKLroo", "GenGlueCroo", "GenGlueLrooAcc", T + "Lroo"], "C19": ["C19", "GenGlueIteragg", "GenGlueWrappers"], "C20": ["C20", "GenNumTI", "GenGlueWhitint", T + "Tinterpolate"],
}


def theorems(path: Path):
    txt = re.sub(r"/-.*?-/", "", path.read_text(), flags=re.S)
    ns, out = [], []
    for ln in txt.split("\n"):
        ln = ln.split("--")[0]
        m = re.match(r"\s*namespace\s+(\S+)", ln)
        if m:
            ns.append(m.group(1))
            continue
        m = re.match(r"\s*end\s+(\S+)", ln)
        if m and ns and ns[-1].split(".")[-1] == m.group(1).split(".")[-1]:
            ns.pop()
            continue
        m = re.match(r"\s*(?:@\[[^\]]*\]\s*)?(?:private\s+|protected\s+)?theorem\s+([^\s:({\[$]+)", ln)
        if m:
            out.append(".".join(ns + [m.group(1)]))
        # Props/Types.lean states one family of theorems per kernel through two command macros
        m = re.match(r"\s*gufunc_family\s+(\S+)\s+documented", ln)
        if m:
            out += [".".join(ns + [f"{p}_{m.group(1)}"]) for p in ("select_agrees_numpy", "loops_reachable", "stores_safe", "outputs_documented",
                                                                 "accumulators_wide", "no_narrow_arith", "casts_safe", "flags_documented",
                                                                 "decorator_documented", "layouts_any")]
        m = re.match(r"\s*njit_family\s+(\S+)\s*$", ln)
        if m:
            out += [".".join(ns + [f"{p}_{m.group(1)}"]) for p in ("stores_safe", "outputs_documented", "accumulators_wide", "no_narrow_arith", "casts_safe",
                                                                 "flags_documented", "decorator_documented")]
    return out


def main():
    res = {}
    for pid, mods in MODULES.items():
        ms, ts = [], []
        for m in mods:
            p = LEAN / "Hdc" / "Props" / f"{m}.lean"
            if p.exists():
                ms.append(f"Hdc.Props.{m}")
                ts += theorems(p)
        if ms:
            res[pid] = dict(modules=ms, theorems=ts)
    (LEAN / "obligations.json").write_text(json.dumps(res, indent=1))
    for k, v in res.items():
        print(k, len(v["theorems"]))


if __name__ == "__main__":
    main()
