"""Worker for C14: run with NUMBA_BOUNDSCHECK=1 in a fresh process. Calls a group of compiled kernels on boundary-sized and random
in-contract inputs; prints one JSON line: {"cases": n, "failures": [...], "unwritten": [...]}."""
import json
import random
import sys
import warnings

import numpy as np

warnings.filterwarnings("ignore")
group, seed, budget = sys.argv[1], int(sys.argv[2]), int(sys.argv[3])
rng = random.Random(seed)
fails, unwritten, ncases = [], [], 0


def series(n, allmissing=False, onevalid=False, nd=-3000):
    y = [rng.randint(0, 5000) for _ in range(n)]
    if allmissing:
        y = [nd] * n
    elif onevalid:
        k = rng.randrange(n)
        y = [nd] * n
        y[k] = 777
    elif rng.random() < 0.5:
        for i in rng.sample(range(n), rng.randint(0, n - 1)):
            y[i] = nd
    return np.array(y, dtype="float64")


KINDS = ("rand", "allmissing", "onevalid", "const", "linear", "constgap", "lineargap")


def series_kind(n, kind, nd=-3000):
    """the random family plus the DEGENERATE shapes on which residuals vanish exactly (constant / exactly linear series, with and without
    gaps): iterations that stop early, MADs of zero, perfect fits - the paths on which a result table can end up shorter than the code
    after the loop assumes"""
    if kind in ("rand", "allmissing", "onevalid"):
        return series(n, kind == "allmissing", kind == "onevalid", nd)
    y = [50.0] * n if kind.startswith("const") else [100.0 + 7.0 * i for i in range(n)]
    if kind.endswith("gap") and n > 2:
        for i in rng.sample(range(n), min(n - 1, max(1, n // 4))):
            y[i] = nd
    return np.array(y, dtype="float64")


def attempt(name, inp, fn):
    global ncases
    ncases += 1
    try:
        return fn()
    except (IndexError, SystemError) as e:
        # inside a parallel region Numba surfaces the bounds-check IndexError as SystemError("... returned a result with an exception set")
        fails.append(dict(kernel=name, input=inp, error=repr(e)))
    except ZeroDivisionError:
        pass   # not an index error (degenerate numeric input); judged by other properties
    return None


def twice(name, inp, call, shapes_dtypes):
    """call(outs) with output buffers prefilled with two different garbage patterns: every cell must be written"""
    res = []
    for fill in (1234, -77):
        outs = [np.full(s, fill, dtype=dt) for s, dt in shapes_dtypes]
        r = attempt(name, inp, lambda: call(outs))
        if r is None:
            return
        res.append([np.array(o) for o in outs])
    for a, b in zip(*res):
        if not np.array_equal(a, b, equal_nan=a.dtype.kind == "f"):
            unwritten.append(dict(kernel=name, input=inp, first=np.atleast_1d(a).tolist()[:12], second=np.atleast_1d(b).tolist()[:12]))


from hdc.algo import ops  # noqa: E402
from hdc.algo.ops import stats  # noqa: E402

sizes = [2, 3, 4, 5, 6, 10]
if group == "smooth1":
    from hdc.algo.ops.ws2d import ws2d
    for n in sizes + [rng.randint(7, 60) for _ in range(budget)]:
        y = series(n)
        w = (y != -3000).astype("float64")
        attempt("ws2d", dict(n=n), lambda: ws2d(y, 10.0, w))
        for kind in KINDS:
            yy = series_kind(n, kind)
            inp = dict(y=yy.tolist(), kind=kind)
            twice("ws2dgu", inp, lambda o: ops.ws2dgu(yy, 10.0, -3000.0, out=o[0]), [((n,), "int16")])
            twice("ws2dpgu", inp, lambda o: ops.ws2dpgu(yy, 10.0, -3000.0, 0.9, out=o[0]), [((n,), "int16")])
elif group == "smooth2":
    for n in sizes + [rng.randint(7, 40) for _ in range(budget)]:
        for nl in (2, 3, rng.randint(4, 20)):
            sr = np.arange(nl) * 0.5 - 1
            for kind in KINDS:
                yy = series_kind(n, kind)
                inp = dict(y=yy.tolist(), srange=sr.tolist(), kind=kind)
                twice("ws2doptv", inp, lambda o: ops.ws2doptv(yy, -3000.0, sr, out=(o[0], o[1])), [((n,), "int16"), ((), "float64")])
                twice("ws2doptvp", inp, lambda o: ops.ws2doptvp(yy, -3000.0, 0.9, sr, out=(o[0], o[1])), [((n,), "int16"), ((), "float64")])
        yy = series(n)
        lc = rng.choice([0.9, 0.1])
        twice("ws2doptvplc", dict(y=yy.tolist(), lc=lc), lambda o: ops.ws2doptvplc(yy.astype("int16"), -3000.0, 0.9, lc, out=(o[0], o[1])), [((n,), "int16"), ((), "float64")])
elif group == "smooth3":
    for n in sizes + [rng.randint(7, 40) for _ in range(budget)]:
        for nl in (2, 3, rng.randint(4, 12)):
            sr = np.arange(nl) * 0.5 - 1
            for kind in KINDS:
                yy = series_kind(n, kind)
                inp = dict(y=yy.tolist(), srange=sr.tolist(), kind=kind)
                for rob in (False, True):
                    twice("ws2dwcv", dict(inp, robust=rob), lambda o: ops.ws2dwcv(yy, -3000.0, sr, rob, out=(o[0], o[1])), [((n,), "int16"), ((), "float64")])
                    twice("ws2dwcvp", dict(inp, robust=rob), lambda o: ops.ws2dwcvp(yy, -3000.0, 0.9, sr, rob, out=(o[0], o[1])), [((n,), "int16"), ((), "float64")])
    from hdc.algo.ops.ws2doptvplc import ws2doptvplc_tyx
    for shape in ((2, 1, 1), (5, 1, 1), (5, 2, 3), (12, 3, 2)):
        cube = np.array([rng.choice([-3000, rng.randint(0, 5000)]) for _ in range(int(np.prod(shape)))], dtype="int16").reshape(shape)
        attempt("ws2doptvplc_tyx", dict(shape=list(shape)), lambda: ws2doptvplc_tyx(cube, 0.9, -3000))
elif group == "stats":
    for n in [1, 2, 3, 5, 10] + [rng.randint(4, 60) for _ in range(budget)]:
        x = np.array([rng.choice([-9999, rng.randint(0, 100)]) for _ in range(n)], dtype="int16")
        for w in sorted({1, n, max(1, n // 2), max(1, n - 1)}):
            twice("rolling_sum", dict(x=x.tolist(), window=w), lambda o: stats.rolling_sum(x, float(w), -9999.0, out=o[0]), [((n,), "float32")])
        for k in sorted({1, min(2, n), n}):
            g = np.array([i % k for i in range(n)], dtype="int16")
            rng.shuffle(g)
            twice("mean_grp", dict(x=x.tolist(), groups=g.tolist()), lambda o: stats.mean_grp(x, g, float(len(set(g.tolist()))), -9999.0, out=o[0]), [((n,), "float32")])
            if n >= 2 * k and k >= 1:
                ng = len(set(g.tolist()))
                cal = np.array([[0, int((g == i).sum())] for i in range(ng)], dtype="int16")
                twice("gammastd_grp", dict(x=x.tolist(), groups=g.tolist()), lambda o: stats.gammastd_grp(x, g, float(ng), -9999.0, cal, out=o[0]), [((n,), "int16")])
        if n >= 2:
            xf = x.astype("float32")
            attempt("mk", dict(x=x.tolist()), lambda: stats._mann_kendall_trend_gu(xf))
            attempt("mk_nd", dict(x=x.tolist()), lambda: stats._mann_kendall_trend_gu_nd(x, -9999.0))
        cube = x.astype("float64").reshape(1, 1, n)
        for cs, ce in ((0, n), (0, max(1, n // 2)), (n // 2, n)):
            attempt("gammastd_yxt", dict(x=x.tolist(), cal=[cs, ce]), lambda: stats.gammastd_yxt(cube, -9999.0, cs, ce))
        twice("lroo", dict(x=(x > 50).astype(int).tolist()), lambda o: ops.lroo((x > 50).astype("uint8"), out=o[0]), [((), "int32")])
elif group == "raster":
    from hdc.algo.ops.autocorr import autocorr, autocorr_tyx
    from hdc.algo.ops.zonal import do_mean
    for shape in [(1, 1, 1), (1, 1, 2), (2, 1, 1), (3, 2, 2), (2, 5, 4)] + [(rng.randint(1, 4), rng.randint(1, 9), rng.randint(1, 9)) for _ in range(budget)]:
        t, r, c = shape
        for nz in (1, 2, rng.randint(3, 7)):
            pix = np.array([rng.choice([-9999, rng.randint(0, 100)]) for _ in range(t * r * c)], dtype="int16").reshape(shape)
            zones = np.array([rng.choice([255, rng.randrange(nz)]) for _ in range(r * c)], dtype="uint8").reshape(r, c)
            attempt("do_mean", dict(shape=list(shape), zones=zones.tolist(), num_zones=nz), lambda: do_mean(pix, zones, nz, -9999, 255))
        cube = np.array([rng.choice([-3000, rng.randint(0, 5000)]) for _ in range(t * r * c)], dtype="int16").reshape(shape)
        attempt("autocorr_tyx", dict(shape=list(shape)), lambda: autocorr_tyx(cube, -3000))
        attempt("autocorr", dict(shape=list(shape)), lambda: autocorr(np.ascontiguousarray(np.moveaxis(cube, 0, -1)), -3000))
        attempt("autocorr_float", dict(shape=list(shape)), lambda: autocorr_tyx(cube.astype("float64")))
    # tinterpolate: contiguous labels, template >= 4, as many marks as observations
    for nobs in [1, 2, 3, 5] + [rng.randint(4, 40) for _ in range(budget)]:
        step = rng.choice([1, 2, 5, 10])
        ndays = max(4, (nobs - 1) * step + rng.randint(1, 6))
        tmpl = np.zeros(ndays)
        marks = sorted(rng.sample(range(ndays), nobs)) if rng.random() < .5 or (nobs - 1) * step >= ndays else [i * step for i in range(nobs)]
        tmpl[marks] = 1
        per = rng.choice([1, 3, 10, ndays])
        labels = (np.arange(ndays) // per).astype("int32")
        nruns = int(1 + np.count_nonzero(np.diff(labels)))
        x = np.array([rng.randint(0, 9000) for _ in range(nobs)], dtype="int16")
        twice("tinterpolate", dict(nobs=nobs, days=ndays, marks=marks[:20], period=per),
              lambda o: ops.tinterpolate(x, tmpl, labels, np.zeros(nruns, dtype="u1"), out=o[0]), [((nruns,), "int16")])
else:
    raise SystemExit("unknown group")
print(json.dumps(dict(cases=ncases, failures=fails[:5], nfail=len(fails), unwritten=unwritten[:5], nunwritten=len(unwritten))))
