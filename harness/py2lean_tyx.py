#!/venv/bin/python
"""py2lean_tyx: translate `hdc/algo/ops/ws2doptvplc.py::ws2doptvplc_tyx` (the only parallel kernel; Python source, via `ast`,
statement by statement) into imperative Lean 4 -> lean/Hdc/Gen/NumWs2doptvplcTyx.lean (Hdc.Gen.NumKernels.ws2doptvplc_tyx).
`Hdc/Props/GenNumOptvplcTyx.lean` proves that, pixel by pixel, the generated program computes the hand model `Hdc.optvplc`.

The translator class is `py2lean_ac.KA` (mixed Int/α typing, n-d arrays flattened with their dimensions, specialised callees);
nothing is added here except the declaration of the kernel:

  * `numba.prange(nr)` is translated as `range(nr)` (`prange_as_range`).  That the iterations of the parallel loop are
    independent (every iteration writes only the cells `zz[:, rr, :]`, `lopts[rr, :]` of its own row and its own locals) is NOT
    a consequence of this translation: it is proved separately in Hdc/Props/C12.lean from the effect summary of the kernel
    (harness/summarise_effects.py -> Hdc/Gen/Effects.lean).  The sequential order is one of the schedules.
  * types, as Numba's for the documented use (`tyx` an integer cube, integer `nodata`): `tyx`, `zz`, `xx_raw` : Array Int;
    `xx`, `ww`, `lopts`, the grids : Array α; `np.round(_xx, 0, zz[:, rr, cc])` rounds AND casts to the integer cell type:
    `rnd : α → Int` is a parameter.  A float cube / float nodata is outside this specialisation (there `autocorr_1d_int` asserts).
  * the two `np.arange` grids: `arange : α → α → α → Array α` is a parameter (as for ws2doptvplc, py2lean_optvp.py); the float
    literals 0.5, 1.2, 0.2, 3.2 are parameters; `x ** -0.5` and `1e-8` of the autocorrelation are `rsqrt`, `eps`.
  * callees: `autocorr_1d` -> `autocorr_1d_nd` (py2lean_ac.py), `_ws2doptvp` -> `ws2doptvpCore` (py2lean_optvp.py).
"""
import sys
from pathlib import Path

sys.path.insert(0, str(Path(__file__).resolve().parent))
import py2lean_ac as ac  # noqa: E402

TOOL = "py2lean_tyx"

MODULES = [
    ("NumWs2doptvplcTyx", [
        dict(name="ws2doptvplc_tyx", file="hdc/algo/ops/ws2doptvplc.py", func="ws2doptvplc_tyx",
             params=[("tyx", "arrint"), ("p", "num"), ("nodata", "int")], dims={"tyx": ["tyx_d0", "tyx_d1", "tyx_d2"]},
             consts={"0.5": "c0_5", "1.2": "c1_2", "0.2": "c0_2", "3.2": "c3_2"},
             extra="(F : VFns α) (rnd : α → Int) (rsqrt : α → α) (eps : α) (arange : α → α → α → Array α) (c0_5 c1_2 c0_2 c3_2 : α)",
             uses="[IntCast α]", ret=None, rty="Array Int × Array α", ret_types=["arrint", "arrnum"], prange_as_range=True,
             locals={"xx_raw": "arrint", "xx": "arrnum", "ww": "arrnum", "llas": "arrnum", "u_xx": "arrnum", "u_lopts": "num"},
             imports=["Hdc.PyNpT", "Hdc.PyNpX", "Hdc.Gen.NumAutocorr1d", "Hdc.Gen.NumWs2doptvpCore"],
             spec_calls={"autocorr_1d": ac.CALL_1D}, calls={"_ws2doptvp": ("ws2doptvpCore F", ["arrnum", "num"])})]),
]

if __name__ == "__main__":
    sys.exit(ac.run(MODULES, TOOL, set(sys.argv[1:])))
