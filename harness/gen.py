"""Seeded structured generators shared by the property checks."""
import math

import numpy as np


def lengths(rng, small=False):
    if small:
        return rng.choice([4, 5, 6, 7, 8, 10, 12, 16, 24, 36])
    return rng.choice([4, 5, 6, 8, 10, 16, 24, 36, 36, 72, 100, 144, 255, 256, 257, 400])


def ndvi_like(rng, n, lo=0, hi=9000):
    ph = rng.random() * 2 * math.pi
    per = rng.choice([12, 23, 36, 72])
    amp = rng.uniform(200, (hi - lo) / 2)
    base = rng.uniform(lo + amp, hi - amp)
    noise = rng.choice([0, 20, 150, 600])
    return [int(round(base + amp * math.sin(ph + 2 * math.pi * i / per) + rng.gauss(0, noise))) for i in range(n)]


def rain_like(rng, n, pzero=None):
    pz = rng.choice([0.0, 0.1, 0.4, 0.8]) if pzero is None else pzero
    shape = rng.choice([0.3, 1.0, 2.5, 8.0])
    scale = rng.choice([1.0, 10.0, 60.0])
    return [0 if rng.random() < pz else int(round(rng.gammavariate(shape, scale))) for _ in range(n)]


def series(rng, n, kind=None, maxabs=10000):
    kind = kind or rng.choice(["ndvi", "ndvi", "rain", "const", "linear", "step", "spikes", "sign", "walk", "smallint"])
    if kind == "ndvi":
        y = ndvi_like(rng, n)
    elif kind == "rain":
        y = rain_like(rng, n)
    elif kind == "const":
        y = [rng.choice([0, 1, 512, -37, 9999])] * n
    elif kind == "linear":
        a, b = rng.randint(-2000, 2000), rng.randint(-20, 20)
        y = [a + b * i for i in range(n)]
    elif kind == "step":
        k = rng.randrange(1, n)
        a, b = rng.randint(-3000, 3000), rng.randint(-3000, 3000)
        y = [a] * k + [b] * (n - k)
    elif kind == "spikes":
        base = rng.randint(-1000, 5000)
        y = [base] * n
        for _ in range(max(1, n // 10)):
            y[rng.randrange(n)] = base + rng.choice([-1, 1]) * rng.randint(100, 4000)
    elif kind == "sign":
        y = [rng.randint(-3000, 3000) for _ in range(n)]
    elif kind == "walk":
        v, y = rng.randint(-500, 500), []
        for _ in range(n):
            v += rng.randint(-300, 300)
            y.append(v)
    else:
        y = [rng.randint(-3, 3) for _ in range(n)]
    return [max(-maxabs, min(maxabs, int(v))) for v in y]


def gaps(rng, n, min_valid=0):
    """A validity mask (True = valid) drawn from the gap families of the brief."""
    kind = rng.choice(["none", "isolated", "runs", "leading", "trailing", "allbutk", "half"])
    m = [True] * n
    if kind == "isolated":
        for _ in range(max(1, n // 8)):
            m[rng.randrange(n)] = False
    elif kind == "runs":
        for _ in range(rng.randint(1, 3)):
            a = rng.randrange(n)
            for i in range(a, min(n, a + rng.randint(1, max(1, n // 3)))):
                m[i] = False
    elif kind == "leading":
        for i in range(rng.randint(1, max(1, n // 2))):
            m[i] = False
    elif kind == "trailing":
        for i in range(rng.randint(1, max(1, n // 2))):
            m[n - 1 - i] = False
    elif kind == "allbutk":
        k = rng.randint(0, min(6, n))
        keep = set(rng.sample(range(n), k))
        m = [i in keep for i in range(n)]
    elif kind == "half":
        m = [rng.random() < 0.5 for _ in range(n)]
    if sum(m) < min_valid:
        idx = [i for i in range(n) if not m[i]]
        rng.shuffle(idx)
        for i in idx[: min_valid - sum(m)]:
            m[i] = True
    return m


def placeholder(rng, y):
    """A nodata value not colliding with any data value: below / inside / above the data range."""
    lo, hi = min(y), max(y)
    kind = rng.choice(["below", "above", "inside", "std"])
    if kind == "std":
        for c in (-3000, -9999, 0, 255):
            if c not in y:
                return c
    if kind == "inside":
        for _ in range(50):
            c = rng.randint(lo, hi) if lo < hi else lo + 1
            if c not in y:
                return c
    if kind == "above":
        return hi + rng.randint(1, 5000)
    return lo - rng.randint(1, 5000)


def lam(rng, lo=-3, hi=5):
    k = rng.uniform(lo, hi)
    return rng.choice([10.0 ** round(k), 10.0 ** k, float(rng.choice([1, 2, 5, 10, 100, 1000]))])


def srange(rng):
    """uniform ascending grid of log10(lambda); lambda stays within 1e-4 .. 1e8 (beyond ~1e12 the float64 solver breaks down)"""
    n = rng.choice([2, 3, 4, 8, 16, 21, 30, 40])
    step = rng.choice([0.2, 0.2, 0.5, 1.0, 0.1, 0.25])
    while (n - 1) * step > 10:
        step /= 2
    start = rng.choice([-2.0, -1.8, -1.0, 0.0, 0.3, -3.0])
    start = min(start, 8.0 - (n - 1) * step)
    return list(np.arange(n) * step + start)
