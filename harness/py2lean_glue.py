#!/venv/bin/python
"""py2lean_glue: translate the pure-Python CONTROL LOGIC of the accessor / utility layer of hdc-algo (hdc/algo/accessors.py,
hdc/algo/utils.py) statement by statement (via `ast`) into Lean 4 programs in the monad `Except Exc` (prelude: the
hand-written Hdc/PyGlue.lean).  pandas / xarray / NumPy calls are explicit PARAMETERS of the generated programs.

Output: one module per Python function, lean/Hdc/Gen/Glue<Name>.lean (namespace Hdc.Gen.Glue), the sha256 of the function
source in the header.  Hdc/Props/GenGlue<Name>.lean prove the generated programs equal to the hand-written models
(Hdc/Model/Discrete.lean) under explicit hypotheses about the library parameters.

What is translated and how
  * A Python exception is `Except.error`: `raise ValueError(..)` -> `raise Exc.valueError` (the message is dropped; `from None`
    is dropped); `assert c, msg` -> `if !c then raise Exc.assertionError`; `assert isinstance(x, np.ndarray)` is checked
    against the static type of `x` and dropped.
  * `try: x = E  except KeyError: <stmts ending in raise>` -> `x <- tryExcept (do pure E) (fun exc => if exc == Exc.keyError then
    .. else raise exc)` (one assignment in the body, every handler must end in `raise`; anything else is Unsupported).
  * A generator (`yield v`) returns the list of the yielded values in order.
  * `Optional[T]` values are `Option T`: `x is None` -> `x.isNone`; `==` / `!=` compare at `Option` (never raise, as in Python);
    arithmetic and ordering on an optional go through `intOf` (TypeError on None, as in Python); assigning a `T` to an optional
    variable wraps it in `some`.  The truth value of an optional (`if begin:`) is NOT translated (Unsupported: it depends on the
    dynamic type of the label: 0, 0.0, "" are falsy).
  * LIBRARY expressions are declared per function as patterns with metavariables (`_index.get_indexer([$x], method=method)`):
    an expression that matches a pattern becomes an application of a PARAMETER of the generated function to the translated
    metavariable arguments; `raises=True` parameters return `Except Exc _`.  The literal part of a pattern may only mention names
    that are never assigned in the function (parameters such as `self`, `dim`, `method`) or the function's declared opaque locals
    (`_index`): the value of the expression then depends only on the metavariable arguments.  Any change of the literal part
    of a library call makes the pattern fail (-> Unsupported) instead of being silently absorbed.
  * STATIC specialisation on optional parameters (`static={"groups": "none"}` / `{"groups": "given:<type>"}`): one Lean
    function per variant; `groups is None` tests are decided at translation time and only the live branch is emitted.  Calls to
    translated functions pick the variant from the call's arguments.
  * NumPy / container idioms with a FIXED meaning on the list representation (Hdc/PyGlue.lean): element-wise comparisons
    (`groups == ix`, `x > index[-1:]`, `t[:, 0] >= t[:, 1]`, `keys[idx] == x`), boolean-mask selection `a[mask]` and assignment
    `a[mask] = v`, fancy indexing `a[idx]`, `a[i]`, `a[lo:hi]`, `t[:, j]`, the truth value of a one-element array, `np.any`,
    `np.all`, `np.diff(t, axis=1)`, `np.where(mask, a, scalar)`, `np.unique` (= the model's `Py.unique`), `np.arange`, `a.sort()`,
    `abs`, `len`, `.size`; per function declared IDENTITIES on the representation (`$a.ravel()`, `$a.values`, `list($a)`);
    list comprehensions over `range` (desugared to a loop that appends), `for .. in range(a, b[, +-1])` with `break` /
    `continue`, local function definitions, tuple unpacking, `if (x := E) is None`.
  * EFFECTS (anything that may raise: library parameters with `raises=True`, `a[i]`, masks, `intOf`, calls of translated or local
    functions) are bound to fresh names `__tK` in front of the statement IN PYTHON'S EVALUATION ORDER (A-normal form), so that no
    two effects are ever reordered.  Short-circuit operands (`a and b`, `a or b`) must not contain an effect after the first
    operand (Unsupported).
  * A name first assigned inside a block and read after it is pre-declared with a default value of its type (abstract
    types: `default`, instance argument `[Inhabited T]`).  A name re-bound with a different type gets a fresh Lean name
    (`groups` -> `groups_12`); re-bound inside a nested block it must not be used after that block (Unsupported).
Everything else raises Unsupported: `FAILED Hdc.Gen.Glue<Name>: reason`, exit code 1 (the previous output is left in place).
"""
import ast
import hashlib
import os
import re
import sys
from pathlib import Path

REPO = Path(os.environ.get("HDC_REPO", "/repo"))
GEN = Path(__file__).resolve().parent.parent / "lean" / "Hdc" / "Gen"
TOOL = "harness/py2lean_glue.py"


class Unsupported(Exception):
    pass


# ------------------------------------------------------------------------------------------------- types
# "int" | "bool" | "str" | "unit" | ("opt", T) | ("list", T) | ("tuple", (T, ..)) | ("abs", Name) | ("single", T)

def parse_type(s):
    s = s.strip()
    m = re.fullmatch(r"(\w+)\[(.*)\]", s)
    if m:
        head, inner = m.group(1), m.group(2)
        if head in ("opt", "list", "single"):
            return (head, parse_type(inner))
        if head == "tuple":
            parts, depth, cur = [], 0, ""
            for ch in inner:
                if ch == "," and depth == 0:
                    parts.append(cur)
                    cur = ""
                else:
                    depth += ch == "["
                    depth -= ch == "]"
                    cur += ch
            parts.append(cur)
            return ("tuple", tuple(parse_type(p) for p in parts))
        raise Unsupported(f"type {s}")
    if s.startswith("abs:"):
        return ("abs", s[4:])
    if s in ("int", "bool", "str", "unit"):
        return s
    raise Unsupported(f"type {s}")


def lean_type(t, top=True):
    if t == "int":
        return "Int"
    if t == "bool":
        return "Bool"
    if t == "str":
        return "String"
    if t == "unit":
        return "Unit"
    k, a = t
    if k == "opt":
        r = "Option " + lean_type(a, False)
    elif k == "list":
        r = "List " + lean_type(a, False)
    elif k == "single":
        return lean_type(a, top)
    elif k == "abs":
        return a
    elif k == "tuple":
        r = " × ".join(lean_type(x, False) for x in a)
    else:
        raise Unsupported(f"type {t}")
    return r if top else f"({r})"


def abs_names(t, acc=None):
    acc = [] if acc is None else acc
    if isinstance(t, tuple):
        if t[0] == "abs":
            if t[1] not in acc:
                acc.append(t[1])
        elif t[0] == "tuple":
            for x in t[1]:
                abs_names(x, acc)
        else:
            abs_names(t[1], acc)
    return acc


def subst_type(t, sub):
    if isinstance(t, tuple):
        if t[0] == "abs":
            return sub.get(t[1], t)
        if t[0] == "tuple":
            return ("tuple", tuple(subst_type(x, sub) for x in t[1]))
        return (t[0], subst_type(t[1], sub))
    return t


def unify(formal, actual, sub):
    """bind the abstract types of `formal` so that it equals `actual` (one-way); returns False on mismatch"""
    if isinstance(formal, tuple) and formal[0] == "abs":
        if formal[1] in sub:
            return sub[formal[1]] == actual
        sub[formal[1]] = actual
        return True
    if isinstance(formal, tuple) and isinstance(actual, tuple) and formal[0] == actual[0]:
        if formal[0] == "tuple":
            return len(formal[1]) == len(actual[1]) and all(unify(f, a, sub) for f, a in zip(formal[1], actual[1]))
        return unify(formal[1], actual[1], sub)
    return formal == actual


LEAN_KEYWORDS = {"end", "from", "at", "in", "do", "then", "fun", "match", "with", "open", "let", "have", "show", "if", "else",
                 "for", "by", "Type", "Prop", "section", "namespace", "instance", "where", "deriving", "mut", "return",
                 "theorem", "def", "example", "structure", "class", "import", "variable", "universe", "local", "private",
                 "protected", "mutual", "macro", "syntax", "notation", "infix", "prefix", "postfix", "set_option", "attribute",
                 "export", "extends", "using", "calc", "exists", "forall", "true", "false"}


def ident(name):
    return f"«{name}»" if name in LEAN_KEYWORDS else name


EXC = {"ValueError": "valueError", "KeyError": "keyError", "AssertionError": "assertionError", "TypeError": "typeError",
       "IndexError": "indexError", "OverflowError": "overflowError", "MissingTimeError": "missingTimeError",
       "NotImplementedError": "notImplementedError"}


# ------------------------------------------------------------------------------------------------- library patterns
class Lib:
    """a library expression: `pattern` (Python source, `$x` = metavariable) -> parameter `name` of the generated function"""

    def __init__(self, name, pattern, args=None, ret="int", raises=False, mutates=None, doc=""):
        self.name, self.pattern, self.raises, self.mutates, self.doc = name, pattern, raises, mutates, doc
        self.args = [(k, parse_type(v)) for k, v in (args or {}).items()]
        self.ret = parse_type(ret)
        self.node = normalise(ast.parse(re.sub(r"\$(\w+)", r"__mv_\1", pattern), mode="eval").body)
        mvs = {n.id[5:] for n in ast.walk(self.node) if isinstance(n, ast.Name) and n.id.startswith("__mv_")}
        if mvs != {k for k, _ in self.args}:
            raise Unsupported(f"library pattern {name}: metavariables {sorted(mvs)} vs declared arguments")
        self.literal_names = {n.id for n in ast.walk(self.node) if isinstance(n, ast.Name) and not n.id.startswith("__mv_")
                              and n.id != mutates}

    def lean_sig(self, sub=None):
        sub = sub or {}
        parts = [lean_type(subst_type(t, sub), False) for _, t in self.args]
        if self.mutates:
            parts = [lean_type(subst_type(self.ret, sub), False)] + parts
        r = lean_type(subst_type(self.ret, sub), False)
        if self.raises:
            r = f"Except Exc {r}"
        return " → ".join(parts + [r])


def normalise(node):
    """`a not in b` -> `not (a in b)`, `a is not b` stays; used on both patterns and source before matching"""
    class T(ast.NodeTransformer):
        def visit_Compare(self, n):
            self.generic_visit(n)
            if len(n.ops) == 1 and isinstance(n.ops[0], ast.NotIn):
                return ast.UnaryOp(op=ast.Not(), operand=ast.Compare(left=n.left, ops=[ast.In()], comparators=n.comparators))
            return n
    return T().visit(node)


def match(pat, node, binds):
    if isinstance(pat, ast.Name) and pat.id.startswith("__mv_"):
        k = pat.id[5:]
        if k in binds:
            return ast.dump(binds[k]) == ast.dump(node)
        binds[k] = node
        return True
    if type(pat) is not type(node):
        return False
    for f, pv in ast.iter_fields(pat):
        if f == "ctx":
            continue
        nv = getattr(node, f, None)
        if isinstance(pv, list):
            if not isinstance(nv, list) or len(pv) != len(nv):
                return False
            for a, b in zip(pv, nv):
                if isinstance(a, ast.AST):
                    if not match(a, b, binds):
                        return False
                elif a != b:
                    return False
        elif isinstance(pv, ast.AST):
            if not isinstance(nv, ast.AST) or not match(pv, nv, binds):
                return False
        elif pv != nv:
            return False
    return True


# ------------------------------------------------------------------------------------------------- translation of one variant
REGISTRY = {}          # python function name -> list of translated variants (for calls between translated functions)


class Variant:
    def __init__(self, lean_name, static, params, libs, ret, abs_order, inhabited, module):
        self.lean_name, self.static, self.params, self.libs, self.ret = lean_name, static, params, libs, ret
        self.abs_order, self.inhabited, self.module = abs_order, inhabited, module


class G:
    def __init__(self, cfg, fn, variant, types_hint=None):
        self.cfg, self.fn, self.variant = cfg, fn, variant
        self.static = dict(variant.get("static") or {})
        self.libs = list(cfg.get("libs") or [])
        self.opaque_params = {k for k, v in cfg["params"].items() if v == "opaque"}
        self.opaque_locals = dict(cfg.get("opaque_locals") or {})
        self.attr_identity = set(cfg.get("attr_identity") or [])
        self.identities = [normalise(ast.parse(re.sub(r"\$(\w+)", r"__mv_\1", p), mode="eval").body)
                           for p in (cfg.get("identities") or [])]
        self.ordered = set(cfg.get("ordered_abs") or [])
        self.vars = {}                 # name -> type of the live binding
        self.static_state = {}         # name -> "none" | "given" for statically known optionals
        self.poisoned = set()
        self.alias = {}                # python name -> Lean name, for a name re-bound with another type (`groups` -> `groups_1`)
        self.block_rebinds = [set()]
        self.lines = []
        self.pre = []                  # pending lines (relative indent, text) emitted in front of the current statement
        self.fresh = 0
        self.effect = False            # set when an effectful `(← ..)` term is produced
        self.used_libs = []            # (name, lean signature, doc/pattern) in order of first use
        self.imports = []
        self.inhabited = []
        self.ret_type = None
        self.is_gen = any(isinstance(n, (ast.Yield, ast.YieldFrom)) for n in ast.walk(fn))
        self.yield_type = parse_type(cfg["yields"]) if self.is_gen else None
        self.types_hint = types_hint or {}          # first pass: name -> type of its first assignment
        self.first_type = {}
        self.skipped = []
        self.local_fns = {}
        self.assigned = self.assigned_names(fn)
        self.check_patterns()
        # parameters
        self.py_params = []
        for a in fn.args.args:
            nm = a.arg
            if nm == "self":
                continue
            kind = cfg["params"].get(nm)
            if kind is None:
                raise Unsupported(f"parameter {nm} has no declared kind")
            if kind == "opaque":
                continue
            st = self.static.get(nm)
            if st == "none":
                self.static_state[nm] = "none"
                self.vars[nm] = ("opt", "unit")
                continue
            if st is not None and st.startswith("given:"):
                t = parse_type(st[6:])
                self.static_state[nm] = "given"
            else:
                t = parse_type(kind)
            self.vars[nm] = t
            self.py_params.append((nm, t))

    # ---- checks on the whole function
    @staticmethod
    def assigned_names(fn):
        out = {}
        for n in ast.walk(fn):
            if isinstance(n, ast.Name) and isinstance(n.ctx, ast.Store):
                out[n.id] = out.get(n.id, 0) + 1
        return out

    def check_patterns(self):
        for lib in self.libs:
            for nm in lib.literal_names:
                if nm in self.assigned and nm not in self.opaque_locals:
                    raise Unsupported(f"library pattern {lib.name}: the name {nm} of its literal part is assigned in the function")
        for nm in self.opaque_locals:
            if self.assigned.get(nm, 0) != 1:
                raise Unsupported(f"opaque local {nm} must be assigned exactly once")

    # ---- emission
    def emit(self, ind, txt):
        for rel, t in self.pre:
            self.lines.append("  " * (ind + rel) + t)
        self.pre = []
        self.lines.append("  " * ind + txt)

    def lname(self, nm):
        return ident(self.alias.get(nm, nm))

    def new(self, stem):
        self.fresh += 1
        return f"__{stem}{self.fresh}"

    def hoist(self, term, t, stem="t", bind=False):
        nm = self.new(stem)
        self.pre.append((0, f"let {nm} : {lean_type(t)} {'←' if bind else ':='} {term}"))
        return nm

    def eff(self, app, t):
        """an effectful application (may raise): bound to a fresh name IN EVALUATION ORDER in front of the current statement
        (A-normal form), so that hoisting never reorders two effects"""
        self.effect = True
        nm = self.new("t")
        self.pre.append((0, f"let {nm} : {lean_type(t)} ← {app}"))
        return nm

    def default(self, t):
        if t == "int":
            return "(0 : Int)"
        if t == "bool":
            return "false"
        if t == "str":
            return '""'
        if t == "unit":
            return "()"
        k, a = t
        if k == "opt":
            return "none"
        if k == "list":
            return "[]"
        if k == "single":
            return self.default(a)
        if k == "tuple":
            return "(" + ", ".join(self.default(x) for x in a) + ")"
        if k == "abs":
            if a not in self.inhabited:
                self.inhabited.append(a)
            return "default"
        raise Unsupported(f"default of {t}")

    # ---- library patterns
    def try_lib(self, e, want_mutates=False):
        en = normalise(_copy(e))
        for lib in self.libs:
            if bool(lib.mutates) != want_mutates:
                continue
            binds = {}
            if match(lib.node, en, binds):
                return lib, binds
        return None

    def use_lib(self, lib, sub=None):
        sig = lib.lean_sig(sub)
        for nm, s, _ in self.used_libs:
            if nm == lib.name:
                if s != sig:
                    raise Unsupported(f"library parameter {nm} used at two types")
                return
        self.used_libs.append((lib.name, sig, f"`{lib.pattern}`" + (f": {lib.doc}" if lib.doc else "")))
        for t in [x for _, x in lib.args] + [lib.ret]:
            for a in abs_names(t):
                self.note_abs(a)

    def note_abs(self, a):
        if a not in self.abs_order:
            self.abs_order.append(a)

    def lib_call(self, lib, binds):
        args = []
        for k, t in lib.args:
            term, at = self.expr(binds[k])
            args.append(self.coerce(term, at, t, f"argument {k} of {lib.name}"))
        self.use_lib(lib)
        return args

    # ---- coercions
    def coerce(self, term, have, want, what):
        if have == want:
            return term
        if isinstance(want, tuple) and want[0] == "opt" and have == want[1]:
            return f"(some {term})"
        if isinstance(have, tuple) and have[0] == "opt" and have[1] == want and want == "int":
            return self.eff(f"intOf {term}", "int")
        raise Unsupported(f"{what}: have {have}, want {want}")

    def as_int(self, e):
        term, t = self.expr(e)
        if t == "int":
            return term
        if t == ("opt", "int"):
            return self.eff(f"intOf {term}", "int")
        raise Unsupported(f"integer expected, got {t}: {ast.unparse(e)[:60]}")

    def pure_term(self, term, t):
        """a term usable inside a `fun`: effects are already bound to names (A-normal form)"""
        if "←" in term:
            raise Unsupported("internal: effect inside a pure term")
        return term

    # ---- expressions: returns (term, type)
    def expr(self, e):
        if isinstance(e, ast.Compare) and len(e.ops) == 1 and isinstance(e.ops[0], ast.NotIn):
            e = ast.UnaryOp(op=ast.Not(), operand=ast.Compare(left=e.left, ops=[ast.In()], comparators=e.comparators))
        for pat in self.identities:        # declared identities on the representation (`x.ravel()` on a 1-d array ..)
            binds = {}
            if match(pat, normalise(_copy(e)), binds) and set(binds) == {"a"}:
                term, t = self.expr(binds["a"])
                if not (isinstance(t, tuple) and t[0] == "list"):
                    raise Unsupported(f"identity pattern on a value of type {t}")
                return term, t
        hit = self.try_lib(e)
        if hit:
            lib, binds = hit
            args = self.lib_call(lib, binds)
            app = " ".join([lib.name] + args)
            if lib.raises:
                return self.eff(app, lib.ret), lib.ret
            return (f"({app})" if args else lib.name), lib.ret
        if isinstance(e, ast.Constant):
            v = e.value
            if v is None:
                return "none", ("opt", "unit")
            if isinstance(v, bool):
                return ("true" if v else "false"), "bool"
            if isinstance(v, int):
                return (f"({v} : Int)" if v >= 0 else f"(-{-v} : Int)"), "int"
            if isinstance(v, str):
                if '"' in v or "\\" in v:
                    raise Unsupported("string literal")
                return f'"{v}"', "str"
            raise Unsupported(f"constant {v!r}")
        if isinstance(e, ast.Name):
            return self.name(e.id)
        if isinstance(e, ast.UnaryOp):
            if isinstance(e.op, ast.USub):
                return f"(-{self.as_int(e.operand)})", "int"
            if isinstance(e.op, ast.Not):
                return f"(!{self.cond(e.operand)})", "bool"
            raise Unsupported("unary operator")
        if isinstance(e, ast.BinOp):
            return self.binop(e)
        if isinstance(e, ast.Compare):
            return self.compare(e)
        if isinstance(e, ast.BoolOp):
            op = " && " if isinstance(e.op, ast.And) else " || "
            parts = []
            for j, v in enumerate(e.values):
                eff, self.effect = self.effect, False
                parts.append(self.cond(v))
                if j > 0 and self.effect:
                    raise Unsupported("effectful operand in a short-circuit position")
                self.effect = eff or self.effect
            return "(" + op.join(parts) + ")", "bool"
        if isinstance(e, ast.Tuple):
            ts = [self.expr(x) for x in e.elts]
            return "(" + ", ".join(t for t, _ in ts) + ")", ("tuple", tuple(t for _, t in ts))
        if isinstance(e, ast.List):
            ts = [self.expr(x) for x in e.elts]
            if not ts:
                raise Unsupported("empty list display")
            t0 = ts[0][1]
            return "[" + ", ".join(self.coerce(t, ty, t0, "list element") for t, ty in ts) + "]", ("list", t0)
        if isinstance(e, ast.ListComp):
            return self.listcomp(e)
        if isinstance(e, ast.Attribute):
            if e.attr in self.attr_identity:
                term, t = self.expr(e.value)
                if isinstance(t, tuple) and t[0] == "list":
                    return term, t
            if e.attr == "size":
                term, t = self.expr(e.value)
                if isinstance(t, tuple) and t[0] == "list" and not (isinstance(t[1], tuple) and t[1][0] == "list"):
                    return f"(len {term})", "int"
            raise Unsupported(f"attribute {ast.unparse(e)[:60]}")
        if isinstance(e, ast.Subscript):
            return self.subscript(e)
        if isinstance(e, ast.Call):
            return self.call(e)
        raise Unsupported(f"expression {type(e).__name__}: {ast.unparse(e)[:60]}")

    def name(self, nm):
        if nm in self.poisoned:
            raise Unsupported(f"{nm} was re-bound with another type inside a block and is used after it")
        if self.static_state.get(nm) == "none":
            return "none", ("opt", "unit")
        if nm in self.vars:
            return self.lname(nm), self.vars[nm]
        raise Unsupported(f"name {nm} is neither a declared parameter / local nor part of a library pattern")

    def binop(self, e):
        op = {ast.Add: "+", ast.Sub: "-", ast.Mult: "*"}.get(type(e.op))
        if op is None:
            raise Unsupported("binary operator")
        lt, lty = self.expr(e.left)
        rt, rty = self.expr(e.right)
        # a one-element array combined with a scalar: element-wise
        if isinstance(lty, tuple) and lty[0] == "single" and rty == "int":
            return f"({lt} {op} {rt})", lty
        l = self.coerce(lt, lty, "int", "operand")
        r = self.coerce(rt, rty, "int", "operand")
        return f"({l} {op} {r})", "int"

    CMP = {ast.Lt: "<", ast.LtE: "≤", ast.Gt: ">", ast.GtE: "≥", ast.Eq: "=", ast.NotEq: "≠"}

    def compare(self, e):
        if len(e.ops) != 1:
            raise Unsupported("chained comparison")
        op, l, r = e.ops[0], e.left, e.comparators[0]
        if isinstance(op, (ast.Is, ast.IsNot)):
            if not (isinstance(r, ast.Constant) and r.value is None):
                raise Unsupported("`is` other than with None")
            if isinstance(l, ast.Name) and l.id in self.static_state:
                if l.id in self.poisoned:
                    raise Unsupported(f"{l.id} poisoned")
                isnone = self.static_state[l.id] == "none"
                return ("true" if isnone == isinstance(op, ast.Is) else "false"), "bool"
            term, t = self.expr(l)
            if not (isinstance(t, tuple) and t[0] == "opt"):
                raise Unsupported(f"`is None` on a value of the non-optional type {t}")
            return f"({term}.{'isNone' if isinstance(op, ast.Is) else 'isSome'})", "bool"
        sym = self.CMP.get(type(op))
        if sym is None:
            raise Unsupported(f"comparison {type(op).__name__}")
        lt, lty = self.expr(l)
        rt, rty = self.expr(r)
        isarr = lambda t: isinstance(t, tuple) and t[0] == "list"
        scal = lambda t: t == "int" or t == ("opt", "int")
        # element-wise forms
        if isarr(lty) or isarr(rty):
            def depth(t):
                return 1 + depth(t[1]) if isarr(t) else 0
            def base(t):
                return base(t[1]) if isarr(t) else t
            x, y = self.new("e"), self.new("e")
            if isarr(lty) and scal(rty) and base(lty) == "int":
                s = self.pure_term(self.coerce(rt, rty, "int", "comparison"), "int")
                body = f"fun {x} => decide ({x} {sym} {s})"
                arr, d = lt, depth(lty)
            elif isarr(rty) and scal(lty) and base(rty) == "int":
                s = self.pure_term(self.coerce(lt, lty, "int", "comparison"), "int")
                body = f"fun {x} => decide ({s} {sym} {x})"
                arr, d = rt, depth(rty)
            elif lty == rty and isinstance(op, (ast.Eq, ast.NotEq)) and depth(lty) == 1 and self.has_eq(lty[1]):
                return self.eff(f"zipWithArr (fun {x} {y} => decide ({x} {sym} {y})) {lt} {rt}", ("list", "bool")), ("list", "bool")
            elif lty == rty == ("list", "int"):
                return self.eff(f"zipWithArr (fun {x} {y} => decide ({x} {sym} {y})) {lt} {rt}", ("list", "bool")), ("list", "bool")
            else:
                raise Unsupported(f"element-wise comparison of {lty} and {rty}")
            if d == 1:
                return f"({arr}.map {body})", ("list", "bool")
            if d == 2:
                return f"({arr}.map (List.map ({body})))", ("list", ("list", "bool"))
            raise Unsupported("comparison of an array of more than two dimensions")
        if isinstance(op, (ast.Eq, ast.NotEq)):
            # never raises in Python: compared at Option when either side is optional
            isopt = lambda t: isinstance(t, tuple) and t[0] == "opt"
            if isopt(lty) or isopt(rty):
                tt = lty if isopt(lty) else rty
                a = self.coerce(lt, lty, tt, "comparison")
                b = self.coerce(rt, rty, tt, "comparison")
                if tt[1] != "int":
                    raise Unsupported(f"equality at the type {tt}")
                return f"({a} {'==' if isinstance(op, ast.Eq) else '!='} {b})", "bool"
            if lty == rty and lty in ("int", "str", "bool"):
                return f"(decide ({lt} {sym} {rt}))", "bool"
            raise Unsupported(f"equality of {lty} and {rty}")
        a = self.coerce(lt, lty, "int", "comparison")
        b = self.coerce(rt, rty, "int", "comparison")
        return f"(decide ({a} {sym} {b}))", "bool"

    def has_eq(self, t):
        return t in ("int", "str", "bool") or (isinstance(t, tuple) and t[0] == "abs" and t[1] in self.ordered)

    def cond(self, e):
        """a Python truth value"""
        term, t = self.expr(e)
        if t == "bool":
            return term
        if t == ("list", "bool"):
            return self.eff(f"truthArr {term}", "bool")
        raise Unsupported(f"truth value of a value of type {t} (`{ast.unparse(e)[:40]}`): depends on the dynamic type")

    def subscript(self, e):
        vt, vty = self.expr(e.value)
        if not (isinstance(vty, tuple) and vty[0] == "list"):
            raise Unsupported(f"subscript of {vty}")
        s = e.slice
        if isinstance(s, ast.Slice):
            if s.step is not None:
                raise Unsupported("slice step")
            lo = "none" if s.lower is None else f"(some {self.as_int(s.lower)})"
            hi = "none" if s.upper is None else f"(some {self.as_int(s.upper)})"
            return f"(slice {vt} {lo} {hi})", vty
        if isinstance(s, ast.Tuple):
            if (len(s.elts) == 2 and isinstance(s.elts[0], ast.Slice) and s.elts[0].lower is None and s.elts[0].upper is None
                    and s.elts[0].step is None and isinstance(vty[1], tuple) and vty[1][0] == "list"):
                return self.eff(f"npCol {vt} {self.as_int(s.elts[1])}", vty[1]), vty[1]
            raise Unsupported("multi-dimensional subscript")
        st, sty = self.expr(s)
        if sty == ("list", "bool"):
            return self.eff(f"maskSelect {vt} {st}", vty), vty
        if sty == ("list", "int"):
            return self.eff(f"gather {vt} {st}", vty), vty
        i = self.coerce(st, sty, "int", "index")
        return self.eff(f"getItem {vt} {i}", vty[1]), vty[1]

    def listcomp(self, e):
        if len(e.generators) != 1 or e.generators[0].ifs or e.generators[0].is_async:
            raise Unsupported("comprehension form")
        gen = e.generators[0]
        if not isinstance(gen.target, ast.Name):
            raise Unsupported("comprehension target")
        it = self.range_term(gen.iter)
        saved, self.pre = self.pre, []
        v = gen.target.id
        had = self.vars.get(v)
        self.vars[v] = "int"
        term, t = self.expr(e.elt)
        inner, self.pre = self.pre, saved
        if had is None:
            del self.vars[v]
        else:
            self.vars[v] = had
        acc = self.new("c")
        self.pre.append((0, f"let mut {acc} : {lean_type(('list', t))} := []"))
        self.pre.append((0, f"for {ident(v)} in {it} do"))
        for rel, txt in inner:
            self.pre.append((rel + 1, txt))
        self.pre.append((1, f"{acc} := {acc} ++ [{term}]"))
        return acc, ("list", t)

    def range_term(self, it):
        if not (isinstance(it, ast.Call) and isinstance(it.func, ast.Name) and it.func.id == "range" and not it.keywords):
            raise Unsupported("iteration over something else than range(..)")
        a = it.args
        if len(a) == 1:
            return f"range (0 : Int) {self.as_int(a[0])}"
        if len(a) == 2:
            return f"range {self.as_int(a[0])} {self.as_int(a[1])}"
        if len(a) == 3:
            st = a[2]
            if isinstance(st, ast.UnaryOp) and isinstance(st.op, ast.USub) and isinstance(st.operand, ast.Constant) and st.operand.value == 1:
                return f"rangeDown {self.as_int(a[0])} {self.as_int(a[1])}"
            if isinstance(st, ast.Constant) and st.value == 1:
                return f"range {self.as_int(a[0])} {self.as_int(a[1])}"
        raise Unsupported("range form")

    def call(self, e):
        f = e.func
        if isinstance(f, ast.Name) and f.id in self.local_fns:
            ptypes, rty = self.local_fns[f.id]
            if e.keywords or len(e.args) != len(ptypes):
                raise Unsupported(f"call of the local function {f.id}")
            args = []
            for a, (pn, pt) in zip(e.args, ptypes):
                term, t = self.expr(a)
                args.append(self.coerce(term, t, pt, f"argument {pn} of {f.id}"))
            return self.eff(f"{ident(f.id)} " + " ".join(args), rty), rty
        if isinstance(f, ast.Name) and f.id in REGISTRY and f.id in (self.cfg.get("calls") or []):
            return self.call_translated(e)
        if isinstance(f, ast.Name) and f.id == "len" and len(e.args) == 1 and not e.keywords:
            term, t = self.expr(e.args[0])
            if isinstance(t, tuple) and t[0] == "list":
                return f"(len {term})", "int"
            raise Unsupported(f"len of {t}")
        if isinstance(f, ast.Name) and f.id == "abs" and len(e.args) == 1 and not e.keywords:
            return f"(pyAbs {self.as_int(e.args[0])})", "int"
        if isinstance(f, ast.Attribute) and isinstance(f.value, ast.Name) and f.value.id == "np":
            if f.attr == "unique" and len(e.args) == 1 and not e.keywords:
                term, t = self.expr(e.args[0])
                if isinstance(t, tuple) and t[0] == "list" and (t[1] == "int" or (isinstance(t[1], tuple) and t[1][0] == "abs" and t[1][1] in self.ordered)):
                    return f"(Hdc.Py.unique {term})", t
                raise Unsupported(f"np.unique of {t}")
            if f.attr == "arange" and len(e.args) == 1 and not e.keywords:
                return f"(range (0 : Int) {self.as_int(e.args[0])})", ("list", "int")
            if f.attr == "where" and len(e.args) == 3 and not e.keywords:
                mt, mty = self.expr(e.args[0])
                at, aty = self.expr(e.args[1])
                st, sty = self.expr(e.args[2])
                if mty == ("list", "bool") and isinstance(aty, tuple) and aty[0] == "list" and sty == aty[1]:
                    return self.eff(f"npWhereS {mt} {at} {st}", aty), aty
                raise Unsupported(f"np.where of {mty}, {aty}, {sty}")
            if f.attr in ("any", "all") and len(e.args) == 1 and not e.keywords:
                term, t = self.expr(e.args[0])
                fn = "npAny" if f.attr == "any" else "npAll"
                if t == ("list", "bool"):
                    return f"({fn} {term})", "bool"
                if t == ("list", ("list", "bool")):
                    return f"({fn}2 {term})", "bool"
                raise Unsupported(f"np.{f.attr} of {t}")
            if (f.attr == "diff" and len(e.args) == 1 and len(e.keywords) == 1 and e.keywords[0].arg == "axis"
                    and isinstance(e.keywords[0].value, ast.Constant) and e.keywords[0].value.value == 1):
                term, t = self.expr(e.args[0])
                if t == ("list", ("list", "int")):
                    return f"(npDiffRows {term})", t
                raise Unsupported(f"np.diff of {t}")
        raise Unsupported(f"call {ast.unparse(e)[:70]}")

    def call_translated(self, e):
        pyname = e.func.id
        fn_def = REGISTRY[pyname]["def"]
        formals = [a.arg for a in fn_def.args.args]
        defaults = dict(zip(formals[len(formals) - len(fn_def.args.defaults):], fn_def.args.defaults))
        given = dict(zip(formals, e.args))
        for kw in e.keywords:
            if kw.arg is None or kw.arg in given:
                raise Unsupported("call keywords")
            given[kw.arg] = kw.value
        actual = {}
        for p in formals:
            if p in given:
                actual[p] = given[p]
            elif p in defaults:
                actual[p] = defaults[p]
            else:
                raise Unsupported(f"missing argument {p} in the call of {pyname}")
        translated = {p: self.expr(a) for p, a in actual.items()}
        for var in REGISTRY[pyname]["variants"]:
            ok = True
            for p, st in var.static.items():
                _, t = translated[p]
                if st == "none":
                    ok = ok and t == ("opt", "unit")
                else:
                    ok = ok and not (isinstance(t, tuple) and t[0] == "opt")
            if not ok:
                continue
            sub, args = {}, []
            for p, pt in var.params:
                term, t = translated[p]
                if t == ("opt", "unit") and isinstance(pt, tuple) and pt[0] == "opt":
                    args.append("none")
                    continue
                if isinstance(pt, tuple) and pt[0] == "opt" and not (isinstance(t, tuple) and t[0] == "opt"):
                    if not unify(pt[1], t, sub):
                        ok = False
                    args.append(f"(some {term})")
                    continue
                if not unify(pt, t, sub):
                    ok = False
                args.append(term)
            if not ok:
                continue
            for a in var.abs_order:
                if a not in sub:
                    raise Unsupported(f"call of {pyname}: abstract type {a} not determined")
            for a in var.inhabited:
                pass   # instances are found by Lean
            libargs = []
            for nm, sig_of, doc in var.libs:
                sig = sig_of(sub)
                for n2, s2, _ in self.used_libs:
                    if n2 == nm and s2 != sig:
                        raise Unsupported(f"library parameter {nm} of {pyname} clashes with a parameter of the caller")
                if not any(n2 == nm for n2, _, _ in self.used_libs):
                    self.used_libs.append((nm, sig, doc + f" (passed on to `{var.lean_name}`)"))
                libargs.append(nm)
            for a in sub.values():
                for x in abs_names(a):
                    self.note_abs(x)
            if var.module not in self.imports:
                self.imports.append(var.module)
            rt = subst_type(var.ret, sub)
            return self.eff(f"{var.lean_name} " + " ".join(libargs + args), rt), rt
        raise Unsupported(f"no translated variant of {pyname} fits the call `{ast.unparse(e)[:60]}`")

    # ---- statements
    def declare_or_assign(self, ind, nm, term, t, bind=False):
        if nm in self.poisoned:
            raise Unsupported(f"{nm} poisoned")
        if nm in self.static_state:
            if self.static_state.pop(nm) == "none":
                self.vars.pop(nm, None)          # no Lean binding exists for a parameter that is statically None
        arrow = "←" if bind else ":="
        if nm in self.vars:
            have = self.vars[nm]
            if have == "?":           # first pass: pre-declared, type not yet known
                self.vars[nm] = t
                self.first_type.setdefault(nm, t)
                self.emit(ind, f"{self.lname(nm)} {arrow} {term}")
                return
            try:
                term2 = self.coerce(term, t, have, f"assignment to {nm}")
                if bind and term2 != term:
                    raise Unsupported("coercion of a bound value")
                self.emit(ind, f"{self.lname(nm)} {arrow} {term2}")
                return
            except Unsupported:
                if len(self.block_rebinds) > 1:
                    self.block_rebinds[-1].add(nm)
                self.fresh += 1
                self.alias[nm] = f"{nm}_{self.fresh}"
        else:
            self.first_type.setdefault(nm, t)
        if isinstance(t, tuple) and t[0] == "single":
            raise Unsupported("a one-element array stored in a variable")
        self.vars[nm] = t
        self.emit(ind, f"let mut {self.lname(nm)} : {lean_type(t)} {arrow} {term}")

    def reads_after(self, rest):
        out = set()
        for s in rest:
            for n in ast.walk(s):
                if isinstance(n, ast.Name) and isinstance(n.ctx, ast.Load):
                    out.add(n.id)
        return out

    def predeclare(self, ind, s, rest):
        """names first assigned inside the compound statement `s` and read in `rest` (what follows it)"""
        later = self.reads_after(rest)
        inner = []
        for n in ast.walk(s):
            if isinstance(n, ast.Name) and isinstance(n.ctx, ast.Store) and n.id not in inner:
                inner.append(n.id)
        for nm in inner:
            if nm in later and nm not in self.vars and nm not in self.static_state and nm not in self.opaque_locals:
                t = self.types_hint.get(nm)
                if t is None:
                    self.need_second_pass = True
                    self.vars[nm] = "?"
                    continue
                self.vars[nm] = t
                self.emit(ind, f"let mut {self.lname(nm)} : {lean_type(t)} := {self.default(t)}")

    def block(self, stmts, ind, rest):
        """translate a list of statements; returns True when the block always exits (raise / return / break / continue)"""
        if not stmts:
            self.emit(ind, "pure ()")
            return False
        n0 = len(self.lines)
        for i, s in enumerate(stmts):
            if self.stmt(s, ind, stmts[i + 1:] + rest):
                return True
        if len(self.lines) == n0:
            self.emit(ind, "pure ()")
        return False

    def nested(self, stmts, ind, rest):
        self.block_rebinds.append(set())
        saved_vars, saved_alias = dict(self.vars), dict(self.alias)
        ex = self.block(stmts, ind, rest)
        rebinds = self.block_rebinds.pop()
        self.alias = saved_alias
        # names declared inside the block are not visible after it (Lean scoping): forget them; re-bound names are poisoned
        for nm in list(self.vars):
            if nm not in saved_vars:
                del self.vars[nm]
            elif nm in rebinds:
                self.vars[nm] = saved_vars[nm]
                self.poisoned.add(nm)
        return ex

    def exc_name(self, e):
        if isinstance(e, ast.Call):
            e = e.func
        if isinstance(e, ast.Name) and e.id in EXC:
            return "Exc." + EXC[e.id]
        raise Unsupported(f"exception {ast.unparse(e)[:40]}")

    def stmt(self, s, ind, rest):
        if isinstance(s, ast.Expr) and isinstance(s.value, ast.Constant) and isinstance(s.value.value, str):
            return False
        if isinstance(s, (ast.Import, ast.ImportFrom)):
            self.skipped.append(ast.unparse(s).replace("\n", " ")[:100])
            return False
        if isinstance(s, ast.Pass):
            return False
        if isinstance(s, ast.Raise):
            if s.exc is None:
                raise Unsupported("bare raise")
            if s.cause is not None and not (isinstance(s.cause, ast.Constant) and s.cause.value is None):
                raise Unsupported("raise .. from <exception>")
            self.emit(ind, f"raise {self.exc_name(s.exc)}")
            return True
        if isinstance(s, ast.Assert):
            t = s.test
            if (isinstance(t, ast.Call) and isinstance(t.func, ast.Name) and t.func.id == "isinstance" and len(t.args) == 2
                    and ast.unparse(t.args[1]) == "np.ndarray"):
                _, ty = self.expr(t.args[0])
                if isinstance(ty, tuple) and ty[0] == "list":
                    self.skipped.append(ast.unparse(s) + "   (holds by the static type)")
                    return False
                raise Unsupported("assert isinstance of a non-array")
            c = self.cond(t)
            self.emit(ind, f"if (!{c}) then")
            self.emit(ind + 1, "raise Exc.assertionError")
            return False
        if isinstance(s, ast.Assign):
            if len(s.targets) != 1:
                raise Unsupported("multiple assignment targets")
            return self.assign(s.targets[0], s.value, ind)
        if isinstance(s, ast.Expr):
            hit = self.try_lib(s.value, want_mutates=True)
            if hit:
                lib, binds = hit
                args = self.lib_call(lib, binds)
                _, t = self.name(lib.mutates)
                if t != lib.ret:
                    raise Unsupported(f"{lib.name} mutates {lib.mutates} of type {t}")
                app = " ".join([lib.name, self.lname(lib.mutates)] + args)
                self.emit(ind, f"{self.lname(lib.mutates)} {'←' if lib.raises else ':='} {app}")
                return False
            v = s.value
            if (isinstance(v, ast.Call) and isinstance(v.func, ast.Attribute) and v.func.attr == "sort" and not v.args
                    and not v.keywords and isinstance(v.func.value, ast.Name)):
                at, aty = self.name(v.func.value.id)
                if isinstance(aty, tuple) and aty[0] == "list" and (aty[1] == "int" or (isinstance(aty[1], tuple) and aty[1][0] == "abs" and aty[1][1] in self.ordered)):
                    self.emit(ind, f"{at} := npSort {at}")
                    return False
                raise Unsupported(f"sort of {aty}")
            if isinstance(s.value, ast.Yield):
                if s.value.value is None:
                    raise Unsupported("bare yield")
                term, t = self.expr(s.value.value)
                term = self.coerce(term, t, self.yield_type, "yielded value")
                self.emit(ind, f"__out := __out ++ [{term}]")
                return False
            raise Unsupported(f"expression statement {ast.unparse(s)[:60]}")
        if isinstance(s, ast.If):
            return self.if_(s, ind, rest)
        if isinstance(s, ast.For):
            return self.for_(s, ind, rest)
        if isinstance(s, ast.Try):
            return self.try_(s, ind, rest)
        if isinstance(s, ast.Break):
            self.emit(ind, "break")
            return True
        if isinstance(s, ast.Continue):
            self.emit(ind, "continue")
            return True
        if isinstance(s, ast.Return):
            if self.is_gen:
                if s.value is not None:
                    raise Unsupported("return with a value in a generator")
                self.emit(ind, "return __out")
                return True
            if s.value is None:
                term, t = "()", "unit"
            else:
                term, t = self.expr(s.value)
            if self.ret_type is None:
                self.ret_type = t
            term = self.coerce(term, t, self.ret_type, "returned value")
            self.emit(ind, f"return {term}")
            return True
        if isinstance(s, ast.FunctionDef):
            return self.local_def(s, ind)
        raise Unsupported(f"statement {type(s).__name__}: {ast.unparse(s)[:60]}")

    def assign(self, target, value, ind):
        if isinstance(target, ast.Name) and target.id in self.opaque_locals:
            want = ast.dump(ast.parse(self.opaque_locals[target.id], mode="eval").body)
            if ast.dump(value) != want or ind != 1:
                raise Unsupported(f"the opaque local {target.id} is not `{self.opaque_locals[target.id]}` at the top level")
            for n in ast.walk(value):
                if isinstance(n, ast.Name) and n.id in self.assigned:
                    raise Unsupported(f"the opaque local {target.id} depends on the assigned name {n.id}")
            self.skipped.append(ast.unparse(ast.Assign(targets=[target], value=value, lineno=0)) + "   (library object, used only inside library patterns)")
            return False
        if isinstance(target, ast.Name):
            term, t = self.expr(value)
            if t == ("opt", "unit"):
                have = self.vars.get(target.id)
                if not (isinstance(have, tuple) and have[0] == "opt"):
                    raise Unsupported("assignment of None to a non-optional variable")
                t = have
            self.declare_or_assign(ind, target.id, term, t)
            return False
        if isinstance(target, ast.Subscript) and isinstance(target.value, ast.Name) and not isinstance(target.slice, (ast.Slice, ast.Tuple)):
            nm = target.value.id
            at, aty = self.name(nm)
            mt, mty = self.expr(target.slice)
            vt, vty = self.expr(value)
            if mty == ("list", "bool") and isinstance(aty, tuple) and aty[0] == "list" and vty == aty[1]:
                r = self.eff(f"maskAssign {at} {mt} {vt}", aty)
                self.emit(ind, f"{at} := {r}")
                return False
            raise Unsupported(f"subscript assignment {ast.unparse(target)[:40]}")
        if isinstance(target, ast.Tuple) and all(isinstance(x, ast.Name) for x in target.elts):
            names = [x.id for x in target.elts]
            term, t = self.expr(value)
            if isinstance(t, tuple) and t[0] == "single" and len(names) == 1:
                self.declare_or_assign(ind, names[0], term, t[1])
                return False
            if isinstance(t, tuple) and t[0] == "tuple" and len(t[1]) == len(names) == 2:
                if not re.fullmatch(r"[\w«»]+", term):
                    term = self.hoist(term, t)
                self.declare_or_assign(ind, names[0], f"{term}.1", t[1][0])
                self.declare_or_assign(ind, names[1], f"{term}.2", t[1][1])
                return False
            raise Unsupported(f"unpacking of a value of type {t} into {len(names)} names")
        raise Unsupported(f"assignment target {ast.unparse(target)[:40]}")

    def hoist_bind(self, term, t):
        """`(← x)` as a whole term: bind it to a fresh name"""
        m = re.fullmatch(r"\(← (.*)\)", term, re.S)
        if not m:
            return self.hoist(term, t)
        return self.hoist(m.group(1), t, bind=True)

    def static_truth(self, test):
        """decide a test at translation time (only `x is [not] None` of statically known optionals, `not`, and/or of those)"""
        term, t = None, None
        if isinstance(test, ast.Compare) and len(test.ops) == 1 and isinstance(test.ops[0], (ast.Is, ast.IsNot)):
            l = test.left
            if isinstance(l, ast.Name) and l.id in self.static_state and isinstance(test.comparators[0], ast.Constant) \
                    and test.comparators[0].value is None:
                isnone = self.static_state[l.id] == "none"
                return isnone == isinstance(test.ops[0], ast.Is)
        return None

    def if_(self, s, ind, rest):
        test = s.test
        # walrus at the head of the test: `if (x := E) is None:`
        if isinstance(test, ast.Compare) and isinstance(test.left, ast.NamedExpr):
            w = test.left
            self.assign(w.target, w.value, ind)
            test = ast.Compare(left=ast.Name(id=w.target.id, ctx=ast.Load()), ops=test.ops, comparators=test.comparators)
        if any(isinstance(n, ast.NamedExpr) for n in ast.walk(test)):
            raise Unsupported("assignment expression inside a condition")
        st = self.static_truth(test)
        if st is not None:
            live = s.body if st else s.orelse
            self.skipped.append(f"`if {ast.unparse(s.test)}`: decided statically ({st}) in this variant")
            for i, b in enumerate(live):
                if self.stmt(b, ind, live[i + 1:] + rest):
                    return True
            return False
        self.predeclare(ind, s, rest)
        c = self.cond(test)
        self.emit(ind, f"if {c} then")
        e1 = self.nested(s.body, ind + 1, rest)
        e2 = False
        if s.orelse:
            self.emit(ind, "else")
            e2 = self.nested(s.orelse, ind + 1, rest)
        return e1 and e2 and bool(s.orelse)

    def for_(self, s, ind, rest):
        if s.orelse or not isinstance(s.target, ast.Name):
            raise Unsupported("for form")
        self.predeclare(ind, s, rest)
        it = self.range_term(s.iter)
        v = s.target.id
        if v in self.reads_after(rest):
            raise Unsupported(f"the loop variable {v} is read after the loop")
        # loop-carried locals: a name read in the body before its first assignment there
        self.emit(ind, f"for {ident(v)} in {it} do")
        had = self.vars.get(v)
        self.vars[v] = "int"
        self.nested(s.body, ind + 1, rest)
        if had is None:
            self.vars.pop(v, None)
        else:
            self.vars[v] = had
        return False

    def try_(self, s, ind, rest):
        if s.orelse or s.finalbody or len(s.body) != 1 or not isinstance(s.body[0], ast.Assign) or len(s.body[0].targets) != 1:
            raise Unsupported("try form (one assignment in the body, no else / finally)")
        a = s.body[0]
        tgt = a.targets[0]
        saved, self.pre = self.pre, []
        term, t = self.expr(a.value)
        inner, self.pre = self.pre, saved
        if isinstance(tgt, ast.Tuple) and len(tgt.elts) == 1 and isinstance(tgt.elts[0], ast.Name) and isinstance(t, tuple) and t[0] == "single":
            nm, t = tgt.elts[0].id, t[1]
        elif isinstance(tgt, ast.Name):
            nm = tgt.id
        else:
            raise Unsupported("try form: assignment target")
        if self.vars.get(nm) == "?":
            self.vars[nm] = t
            self.first_type.setdefault(nm, t)
        if nm in self.vars and self.vars[nm] != t:
            raise Unsupported(f"try form: {nm} changes its type")
        exc = self.new("exc")
        head = f"{self.lname(nm)} ← " if nm in self.vars else f"let mut {self.lname(nm)} : {lean_type(t)} ← "
        if nm not in self.vars:
            self.first_type.setdefault(nm, t)
            self.vars[nm] = t
        self.emit(ind, head + "tryExcept (do")
        for rel, txt in inner:
            self.lines.append("  " * (ind + 1 + rel) + txt)
        self.emit(ind + 1, f"pure {term}) (fun {exc} => do")
        first = True
        for h in s.handlers:
            if h.name is not None or h.type is None or not isinstance(h.type, ast.Name) or h.type.id not in EXC:
                raise Unsupported("except form")
            self.emit(ind + 1, f"{'if' if first else 'else if'} {exc} == Exc.{EXC[h.type.id]} then")
            if not self.nested(h.body, ind + 2, rest):
                raise Unsupported("an except handler that does not end in raise")
            first = False
        self.emit(ind + 1, "else")
        self.emit(ind + 2, f"raise {exc})")
        return False

    def local_def(self, s, ind):
        spec = (self.cfg.get("local_fns") or {}).get(s.name)
        if spec is None or s.args.defaults or s.args.kwonlyargs or s.args.vararg or s.args.kwarg or s.decorator_list:
            raise Unsupported(f"local function {s.name}")
        if len(s.args.args) != len(spec):
            raise Unsupported(f"local function {s.name}: {len(s.args.args)} parameters vs {len(spec)} declared types")
        ptypes = [(a.arg, parse_type(v)) for a, v in zip(s.args.args, spec)]
        for k, _ in ptypes:
            if k in self.vars or k in self.static_state:
                raise Unsupported(f"local function {s.name}: parameter {k} shadows a variable")
        for n in ast.walk(s):
            if isinstance(n, ast.Name) and isinstance(n.ctx, ast.Load) and n.id in self.assigned and n.id not in dict(ptypes):
                raise Unsupported(f"local function {s.name} reads the assigned outer variable {n.id}")
        saved_vars, saved_ret, saved_lines = dict(self.vars), self.ret_type, self.lines
        self.lines, self.ret_type = [], None
        for k, t in ptypes:
            self.vars[k] = t
        self.block_rebinds.append(set())
        self.block(s.body, ind + 1, [])
        self.block_rebinds.pop()
        body, rty = self.lines, self.ret_type
        self.vars, self.ret_type, self.lines = saved_vars, saved_ret, saved_lines
        if rty is None:
            raise Unsupported(f"local function {s.name} returns nothing")
        self.local_fns[s.name] = (ptypes, rty)
        sig = " → ".join([lean_type(t, False) for _, t in ptypes] + [f"Except Exc {lean_type(rty, False)}"])
        self.emit(ind, f"let {ident(s.name)} : {sig} := fun {' '.join(ident(k) for k, _ in ptypes)} => do")
        self.lines.extend(body)
        return False

    # ---- the whole function
    def run(self):
        self.abs_order = []
        self.need_second_pass = False
        for _, t in self.py_params:
            for a in abs_names(t):
                self.note_abs(a)
        if self.is_gen:
            self.emit(1, f"let mut __out : {lean_type(('list', self.yield_type))} := []")
            for a in abs_names(self.yield_type):
                self.note_abs(a)
        for nm, t in self.py_params:
            if nm in self.assigned:
                self.emit(1, f"let mut {ident(nm)} : {lean_type(t)} := {ident(nm)}")
        body = self.fn.body
        ex = False
        for i, s in enumerate(body):
            if self.stmt(s, 1, body[i + 1:]):
                ex = True
                break
        if self.pre:
            raise Unsupported("internal: pending lines left over")
        if self.is_gen:
            self.ret_type = ("list", self.yield_type)
            if not ex:
                self.emit(1, "return __out")
        elif not ex:
            if self.ret_type is None:
                self.ret_type = "unit"
            if self.ret_type != "unit":
                raise Unsupported("the function may fall off its end without a return")
            self.emit(1, "return ()")
        return "\n".join(self.lines)


def _copy(node):
    return ast.parse(ast.unparse(node), mode="eval").body


def find_function(mod, cls, func):
    scope = mod.body
    if cls:
        scope = next(n for n in mod.body if isinstance(n, ast.ClassDef) and n.name == cls).body
    return next(n for n in scope if isinstance(n, ast.FunctionDef) and n.name == func)


def translate(cfg):
    """the text of Hdc/Gen/<module>.lean: one Lean function per variant"""
    src = (REPO / cfg["file"]).read_text()
    fn = find_function(ast.parse(src), cfg.get("cls"), cfg["func"])
    sha = hashlib.sha256(ast.get_source_segment(src, fn).encode()).hexdigest()[:16]
    defs, imports, variants = [], [], []
    for variant in cfg.get("variants") or [dict(suffix="")]:
        g = G(cfg, fn, variant)
        g.run()
        if g.need_second_pass or True:
            hint = dict(g.first_type)
            g = G(cfg, fn, variant, types_hint=hint)
            body = g.run()
            if g.need_second_pass:
                raise Unsupported("a pre-declared name has no type after the second pass")
        lean_name = cfg["name"] + variant.get("suffix", "")
        impl = " ".join("{" + a + " : Type}" for a in g.abs_order)
        inst = " ".join([f"[Inhabited {a}]" for a in g.inhabited]
                        + [f"[LT {a}] [DecidableLT {a}] [DecidableEq {a}]" for a in g.abs_order if a in g.ordered])
        libs = "\n    ".join(f"({nm} : {sig})" for nm, sig, _ in g.used_libs)
        params = " ".join(f"({ident(nm)} : {lean_type(t)})" for nm, t in g.py_params)
        sig = "\n    ".join(x for x in [" ".join(x for x in [impl, inst] if x), libs, params] if x)
        libdoc = "".join(f"\n      {nm} : {doc}" for nm, _, doc in g.used_libs)
        skipped = "".join(f"\n      {x}" for x in g.skipped)
        stat = ", ".join(f"{k} {v}" for k, v in (variant.get("static") or {}).items())
        doc = (f"/-- `{cfg['file']}::{(cfg.get('cls') + '.') if cfg.get('cls') else ''}{cfg['func']}`"
               + (f", variant with {stat}" if stat else "")
               + (f"\n    library parameters:{libdoc}" if libdoc else "")
               + (f"\n    not translated (no effect on the control logic):{skipped}" if skipped else "") + " -/")
        defs.append(f"{doc}\ndef {lean_name} {sig} :\n    Except Exc {lean_type(g.ret_type, False)} := do\n{body}\n")
        for m in g.imports:
            if m not in imports:
                imports.append(m)
        libsigs = []
        for lib_nm, _, docstr in g.used_libs:
            lib = next((l for l in g.libs if l.name == lib_nm), None)
            if lib is not None:
                libsigs.append((lib_nm, (lambda sub, lib=lib: lib.lean_sig(sub)), docstr))
            else:
                fixed = next(s for n, s, _ in g.used_libs if n == lib_nm)
                libsigs.append((lib_nm, (lambda sub, fixed=fixed: fixed), docstr))
        variants.append(Variant(lean_name, dict(variant.get("static") or {}), g.py_params, libsigs, g.ret_type,
                                g.abs_order, g.inhabited, cfg["module"]))
    REGISTRY[cfg["func"]] = dict(**{"def": fn}, variants=variants)
    imp = "".join(f"import Hdc.Gen.{m}\n" for m in imports)
    qual = f"{cfg.get('cls') + '.' if cfg.get('cls') else ''}{cfg['func']}"
    return (f"import Hdc.PyGlue\n{imp}/-\nGENERATED by {TOOL} from {cfg['file']}::{qual} (sha256 of the function source {sha}).  Do not edit.\n"
            f"{cfg.get('note', '')}-/\nnamespace Hdc.Gen.Glue\nopen Hdc.PyGlue\n\n" + "\n".join(defs) + "\nend Hdc.Gen.Glue\n")


def write_if_changed(path, text):
    path.parent.mkdir(parents=True, exist_ok=True)
    if not path.exists() or path.read_text() != text:
        tmp = path.with_suffix(".tmp")
        tmp.write_text(text)
        tmp.replace(path)
        print(f"py2lean_glue: wrote {path}")


# ------------------------------------------------------------------------------------------------- configuration
ACC = "hdc/algo/accessors.py"
UTL = "hdc/algo/utils.py"

FUNCTIONS = [
    dict(
        name="iteragg", module="GlueIteragg", file=ACC, cls="IterativeAggregation", func="_iteragg",
        params=dict(func="opaque", n="opt[int]", dim="opaque", begin="opt[abs:Lbl]", end="opt[abs:Lbl]", method="opaque"),
        yields="abs:Obj",
        opaque_locals={"_index": "self._obj[dim].to_index()"},
        libs=[
            Lib("has_dim", "dim in self._obj.dims", ret="bool", doc="the dimension exists"),
            Lib("dim_size", "self._obj[dim].size", ret="int", doc="length of the axis"),
            Lib("sizes_dim", "self._obj.sizes[dim]", ret="int", doc="length of the axis (second spelling)"),
            Lib("get_indexer", "_index.get_indexer([$x], method=method)", args=dict(x="opt[abs:Lbl]"), ret="single[int]", raises=True,
                doc="the ONE element of the array pandas returns for a one-element list: the located position or -1; may raise"),
            Lib("func_given", "func is not None", ret="bool", doc="a reduction was passed"),
            Lib("dim_is_time", "dim == 'time'", ret="bool"),
            Lib("mk_region", "{dim: slice($a, $b)}", args=dict(a="int", b="int"), ret="abs:Obj",
                doc="the selection [a, b) along dim"),
            Lib("select", "self._obj[$r].assign_attrs({'agg_start': str(_index[$a]), 'agg_stop': str(_index[$b - 1]), "
                          "'agg_n': _index[$a:$b].size})", args=dict(r="abs:Obj", a="int", b="int"), ret="abs:Obj",
                doc="the selected window with its three attributes"),
            Lib("reduce", "$o.reduce(func, dim, keep_attrs=True)", args=dict(o="abs:Obj"), ret="abs:Obj"),
            Lib("expand_dims", "$o.expand_dims(time=[self._obj.time[$b - 1].values])", args=dict(o="abs:Obj", b="int"), ret="abs:Obj"),
        ],
        note="A generator: the program returns the list of the yielded objects in order.  The yielded xarray objects are abstract\n"
             "(type `Obj`): what is cut out (`mk_region`, `select`), the reduction and `expand_dims` are library parameters applied to the\n"
             "window bounds `jj`, `ii`; instantiating `Obj := Int × Int`, `mk_region := Prod.mk` and the others with the identity gives\n"
             "the list of windows.\n",
    ),
    dict(
        name="get_calibration_indices", module="GlueCalIndices", file=UTL, func="get_calibration_indices",
        params=dict(time="list[int]", calibration_range="tuple[abs:D,abs:D]", groups="opt[list[int]]", num_groups="opt[int]"),
        variants=[dict(suffix="", static={"groups": "none"}), dict(suffix="_grp", static={"groups": "given:list[int]"})],
        attr_identity=["values"],
        local_fns={"_get_ix": ["list[int]", "abs:D", "str"]},
        libs=[
            Lib("searchsorted", "$x.searchsorted($v, $side)", args=dict(x="list[int]", v="int", side="str"), ret="int", raises=True,
                doc="ndarray.searchsorted on the datetime64 values (integers here)"),
            Lib("datetime64", "np.datetime64($v)", args=dict(v="abs:D"), ret="int", doc="the bound on the scale of the axis"),
            Lib("np_unique_len", "len(np.unique(np.array($g)))", args=dict(g="list[int]"), ret="int",
                doc="number of distinct labels"),
            Lib("np_array_int16", "np.array($t, dtype='int16')", args=dict(t="list[list[int]]"), ret="list[list[int]]", raises=True,
                doc="the (num_groups, 2) table as an int16 array (OverflowError for an entry outside int16)"),
        ],
        note="The time axis (`pd.DatetimeIndex`, `.values`) is the list of its datetime64 values as integers; `groups` must be an\n"
             "ndarray of integer labels (`groups == ix` is element-wise).  Two variants: `groups` absent / given.\n",
    ),
    dict(
        name="spi", module="GlueSpi", file=ACC, cls="PixelAlgorithms", func="spi",
        params=dict(calibration_begin="opt[int]", calibration_end="opt[int]", nodata="opt[abs:V]", groups="opt[abs:Grp]",
                    dtype="opaque"),
        variants=[dict(suffix="", static={"groups": "none"}), dict(suffix="_grp", static={"groups": "given:abs:Grp"})],
        calls=["get_calibration_indices"],
        libs=[
            Lib("check_for_timedim", "self._check_for_timedim()", ret="bool"),
            Lib("attrs_nodata", "self._obj.attrs.get('nodata')", ret="opt[abs:V]"),
            Lib("time_index", "self._obj.get_index('time')", ret="list[int]", doc="the time axis (datetime64 values as integers)"),
            Lib("to_linspace_str", "to_linspace(np.array($g, dtype='str'))", args=dict(g="abs:Grp"),
                ret="tuple[list[int],list[abs:Key]]", doc="(linear labels, keys)"),
            Lib("len_time", "len(self._obj.time)", ret="int"),
            Lib("astype_int16", "$g.astype('int16')", args=dict(g="list[int]"), ret="list[int]"),
            Lib("apply_yxt",
                "xarray.apply_ufunc(gammastd_yxt, self._obj, kwargs={'nodata': $nd, 'cal_start': $a, 'cal_stop': $b}, "
                "input_core_dims=[['time']], output_core_dims=[['time']], keep_attrs=True, dask='parallelized', "
                "dask_gufunc_kwargs={'meta': self._obj.data.astype(dtype)})",
                args=dict(nd="opt[abs:V]", a="int", b="int"), ret="abs:Res", doc="the kernel call (no groups)"),
            Lib("apply_grp",
                "xarray.apply_ufunc(gammastd_grp, self._obj, $g, $k, $nd, $c, "
                "input_core_dims=[['time'], ['grps'], [], [], ['start', 'stop']], output_core_dims=[['time']], keep_attrs=True, "
                "dask='parallelized', dask_gufunc_kwargs={'meta': self._obj.data.astype(dtype)})",
                args=dict(g="list[int]", k="int", nd="opt[abs:V]", c="list[list[int]]"), ret="abs:Res", doc="the kernel call (groups)"),
            Lib("attrs_update", "res.attrs.update({'spi_calibration_begin': str($a), 'spi_calibration_end': str($b)})",
                args=dict(a="int", b="int"), ret="abs:Res", mutates="res", doc="records the two attributes"),
        ],
        note="The bounds `calibration_begin` / `calibration_end` are taken on the integer scale of the axis (pandas' parsing of a\n"
             "date string is outside); the kernel calls `xarray.apply_ufunc(..)` and `res.attrs.update(..)` are library parameters\n"
             "applied to the validated window.  Two variants: `groups` absent / given.\n",
    ),
    dict(
        name="mean_grp_acc", module="GlueMeanGrp", file=ACC, cls="PixelAlgorithms", func="mean_grp",
        params=dict(groups="abs:Grp", nodata="opt[abs:V]"),
        libs=[
            Lib("check_for_timedim", "self._check_for_timedim()", ret="bool"),
            Lib("attrs_nodata", "self._obj.attrs.get('nodata', None)", ret="opt[abs:V]"),
            Lib("as_int16_array", "np.array($g, dtype='int16') if not isinstance($g, np.ndarray) else $g", args=dict(g="abs:Grp"),
                ret="list[int]", doc="the labels as an (int16) array"),
            Lib("time_size", "self._obj.time.size", ret="int"),
            Lib("np_unique_size", "np.unique($g).size", args=dict(g="list[int]"), ret="int"),
            Lib("apply_mean_grp",
                "xarray.apply_ufunc(mean_grp, self._obj, $g, $k, $nd, input_core_dims=[['time'], ['grps'], [], []], "
                "output_core_dims=[['time']], keep_attrs=True, dask='parallelized', dask_gufunc_kwargs={'meta': self._obj.data})",
                args=dict(g="list[int]", k="int", nd="opt[abs:V]"), ret="abs:Res", doc="the kernel call"),
        ],
        note="The accessor `PixelAlgorithms.mean_grp`: resolution of `nodata` (argument, else attribute), the length check, and the\n"
             "kernel call as a library parameter.\n",
    ),
    dict(
        name="to_linspace", module="GlueLinspace", file=UTL, func="to_linspace",
        params=dict(x="list[abs:L]"), ordered_abs=["L"],
        identities=["$a.ravel()", "$a.reshape(x.shape)", "$a.data", "list($a)"],
        libs=[
            Lib("searchsorted_vec", "np.searchsorted($k, $v)", args=dict(k="list[abs:L]", v="list[abs:L]"), ret="list[int]",
                doc="element-wise insertion points (side='left') into the sorted array $k"),
        ],
        note="`x` is a ONE-dimensional array of labels of an ordered type `L` (`ravel`, `reshape(x.shape)`, `.data`, `list(..)` are\n"
             "the identity on the list representation); `np.unique` is the model's `Py.unique`, `keys.sort()` an insertion sort.\n",
    ),
]


def main():
    rc = 0
    for cfg in FUNCTIONS:
        module = cfg["module"]
        try:
            write_if_changed(GEN / f"{module}.lean", translate(cfg))
        except (Unsupported, StopIteration, KeyError, IndexError, AttributeError, OSError, SyntaxError) as e:
            print(f"FAILED Hdc.Gen.{module}: unsupported construct in {cfg['func']}: {e!r}")
            rc = 1
    return rc


if __name__ == "__main__":
    sys.exit(main())
