#!/venv/bin/python
"""Translator: /repo/hdc/algo/ops/ws2d.py::ws2d  ->  lean/Hdc/Gen/Ws2d.lean  (imperative Lean, `Id.run do`).

The generated program mirrors the source statement by statement: arrays are `Array α`, `a[i]` is a read with Python
index semantics (`ix`: negative indices wrap; out of range reads yield 0 and out-of-range stores are dropped — C14 proves
neither happens for n >= 2), `for i in range(a, b[, -1])` iterates over `pyRange` / `pyRangeDown`.  Integer-valued names
(`n`, `m`, loop variables and names assigned integer expressions) live in `Int`; everything else in the carrier `α`.
`Hdc/Props/C01gen.lean` proves that this program equals the hand model `Hdc.ws2d` (hence satisfies the normal equations).
Supported subset: assignments to names and to `name[int-expr]`, `range` loops, `+ - * /`, unary minus, integer literals,
`zeros(n)`, `.copy()`, `.shape[0]`, `return name`.  Anything else -> exit 1 (broken obligation of C01).

Instrumentation mode (`TS`, always run after the ordinary translation; output `lean/Hdc/Gen/SafeWs2d.lean`, namespace
`Hdc.Gen.Safe`): the same program, statement by statement, with one extra mutable flag `bad : Bool` (declared first, initially
`false`).  Before every statement `bad := (bad || c1 || c2 ...)` where the `ci` are, in evaluation order (right-hand side, then
the store target; duplicates within one statement dropped),
  * `oob a.size i`      for every subscript `a[i]` (read or store) of the statement   [Hdc/PySafe.lean: not (-len a <= i < len a)]
  * `eqv e2 (nat 0)`    for every division `e1 / e2` (all divisions of ws2d are scalar divisions)
and `return z` becomes `return (z, bad)`.  The ordinary output is not affected by this mode (byte-identical).
"""
import ast
import hashlib
import os
import sys
from pathlib import Path

REPO = Path(os.environ.get("HDC_REPO", "/repo"))
SRC = REPO / "hdc" / "algo" / "ops" / "ws2d.py"
OUT = Path(__file__).resolve().parent.parent / "lean" / "Hdc" / "Gen" / "Ws2d.lean"
SAFE_OUT = OUT.with_name("SafeWs2d.lean")


class Unsupported(Exception):
    pass


class T:
    def __init__(self, fn):
        self.fn = fn
        self.params = [a.arg for a in fn.args.args]
        self.ints = set()
        self.arrays = set()
        self.lines = []
        self.size = None        # Lean term for the common array length

    def is_int(self, e):
        if isinstance(e, ast.Constant):
            return isinstance(e.value, int) and not isinstance(e.value, bool)
        if isinstance(e, ast.Name):
            return e.id in self.ints
        if isinstance(e, ast.BinOp) and isinstance(e.op, (ast.Add, ast.Sub, ast.Mult)):
            return self.is_int(e.left) and self.is_int(e.right)
        if isinstance(e, ast.UnaryOp) and isinstance(e.op, ast.USub):
            return self.is_int(e.operand)
        if isinstance(e, ast.Subscript):        # y.shape[0]
            return isinstance(e.value, ast.Attribute) and e.value.attr == "shape"
        return False

    def iexpr(self, e):
        if isinstance(e, ast.Constant):
            return f"({e.value} : Int)" if e.value >= 0 else f"(-{-e.value} : Int)"
        if isinstance(e, ast.Name):
            return e.id
        if isinstance(e, ast.BinOp):
            op = {ast.Add: "+", ast.Sub: "-", ast.Mult: "*"}[type(e.op)]
            return f"({self.iexpr(e.left)} {op} {self.iexpr(e.right)})"
        if isinstance(e, ast.UnaryOp):
            return f"(-{self.iexpr(e.operand)})"
        if isinstance(e, ast.Subscript):
            arr = e.value.value.id
            return f"({arr}.size : Int)"
        raise Unsupported(ast.dump(e))

    def fexpr(self, e):
        """carrier-valued expression"""
        if self.is_int(e):
            if isinstance(e, ast.Constant):
                return f"nat {e.value}" if e.value >= 0 else f"(-(nat {-e.value}))"
            if isinstance(e, ast.UnaryOp) and isinstance(e.operand, ast.Constant):
                return f"(-(nat {e.operand.value}))"
            raise Unsupported("integer expression used as a float")
        if isinstance(e, ast.Name):
            if e.id in self.arrays:
                raise Unsupported("array used as scalar")
            return e.id
        if isinstance(e, ast.Subscript) and isinstance(e.value, ast.Name) and e.value.id in self.arrays:
            return f"(rd {e.value.id} {self.iexpr(e.slice)})"
        if isinstance(e, ast.BinOp):
            ops = {ast.Add: "+", ast.Sub: "-", ast.Mult: "*", ast.Div: "/"}
            if type(e.op) not in ops:
                raise Unsupported("operator")
            return f"({self.fexpr(e.left)} {ops[type(e.op)]} {self.fexpr(e.right)})"
        if isinstance(e, ast.UnaryOp) and isinstance(e.op, ast.USub):
            return f"(-{self.fexpr(e.operand)})"
        raise Unsupported(ast.dump(e)[:80])

    def stmt(self, s, ind):
        pad = "  " * ind
        if isinstance(s, ast.Expr) and isinstance(s.value, ast.Constant):
            return
        if isinstance(s, ast.Assign) and len(s.targets) == 1:
            t, v = s.targets[0], s.value
            if isinstance(t, ast.Name):
                # array creation
                if isinstance(v, ast.Call) and isinstance(v.func, ast.Name) and v.func.id == "zeros":
                    self.arrays.add(t.id)
                    self.lines.append(f"{pad}let mut {t.id} : Array α := Array.replicate ({self.iexpr(v.args[0])}).toNat (nat 0)")
                    return
                if isinstance(v, ast.Call) and isinstance(v.func, ast.Attribute) and v.func.attr == "copy" and isinstance(v.func.value, ast.Name) and v.func.value.id in self.arrays:
                    self.arrays.add(t.id)
                    self.lines.append(f"{pad}let mut {t.id} : Array α := {v.func.value.id}")
                    return
                if isinstance(v, ast.Call) and isinstance(v.func, ast.Name) and v.func.id in self.params:
                    raise Unsupported("call")
                if self.is_int(v):
                    kw = "" if t.id in self.ints else "let mut "
                    first = t.id not in self.ints
                    self.ints.add(t.id)
                    self.lines.append(f"{pad}{'let mut ' if first else ''}{t.id}{' : Int' if first else ''} := {self.iexpr(v)}")
                    return
                raise Unsupported(f"scalar assignment {t.id}")
            if isinstance(t, ast.Subscript) and isinstance(t.value, ast.Name) and t.value.id in self.arrays:
                a = t.value.id
                self.lines.append(f"{pad}{a} := wr {a} {self.iexpr(t.slice)} {self.fexpr(v)}")
                return
            raise Unsupported("assignment target")
        if isinstance(s, ast.For) and isinstance(s.target, ast.Name) and isinstance(s.iter, ast.Call) and isinstance(s.iter.func, ast.Name) and s.iter.func.id == "range":
            a = s.iter.args
            if len(a) == 2:
                it = f"pyRange {self.iexpr(a[0])} {self.iexpr(a[1])}"
            elif len(a) == 3 and isinstance(a[2], ast.UnaryOp) and isinstance(a[2].operand, ast.Constant) and a[2].operand.value == 1:
                it = f"pyRangeDown {self.iexpr(a[0])} {self.iexpr(a[1])}"
            else:
                raise Unsupported("range form")
            self.ints.add(s.target.id)
            self.lines.append(f"{pad}for {s.target.id} in {it} do")
            for b in s.body:
                self.stmt(b, ind + 1)
            return
        if isinstance(s, ast.Return) and isinstance(s.value, ast.Name) and s.value.id in self.arrays:
            self.lines.append(f"{pad}return {s.value.id}")
            return
        raise Unsupported(type(s).__name__)

    def run(self):
        self.arrays |= {self.params[0], self.params[2]}
        # Python names assigned inside a loop body stay visible after the loop: declare them up front
        for node in ast.walk(self.fn):
            if isinstance(node, ast.For):
                for sub in ast.walk(node):
                    if isinstance(sub, ast.Assign) and isinstance(sub.targets[0], ast.Name) and sub.targets[0].id not in self.ints:
                        nm = sub.targets[0].id
                        self.ints.add(nm)          # only integer scalars are assigned inside the loops of the supported subset
                        self.lines.append(f"  let mut {nm} : Int := 0")
        for s in self.fn.body:
            self.stmt(s, 1)
        return "\n".join(self.lines)


class TS(T):
    """instrumentation mode: the same statements plus the flag `bad` (see the module docstring)"""

    def checks(self, e, out):
        """conditions under which evaluating `e` raises (IndexError / ZeroDivisionError), in evaluation order"""
        if isinstance(e, ast.Subscript):
            if isinstance(e.value, ast.Attribute) and e.value.attr == "shape":        # y.shape[0]: a tuple, no array access
                return
            if not (isinstance(e.value, ast.Name) and e.value.id in self.arrays):
                raise Unsupported("safe: subscript of a non-array")
            if isinstance(e.slice, ast.Slice) or not self.is_int(e.slice):
                raise Unsupported("safe: subscript form")
            self.checks(e.slice, out)
            out.append(f"oob {e.value.id}.size {self.iexpr(e.slice)}")
            return
        if isinstance(e, ast.BinOp):
            self.checks(e.left, out)
            self.checks(e.right, out)
            if isinstance(e.op, ast.Div):
                out.append(f"eqv {self.fexpr(e.right)} (nat 0)")
            elif not isinstance(e.op, (ast.Add, ast.Sub, ast.Mult)):
                raise Unsupported("safe: operator")
            return
        if isinstance(e, ast.UnaryOp):
            return self.checks(e.operand, out)
        if isinstance(e, (ast.Name, ast.Constant)):
            return
        if isinstance(e, ast.Call):
            # zeros(n) / a.copy() / range(...) : no subscript, no division in the callee; arguments are checked
            for a in e.args:
                self.checks(a, out)
            if isinstance(e.func, ast.Attribute):
                self.checks(e.func.value, out)
            return
        if isinstance(e, ast.Attribute):
            return self.checks(e.value, out)
        raise Unsupported("safe: " + type(e).__name__)

    def stmt(self, s, ind):
        pad = "  " * ind
        cs = []
        if isinstance(s, ast.Assign) and len(s.targets) == 1:
            self.checks(s.value, cs)
            self.checks(s.targets[0], cs)
        elif isinstance(s, ast.For):
            self.checks(s.iter, cs)
        elif isinstance(s, ast.Return) and s.value is not None:
            self.checks(s.value, cs)
        cs = list(dict.fromkeys(cs))
        if cs:
            self.lines.append(f"{pad}bad := (bad || " + " || ".join(f"({c})" for c in cs) + ")")
        if isinstance(s, ast.Return) and isinstance(s.value, ast.Name) and s.value.id in self.arrays:
            self.lines.append(f"{pad}return ({s.value.id}, bad)")
            return
        return super().stmt(s, ind)

    def run(self):
        self.lines.append("  let mut bad : Bool := false")       # declared first: first component of every loop state
        return super().run()


SAFE_HEADER = """import Hdc.Gen.Ws2d
import Hdc.PySafe
/-
GENERATED by harness/translate_ws2d.py (instrumentation mode) from hdc/algo/ops/ws2d.py (sha256 {sha}).  Do not edit.
The statements of `Hdc.Gen.Ws2d.ws2d` plus the flag `bad`: set when a subscript is outside `[-len, len)` or a divisor is zero.
-/
namespace Hdc.Gen.Safe
open Hdc Hdc.Gen.Ws2d
variable {{α : Type}} [Add α] [Sub α] [Mul α] [Div α] [Neg α] [NatCast α] [LT α] [DecidableLT α]

def ws2d ({p0} : Array α) ({p1} : α) ({p2} : Array α) : Array α × Bool := Id.run do
"""

HEADER = """import Hdc.Num
/-
GENERATED by harness/translate_ws2d.py from hdc/algo/ops/ws2d.py (sha256 {sha}).  Do not edit.
Statement-by-statement translation of `ws2d(y, lmda, w)`; see the translator for the conventions.
-/
namespace Hdc.Gen.Ws2d
variable {{α : Type}} [Add α] [Sub α] [Mul α] [Div α] [Neg α] [NatCast α]

/-- Python index on an array of length `n`: negative indices wrap around -/
def ix (n : Nat) (i : Int) : Nat := if i < 0 then (i + (n : Int)).toNat else i.toNat

/-- `a[i]` (0 when out of range; C14 proves the index is in range for n >= 2) -/
def rd (a : Array α) (i : Int) : α := a.getD (ix a.size i) (nat 0)

/-- `a[i] = v` -/
def wr (a : Array α) (i : Int) (v : α) : Array α := a.setIfInBounds (ix a.size i) v

/-- `range(a, b)` -/
def pyRange (a b : Int) : List Int := (List.range (b - a).toNat).map fun (k : Nat) => a + Int.ofNat k

/-- `range(a, b, -1)` -/
def pyRangeDown (a b : Int) : List Int := (List.range (a - b).toNat).map fun (k : Nat) => a - Int.ofNat k

def ws2d ({p0} : Array α) ({p1} : α) ({p2} : Array α) : Array α := Id.run do
"""


def write_if_changed(path, text):
    path.parent.mkdir(parents=True, exist_ok=True)
    if not path.exists() or path.read_text() != text:
        tmp = path.with_suffix(".tmp")
        tmp.write_text(text)
        tmp.replace(path)
        print(f"translate_ws2d: wrote {path}")


def main():
    src = SRC.read_text()
    try:
        mod = ast.parse(src)
        fn = [n for n in mod.body if isinstance(n, ast.FunctionDef) and n.name == "ws2d"][-1]       # a later def shadows an earlier one
        if [a.arg for a in fn.args.args] != ["y", "lmda", "w"] or fn.args.defaults or fn.args.vararg or fn.args.kwarg or fn.args.kwonlyargs:
            raise Unsupported("signature changed: def ws2d(" + ast.unparse(fn.args) + "), expected (y, lmda, w)")
        t = T(fn)
        body = t.run()
    except (Unsupported, StopIteration, KeyError, IndexError, AttributeError) as e:
        print(f"translate_ws2d: unsupported construct: {e!r}", file=sys.stderr)
        return 1
    sha = hashlib.sha256(src.encode()).hexdigest()[:16]
    text = HEADER.format(sha=sha, p0=t.params[0], p1=t.params[1], p2=t.params[2]) + body + "\n\nend Hdc.Gen.Ws2d\n"
    write_if_changed(OUT, text)
    # instrumentation mode
    try:
        ts = TS(fn)
        sbody = ts.run()
    except (Unsupported, KeyError, IndexError, AttributeError) as e:
        print(f"translate_ws2d: FAILED Hdc.Gen.SafeWs2d: unsupported construct: {e!r}", file=sys.stderr)
        return 1
    stext = SAFE_HEADER.format(sha=sha, p0=ts.params[0], p1=ts.params[1], p2=ts.params[2]) + sbody + "\n\nend Hdc.Gen.Safe\n"
    write_if_changed(SAFE_OUT, stext)
    return 0


if __name__ == "__main__":
    sys.exit(main())
