"""Shared machinery of the checks: Lean obligations, model driver, evidence, replay, verdict.

Run with /venv/bin/python (imports hdc.algo from /repo's working tree: editable install).
"""
from __future__ import annotations

import fcntl
import json
import os
import random
import re
import struct
import subprocess
import sys
import time
from fractions import Fraction
from pathlib import Path

ROOT = Path(__file__).resolve().parent.parent
LEAN = ROOT / "lean"
DRIVER = LEAN / ".lake" / "build" / "bin" / "hdc-driver"
REPO = Path(os.environ.get("HDC_REPO", "/repo"))
ALLOWED_AXIOMS = {"propext", "Classical.choice", "Quot.sound"}
FORBIDDEN = re.compile(r"\b(sorry|admit|native_decide|bv_decide|implemented_by|unsafe)\b|^\s*axiom\s|maxHeartbeats\s+0")


class Infra(Exception):
    """Infrastructure failure (exit 2), not a violation."""


# ---------------------------------------------------------------- encoding

def f2h(x: float) -> str:
    return "h" + struct.pack(">d", float(x)).hex()


def h2f(s: str) -> float:
    assert s[0] == "h", s
    return struct.unpack(">d", bytes.fromhex(s[1:]))[0]


def farr(xs) -> str:
    return "[" + ",".join(f2h(x) for x in xs) + "]"


def iarr(xs) -> str:
    return "[" + ",".join(str(int(x)) for x in xs) + "]"


def q2s(x) -> str:
    x = Fraction(x)
    return str(x.numerator) if x.denominator == 1 else f"{x.numerator}/{x.denominator}"


def qarr(xs) -> str:
    return "[" + ",".join(q2s(x) for x in xs) + "]"


def parse_arr(tok: str, conv):
    inner = tok[1:-1]
    return [] if inner == "" else [conv(t) for t in inner.split(",")]


def parse_q(s: str) -> Fraction:
    return Fraction(s)


# ---------------------------------------------------------------- driver

class Driver:
    """Batch interface to the native Lean model driver."""

    def __init__(self, exe="hdc-driver", rebuild=False):
        """`rebuild`: run `lake build <exe>` first (a no-op when up to date) - for a driver that contains a generated model"""
        self.path = DRIVER.parent / exe
        if rebuild or not self.path.exists():
            ensure_built(exe)
        if not self.path.exists():
            raise Infra(f"model driver missing: {self.path}")

    def ask(self, lines: list[str], timeout=900) -> list[str]:
        if not lines:
            return []
        data = "\n".join(lines) + "\n"
        try:
            r = subprocess.run([str(self.path)], input=data, capture_output=True, text=True, timeout=timeout)
        except subprocess.TimeoutExpired as e:
            raise Infra("driver timeout") from e
        out = r.stdout.split("\n")
        if out and out[-1] == "":
            out.pop()
        if r.returncode != 0 or len(out) != len(lines):
            raise Infra(f"driver failed rc={r.returncode} answers={len(out)}/{len(lines)} stderr={r.stderr[-400:]}")
        return out


class Dialogue:
    """Persistent driver process for the interactive protocol: a request may be answered by `? name args`
    queries (external special functions), which `oracle(name, [floats])` answers."""

    def __init__(self):
        if not DRIVER.exists():
            ensure_built()
        self.p = subprocess.Popen([str(DRIVER)], stdin=subprocess.PIPE, stdout=subprocess.PIPE, text=True, bufsize=1)
        self.queries = 0

    def ask(self, line: str, oracle) -> str:
        self.p.stdin.write(line + "\n")
        self.p.stdin.flush()
        while True:
            out = self.p.stdout.readline()
            if out == "":
                raise Infra("driver died during dialogue")
            out = out.rstrip("\n")
            if out.startswith("? "):
                t = out.split()
                self.queries += 1
                self.p.stdin.write(f2h(oracle(t[1], [h2f(v) for v in t[2:]])) + "\n")
                self.p.stdin.flush()
            else:
                return out

    def close(self):
        try:
            self.p.stdin.close()
            self.p.wait(timeout=10)
        except Exception:  # noqa: BLE001
            self.p.kill()


# ---------------------------------------------------------------- lean build / audit

def _lake(args, timeout=3000):
    env = dict(os.environ)
    return subprocess.run(["lake", *args], cwd=LEAN, capture_output=True, text=True, timeout=timeout, env=env)


class _Lock:
    def __enter__(self):
        (LEAN / ".lake").mkdir(exist_ok=True)
        self.f = open(LEAN / ".lake" / "verif.lock", "w")
        fcntl.flock(self.f, fcntl.LOCK_EX)
        return self

    def __exit__(self, *a):
        fcntl.flock(self.f, fcntl.LOCK_UN)
        self.f.close()


# translator script -> generated modules it is responsible for when it fails as a whole
TRANSLATORS = {
    "translate_dekad.py": ["Hdc.Gen.Dekad"],
    "summarise_effects.py": ["Hdc.Gen.Effects"],
    "summarise_types.py": ["Hdc.Gen.Types"],   # Numba's inferred types / NumPy's loop table of every compiled kernel (C13; ~30 s)
    "translate_ws2d.py": ["Hdc.Gen.Ws2d", "Hdc.Gen.SafeWs2d"],
    "py2lean.py": [],          # per-kernel outputs: failures are reported as `FAILED <module>: reason`
    "py2lean_num.py": [],
    "py2lean_fixed.py": [],    # ws2dgu, ws2dpgu
    "py2lean_optvp.py": [],    # ws2doptvp, _ws2doptvp, ws2doptvplc
    "py2lean_spi.py": [],      # gammafit, gammastd, gammastd_grp, gammastd_yxt
    "py2lean_stats.py": [],    # mean_grp, do_mean, autocorr_1d_float, mk_*
    "py2lean_wcv.py": [],      # ws2dwcv, ws2dwcvp
    "py2lean_ac.py": [],       # autocorr_1d_int (whole), autocorr_1d dispatcher, autocorr / autocorr_tyx wrappers
    "py2lean_tyx.py": [],      # ws2doptvplc_tyx (prange read as range; independence of the rows: C12)
    "py2lean_glue.py": [],     # accessor / utility control logic: _iteragg, get_calibration_indices, spi, to_linspace, mean_grp accessor
    "py2lean_glue_period.py": [],  # .dekad accessor (Period / DekadPeriod / AccessorTimeBase) over the generated Dekad class; Anomalies
    "py2lean_glue_px.py": [],    # croo (xarray pipeline onto Hdc/PyXr.lean), lroo / autocorr / mktrend accessors, rolling.sum, zonal.mean
    "summarise_wrappers.py": ["Hdc.Gen.GlueWrappers"],  # iteragg.sum / mean / full (which reduction, forwarded arguments, defaults), HDC registry
    "py2lean_glue_whit.py": [],  # Whittaker accessors: whits, whitsvc, whitswcv, whitint (kernel dispatch, argument slots, defaults, truthiness of p)
}


def regenerate(needed=None):
    """Regenerate Hdc/Gen/* from /repo's working tree (translators).  Returns (failed, log): failed maps a generated module whose
    translation failed (its file on disk is stale) to the reason.  A property is affected only if its theorem modules import it.
    `needed`: the generated modules in the import closure of the property being checked - a translator with declared outputs none
    of which is needed is not run (the slow ones: the Numba type summariser is needed by C13 only)."""
    failed, log = {}, ""
    for name, outs in TRANSLATORS.items():
        tr = ROOT / "harness" / name
        if needed is not None and outs and not (set(outs) & set(needed)):
            continue
        if tr.exists():
            r = subprocess.run([sys.executable, str(tr)], capture_output=True, text=True)
            out = r.stdout + r.stderr
            log += out[-1500:]
            hits = re.findall(r"^FAILED (\S+): (.*)$", out, flags=re.M)
            for m, why in hits:
                failed[m] = why[:300]
            if r.returncode != 0 and not hits:
                for m in outs or ["Hdc.Gen.?" + name]:
                    failed[m] = out.strip()[-300:]
    return failed, log


def _imports(mod: str):
    p = LEAN / (mod.replace(".", "/") + ".lean")
    if not p.exists():
        return []
    return [m for m in re.findall(r"^import\s+(\S+)", p.read_text(), flags=re.M) if m.startswith("Hdc.")]


def gen_closure(mods):
    """generated modules (Hdc.Gen.*) in the import closure of the given modules"""
    seen, st = set(), list(mods)
    while st:
        m = st.pop()
        if m not in seen:
            seen.add(m)
            st += _imports(m)
    return {m for m in seen if m.startswith("Hdc.Gen.")}


def ensure_built(exe="hdc-driver"):
    with _Lock():
        r = _lake(["build", exe])
        if r.returncode != 0:
            raise Infra(f"cannot build {exe}:\n" + (r.stdout + r.stderr)[-2000:])


def obligations_for(pid: str) -> dict:
    return json.loads((LEAN / "obligations.json").read_text()).get(pid, {"modules": [], "theorems": []})


def prove(pid: str, thorough=False) -> dict:
    """Build the property's theorem modules, audit axioms, grep for forbidden tokens.

    Returns dict(obligations=[..], discharged=[..], broken=[(name, why)], axioms=set, cmd=str, log=str)."""
    ob = obligations_for(pid)
    mods, thms = ob["modules"], ob["theorems"]
    res = dict(obligations=list(thms), discharged=[], broken=[], axioms=set(), log="",
               cmd=f"cd lean && lake build {' '.join(mods)} && lake env lean <audit:#print axioms of {len(thms)} theorems>"
                   + (" && lake env leanchecker " + " ".join(mods) if thorough else ""))
    if not thms:
        return res
    with _Lock():
        failed, glog = regenerate(needed=gen_closure(mods))
        hit = sorted(gen_closure(mods) & set(failed))
        if any(k.startswith("Hdc.Gen.?") for k in failed):       # a translator without a declared output failed: be conservative
            hit = hit or sorted(failed)
        if hit:
            res["broken"] = [(t, f"translator failed for {hit[0]}: {failed[hit[0]]}") for t in thms]
            res["log"] = glog
            return res
        r = _lake(["build", "hdc-driver", *mods])
        res["log"] = (r.stdout + r.stderr)[-4000:]
        if r.returncode != 0:
            # find which theorems still check: audit is impossible if the module does not build
            res["broken"] = [(t, "module does not build") for t in thms]
            return res
        # forbidden tokens in the sources of the modules and everything under Hdc/ they can import
        bad = []
        for p in list((LEAN / "Hdc").rglob("*.lean")):
            txt = p.read_text()
            txt = re.sub(r"/-.*?-/", "", txt, flags=re.S)
            for ln in txt.split("\n"):
                code = re.sub(r'"(?:[^"\\]|\\.)*"', '""', ln.split("--")[0])      # string literals are not code
                if FORBIDDEN.search(code):
                    bad.append(f"{p.relative_to(LEAN)}: {ln.strip()[:80]}")
        audit = LEAN / ".lake" / f"audit_{pid}.lean"
        audit.write_text("".join(f"import {m}\n" for m in mods) + "".join(f"#print axioms {t}\n" for t in thms))
        r = subprocess.run(["lake", "env", "lean", str(audit)], cwd=LEAN, capture_output=True, text=True, timeout=1800)
        out = r.stdout + r.stderr
        res["log"] += out[-3000:]
        seen = {}
        for m in re.finditer(r"'(\S+)' depends on axioms: \[([^\]]*)\]", out.replace("\n", " ")):
            seen[m.group(1)] = {a.strip() for a in m.group(2).split(",") if a.strip()}
        for m in re.finditer(r"'(\S+)' does not depend on any axioms", out):
            seen[m.group(1)] = set()
        for t in thms:
            if t not in seen:
                res["broken"].append((t, "theorem missing or audit failed"))
            elif not seen[t] <= ALLOWED_AXIOMS:
                res["broken"].append((t, f"axioms {sorted(seen[t] - ALLOWED_AXIOMS)}"))
            elif bad:
                res["broken"].append((t, "forbidden token: " + bad[0]))
            else:
                res["discharged"].append(t)
                res["axioms"] |= seen[t]
        if thorough and not res["broken"]:
            r = subprocess.run(["lake", "env", "leanchecker", *mods], cwd=LEAN, capture_output=True, text=True, timeout=3000)
            if r.returncode != 0:
                res["broken"] = [(t, "leanchecker rejected: " + (r.stdout + r.stderr)[-300:]) for t in thms]
                res["discharged"] = []
    return res


# ---------------------------------------------------------------- known findings

def known_findings(pid: str):
    p = ROOT / "known_findings.json"
    if not p.exists():
        return []
    return [f for f in json.loads(p.read_text()).get("findings", []) if f["property"] == pid]


# ---------------------------------------------------------------- check context

class Ctx:
    """One run of one property check."""

    def __init__(self, pid: str, tier: str, seed: int):
        self.pid, self.tier, self.seed = pid, tier, seed
        self.rng = random.Random(seed * 1000003 + int(pid[1:]))
        self.t0 = time.time()
        self.evaluations = 0
        self.nontrivial = set()
        self.hist = {}
        self.samples = []
        self.disagreements = []   # model vs implementation
        self.failures = []        # property fails on the real code
        self.known_hits = {}
        self.assumptions = []
        self.trusted = []
        self.notes = {}
        self.quick = tier == "quick"
        self._driver = None

    @property
    def driver(self) -> Driver:
        if self._driver is None:
            self._driver = Driver()
        return self._driver

    def count(self, key, n=1):
        self.hist[key] = self.hist.get(key, 0) + n

    def case(self, key, nontrivial=True, sample=None):
        """Register one evaluated case; `key` identifies it canonically."""
        self.evaluations += 1
        if nontrivial:
            self.nontrivial.add(hash(key))
        if sample is not None and len(self.samples) < 6:
            self.samples.append(sample)

    def disagree(self, level, kernel, inp, model, impl, note=""):
        self.disagreements.append(dict(level=level, kernel=kernel, input=inp, model=model, impl=impl, note=note))

    def fail(self, kernel, inp, observed, required, signature=None, note=""):
        """The property itself fails on the real implementation for `inp`."""
        sig = signature or kernel
        for f in known_findings(self.pid):
            if f.get("signature") == sig:
                self.known_hits.setdefault(sig, dict(finding=f, n=0, first=dict(input=inp, observed=observed)))
                self.known_hits[sig]["n"] += 1
                return
        self.failures.append(dict(kernel=kernel, input=inp, observed=observed, required=required,
                                  signature=sig, note=note))

    def budget(self, quick, thorough):
        return quick if self.quick else thorough


def acc_dispatch(ctx, names):
    """Validation of the accessor-layer translators (harness/py2lean_glue*.py): the GENERATED glue programs (native driver
    `hdc-driver-acc`, rebuilt here from the regenerated Hdc/Gen/Glue*.lean) with recording stubs for their library parameters
    against the REAL accessors with apply_ufunc / map_blocks / kernels replaced by recording stubs, on the full finite grid of
    abstract inputs (harness/acc_dispatch.py).  A source change the translator could not read leaves the previous generated file
    in place: the disagreement found here is then the concrete failing call for the broken obligation."""
    from . import acc_dispatch as ad
    try:
        drv = Driver("hdc-driver-acc", rebuild=True)
    except Infra as e:
        ctx.notes["accessor_glue_driver"] = "not built (a generated glue module does not elaborate): " + str(e)[-300:]
        return None
    n = ad.run(ctx, names, driver=drv)
    ctx.trusted += ["harness/py2lean_glue*.py (accessor control-logic translators; their reading of Python is validated on every run by "
                    "harness/acc_dispatch.py: generated program vs real accessor with recording stubs, exhaustive over the abstract input grid)"]
    return n


def jsonable(x):
    try:
        import numpy as np
        if isinstance(x, np.ndarray):
            return [jsonable(v) for v in x.tolist()]
        if isinstance(x, np.generic):
            return jsonable(x.item())
    except Exception:
        pass
    if isinstance(x, float):
        if x != x:
            return "nan"
        if x in (float("inf"), float("-inf")):
            return "inf" if x > 0 else "-inf"
        return x
    if isinstance(x, Fraction):
        return str(x)
    if isinstance(x, dict):
        return {str(k): jsonable(v) for k, v in x.items()}
    if isinstance(x, (list, tuple, set)):
        return [jsonable(v) for v in x]
    if isinstance(x, (int, str, bool)) or x is None:
        return x
    return repr(x)


def write_replay(ctx: Ctx, kind: str, body: dict) -> str:
    d = ROOT / "replays" / ctx.pid
    d.mkdir(parents=True, exist_ok=True)
    k = len(list(d.glob(f"{ctx.seed}-*.json")))
    p = d / f"{ctx.seed}-{k}.json"
    body = dict(property=ctx.pid, kind=kind, seed=ctx.seed, tier=ctx.tier,
                cmd=f"bin/check replay {p.relative_to(ROOT)}", **body)
    p.write_text(json.dumps(jsonable(body), indent=1))
    return str(p.relative_to(ROOT))


def finish(ctx: Ctx, proof: dict, rule: str, level_note: str = "") -> int:
    """Verdict, evidence file, exit status."""
    violations = 0
    lines = []
    for sig, h in ctx.known_hits.items():
        lines.append(f"KNOWN-FINDING: property={ctx.pid} {h['finding']['what']} (signature {sig}, {h['n']} case(s) this run)")
    # listed findings must still reproduce with the recorded behaviour; otherwise they are stale
    broken_obl = proof["broken"]
    if ctx.failures:
        f = ctx.failures[0]
        path = write_replay(ctx, "failing-input", dict(
            obligation=[b[0] for b in broken_obl] or None, level="implementation", kernel=f["kernel"],
            input=f["input"], observed=f["observed"], required=f["required"], note=f["note"],
            other_failures=len(ctx.failures) - 1,
            disagreements=ctx.disagreements[:3]))
        lines.append(f"VIOLATION property={ctx.pid} replay={path}")
        violations = len(ctx.failures)
    elif broken_obl or ctx.disagreements:
        body = dict(obligation=[f"{n}: {why}" for n, why in broken_obl] or None,
                    level=(ctx.disagreements[0]["level"] if ctx.disagreements else "proof"),
                    kernel=(ctx.disagreements[0]["kernel"] if ctx.disagreements else None),
                    input=(ctx.disagreements[0]["input"] if ctx.disagreements else None),
                    observed=(ctx.disagreements[0]["impl"] if ctx.disagreements else None),
                    required=(ctx.disagreements[0]["model"] if ctx.disagreements else None),
                    note="model/implementation correspondence or proof obligation no longer checks; "
                         "the property's oracle found no failing input on the real code in the search budget",
                    n_disagreements=len(ctx.disagreements), lean_log=proof.get("log", "")[-1500:])
        path = write_replay(ctx, "broken-obligation", body)
        lines.append(f"VIOLATION property={ctx.pid} replay={path} no-failing-input-found")
        violations = 1
    ev = dict(
        property_id=ctx.pid, tier=ctx.tier, seed=ctx.seed, level="proof",
        coverage=dict(
            obligations=len(proof["obligations"]), discharged=len(proof["discharged"]),
            checker_cmd=proof["cmd"],
            trusted_base=sorted({"Lean 4.33 kernel"} | {f"axiom {a}" for a in proof["axioms"]} | set(ctx.trusted)),
            theorems=proof["obligations"], broken=[list(b) for b in broken_obl],
            evaluations=ctx.evaluations, distinct_nontrivial=len(ctx.nontrivial), rule=rule,
            samples=jsonable(ctx.samples + [dict(theorem=t) for t in proof["discharged"][:4]]),
            histogram=ctx.hist, correspondence_disagreements=len(ctx.disagreements),
            known_findings_hit={k: v["n"] for k, v in ctx.known_hits.items()},
            notes=jsonable(ctx.notes),
        ),
        assumptions=ctx.assumptions + ([level_note] if level_note else []),
        wall_s=round(time.time() - ctx.t0, 2), violations=violations)
    (ROOT / "evidence").mkdir(exist_ok=True)
    (ROOT / "evidence" / f"{ctx.pid}.json").write_text(json.dumps(ev, indent=1))
    for ln in lines:
        print(ln)
    print(f"[{ctx.pid}] tier={ctx.tier} seed={ctx.seed} obligations={len(proof['discharged'])}/{len(proof['obligations'])} "
          f"cases={ctx.evaluations} nontrivial={len(ctx.nontrivial)} disagreements={len(ctx.disagreements)} "
          f"failures={len(ctx.failures)} wall={ev['wall_s']}s")
    return 1 if violations else 0
