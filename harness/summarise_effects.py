#!/venv/bin/python
"""Effect summaries for C12: /repo/hdc/algo/ops/_helper.py::lazycompile and ops/ws2doptvplc.py::ws2doptvplc_tyx
-> lean/Hdc/Gen/Effects.lean (Lean data; generic theorems + `decide` on the instance live in Hdc/Props/C12.lean)."""
import ast
import hashlib
import os
import sys
from pathlib import Path

REPO = Path(os.environ.get("HDC_REPO", "/repo"))
OUT = Path(__file__).resolve().parent.parent / "lean" / "Hdc" / "Gen" / "Effects.lean"


class Unsupported(Exception):
    pass


# ---------------------------------------------------------------- lazycompile

def lazy_program(src: str):
    mod = ast.parse(src)
    outer = next(n for n in mod.body if isinstance(n, ast.FunctionDef) and n.name == "lazycompile")
    deco_arg = outer.args.args[0].arg
    mid = next(n for n in outer.body if isinstance(n, ast.FunctionDef))
    f_arg = mid.args.args[0].arg
    wrapper = next(n for n in mid.body if isinstance(n, ast.FunctionDef))
    cache = None
    for s in wrapper.body:
        if isinstance(s, ast.Nonlocal):
            cache = s.names[0]
    if cache is None:
        raise Unsupported("no nonlocal cache cell")
    init = [s for s in mid.body if isinstance(s, ast.Assign) and isinstance(s.targets[0], ast.Name) and s.targets[0].id == cache]
    if not (len(init) == 1 and isinstance(init[0].value, ast.Constant) and init[0].value.value is None):
        raise Unsupported("cache cell must start as None")

    def mentions(node):
        return any(isinstance(n, ast.Name) and n.id == cache for n in ast.walk(node))

    def is_none_test(t):
        return (isinstance(t, ast.Compare) and isinstance(t.left, ast.Name) and t.left.id == cache and len(t.ops) == 1
                and isinstance(t.ops[0], ast.Is) and isinstance(t.comparators[0], ast.Constant) and t.comparators[0].value is None)

    def is_compile(v):
        return (isinstance(v, ast.Call) and isinstance(v.func, ast.Name) and v.func.id == deco_arg and len(v.args) == 1
                and isinstance(v.args[0], ast.Name) and v.args[0].id == f_arg and not v.keywords)

    def block(stmts, base):
        prog = []
        for s in stmts:
            if isinstance(s, (ast.Nonlocal, ast.Pass)) or (isinstance(s, ast.Expr) and isinstance(s.value, ast.Constant)):
                continue
            if isinstance(s, ast.If) and is_none_test(s.test) and not s.orelse:
                inner = block(s.body, base + len(prog) + 1)
                prog.append(("loadTest", base + len(prog) + 1 + len(inner)))
                prog += inner
            elif isinstance(s, ast.Assign) and len(s.targets) == 1 and isinstance(s.targets[0], ast.Name) and s.targets[0].id == cache:
                prog.append(("storeCompiled",) if is_compile(s.value) else ("storeOther",))
            elif isinstance(s, ast.Return) and isinstance(s.value, ast.Call) and isinstance(s.value.func, ast.Name) and s.value.func.id == cache:
                prog.append(("loadCall",))
            elif isinstance(s, ast.With):
                prog += block(s.body, base + len(prog))        # a lock only removes interleavings
            elif not mentions(s):
                continue                                       # does not touch the shared cell
            else:
                raise Unsupported(f"statement touching the cache cell: {ast.dump(s)[:80]}")
        return prog

    return block(wrapper.body, 0)


# ---------------------------------------------------------------- prange kernel

ALLOC = {"zeros", "ones", "empty", "full", "arange", "zeros_like", "full_like", "array"}


def prange_summary(src: str, fname="ws2doptvplc_tyx"):
    mod = ast.parse(src)
    fn = next(n for n in mod.body if isinstance(n, ast.FunctionDef) and n.name == fname)
    loop = None
    for n in ast.walk(fn):
        if isinstance(n, ast.For) and isinstance(n.iter, ast.Call) and isinstance(n.iter.func, ast.Attribute) and n.iter.func.attr == "prange":
            loop = n
            break
    if loop is None:
        return dict(shared=[], priv=[], accesses=[], parallel=False)
    var = loop.target.id

    def allocs(stmts):
        out = []
        for s in stmts:
            for n in ast.walk(s):
                if isinstance(n, ast.Assign) and isinstance(n.targets[0], ast.Name):
                    v = n.value
                    calls = [v] if isinstance(v, ast.Call) else (list(v.elts) if isinstance(v, ast.Tuple) else [])
                    if calls and all(isinstance(c, ast.Call) and isinstance(c.func, ast.Attribute) and c.func.attr in ALLOC for c in calls):
                        out.append(n.targets[0].id)
        return out

    before = [s for s in fn.body if s is not loop and s.lineno < loop.lineno]
    shared = [a.arg for a in fn.args.args if a.arg in {"tyx"}] + allocs(before)
    priv = allocs(loop.body)
    if set(shared) & set(priv):
        raise Unsupported("array allocated both inside and outside the loop")
    known = set(shared) | set(priv)
    acc = []

    def row_axis(sl):
        elts = sl.elts if isinstance(sl, ast.Tuple) else [sl]
        for k, e in enumerate(elts):
            if isinstance(e, ast.Name) and e.id == var:
                return k
        return None

    out_args = set()
    for n in ast.walk(loop):
        # np.round(a, d, OUT): the third positional argument is written
        if isinstance(n, ast.Call) and isinstance(n.func, ast.Attribute) and n.func.attr == "round" and len(n.args) == 3:
            out_args.add(id(n.args[2]))
    for n in ast.walk(loop):
        if isinstance(n, ast.Subscript) and isinstance(n.value, ast.Name) and n.value.id in known:
            w = isinstance(n.ctx, ast.Store) or id(n) in out_args
            acc.append((n.value.id, w, row_axis(n.slice)))
        elif isinstance(n, ast.AugAssign) and isinstance(n.target, ast.Subscript) and isinstance(n.target.value, ast.Name) and n.target.value.id in known:
            acc.append((n.target.value.id, True, row_axis(n.target.slice)))
    # a shared array passed whole to a call, or re-bound inside the loop: unknown effect -> conservative write without row index
    for n in ast.walk(loop):
        if isinstance(n, ast.Call):
            for a in list(n.args) + [k.value for k in n.keywords]:
                if isinstance(a, ast.Name) and a.id in shared:
                    acc.append((a.id, True, None))
        if isinstance(n, ast.Assign):
            for t in n.targets:
                if isinstance(t, ast.Name) and t.id in shared:
                    acc.append((t.id, True, None))
    return dict(shared=shared, priv=priv, accesses=sorted(set(acc), key=lambda a: (a[0], a[1], -1 if a[2] is None else a[2])), parallel=True)


def lean_instr(i):
    return f".loadTest {i[1]}" if i[0] == "loadTest" else "." + i[0]


def main():
    hs = (REPO / "hdc/algo/ops/_helper.py").read_text()
    ks = (REPO / "hdc/algo/ops/ws2doptvplc.py").read_text()
    try:
        prog = lazy_program(hs)
        summ = prange_summary(ks)
    except (Unsupported, StopIteration, IndexError, AttributeError) as e:
        print(f"summarise_effects: unsupported construct: {e!r}", file=sys.stderr)
        return 1
    sha = hashlib.sha256((hs + ks).encode()).hexdigest()[:16]
    q = lambda s: '"' + s + '"'  # noqa: E731
    opt = lambda a: "none" if a is None else f"(some {a})"  # noqa: E731
    text = f"""import Hdc.Model.Effects
/-
GENERATED by harness/summarise_effects.py from hdc/algo/ops/_helper.py and hdc/algo/ops/ws2doptvplc.py
(sha256 {sha}).  Do not edit.
-/
namespace Hdc.Gen.Effects
open Hdc.Effects

/-- the `wrapper` of `lazycompile` as atomic actions on the shared closure cell -/
def lazyProg : List Instr := [{", ".join(lean_instr(i) for i in prog)}]

/-- accesses to arrays inside the `prange` loop body of `ws2doptvplc_tyx` -/
def prangeSummary : Summary :=
  {{ shared := [{", ".join(q(s) for s in summ["shared"])}],
    priv := [{", ".join(q(s) for s in summ["priv"])}],
    accesses := [{", ".join(f"⟨{q(a)}, {'true' if w else 'false'}, {opt(ax)}⟩" for a, w, ax in summ["accesses"])}] }}

end Hdc.Gen.Effects
"""
    OUT.parent.mkdir(parents=True, exist_ok=True)
    if not OUT.exists() or OUT.read_text() != text:
        tmp = OUT.with_suffix(".tmp")
        tmp.write_text(text)
        tmp.replace(OUT)
        print(f"summarise_effects: wrote {OUT}")
    return 0


if __name__ == "__main__":
    sys.exit(main())
