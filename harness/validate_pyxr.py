#!/venv/bin/python
"""validate_pyxr: the trusted per-pixel semantics of lean/Hdc/PyXr.lean against REAL xarray.

How: the definitions of Hdc/PyXr.lean are RE-IMPLEMENTED LITERALLY in Python below (same recursion, same case split; `None` = NaN;
keep the two texts side by side when editing either), and every combinator as well as the whole `croo` pipeline composed from
them (exactly the term of lean/Hdc/Gen/GlueCroo.lean) is compared with xarray on random pixel series (stored order shuffled,
duplicate time keys, NaN cells, values 0..3), plus the edge cases (empty, all-NaN, one cell).  In addition the Lean side itself is
run on a fixed set of series through `lake env lean` (`#eval` of the generated `croo_acc`) and compared with
`xarray_obj.hdc.algo.croo()`; skipped with `--no-lean`.
Prints `ok N` (number of comparisons), or `MISMATCH ...` and exits with 1.
"""
import math
import random
import subprocess
import sys
import tempfile
import warnings
from pathlib import Path

import numpy as np
import xarray

import hdc.algo  # noqa: F401  (registers the accessor)

N_RANDOM = 400


# ---- literal Python copies of Hdc/PyXr.lean --------------------------------------------------------------------------
def insertAscT(p, l):
    if not l:
        return [p]
    q, qs = l[0], l[1:]
    return [p, q] + qs if p[0] <= q[0] else [q] + insertAscT(p, qs)


def sortAscT(x):
    out = []
    for p in reversed(x):          # foldr
        out = insertAscT(p, out)
    return out


def sortbyTime(x, ascending):
    return sortAscT(x) if ascending else list(reversed(sortAscT(x)))


def whereEq(x, c):
    return [(t, v if v == c and v is not None else None) for t, v in x]


def cumsumFrom(skipna, acc, x):
    out = []
    for t, v in x:
        if acc is not None and v is not None:
            acc = acc + v
        elif acc is not None and v is None:
            acc = acc if skipna else None
        else:
            acc = None
        out.append((t, acc))
    return out


def cumsumTime(x, skipna):
    return cumsumFrom(skipna, 0, x)


def whereNotnullElse(x, v):
    return [(t, a if a is not None else v) for t, a in x]


def argmaxGo(vs, i, best):
    for v in vs:
        if v is None:
            pass
        elif best is None:
            best = (i, v)
        else:
            best = (i, v) if v > best[1] else best
        i += 1
    return best


def argmaxTime(x):
    best = argmaxGo([v for _, v in x], 0, None)
    if best is None:
        raise ValueError
    return best[0]


def iselTime(x, i):
    vals = [v for _, v in x]
    j = i + len(vals) if i < 0 else i
    if j < 0 or j >= len(vals):
        raise IndexError
    return vals[j]


def addIdxVal(k, v):
    return None if v is None else k + v


def croo_acc(obj):                 # the term of lean/Hdc/Gen/GlueCroo.lean (check_for_timedim = true)
    xsort = sortbyTime(obj, False)
    xtemp = cumsumTime(whereEq(xsort, 1), False)
    t1 = argmaxTime(whereNotnullElse(xtemp, 0))
    t3 = iselTime(xsort, 0)
    return addIdxVal(t1, t3)


# ---- xarray side --------------------------------------------------------------------------------------------------------
def to_da(x):
    return xarray.DataArray(np.array([np.nan if v is None else float(v) for _, v in x], dtype="float64"), dims=["time"],
                            coords={"time": np.array([t for t, _ in x], dtype="int64")})


def from_da(d):
    return [(int(t), None if math.isnan(v) else int(v)) for t, v in zip(d["time"].values, d.values)]


def scalar(v):
    v = float(v)
    return None if math.isnan(v) else int(v)


def outcome(f):
    try:
        return ("ok", f())
    except (ValueError, IndexError) as e:
        return ("err", type(e).__name__)


COUNT = 0


def check(what, x, lean, xr):
    global COUNT
    COUNT += 1
    a, b = outcome(lean), outcome(xr)
    if a != b:
        print(f"MISMATCH {what} on {x}: PyXr {a} vs xarray {b}")
        sys.exit(1)


def one(x):
    d = to_da(x)
    for asc in (True, False):
        check(f"sortby(ascending={asc})", x, lambda: sortbyTime(x, asc), lambda: from_da(d.sortby("time", ascending=asc)))
    for c in (0, 1, 2):
        check(f"where(x=={c})", x, lambda: whereEq(x, c), lambda: from_da(d.where(d == c)))
    for sk in (True, False):
        check(f"cumsum(skipna={sk})", x, lambda: cumsumTime(x, sk), lambda: from_da(d.cumsum("time", skipna=sk)))
    for v in (0, 5):
        check(f"where(~isnull,{v})", x, lambda: whereNotnullElse(x, v), lambda: from_da(d.where(~d.isnull(), v)))
    check("argmax", x, lambda: argmaxTime(x), lambda: int(d.argmax("time")))
    for i in (0, -1, 2):
        check(f"isel({i})", x, lambda: iselTime(x, i), lambda: scalar(d.isel(time=i)))
    check("croo", x, lambda: croo_acc(x), lambda: scalar(d.hdc.algo.croo()))


def random_series(rng):
    n = rng.choice([0, 1, 2, 3, 5, 8, 12])
    keys = [rng.randrange(-5, 20) for _ in range(n)] if rng.random() < 0.3 else rng.sample(range(-50, 50), n)
    mode = rng.random()
    vals = []
    for _ in range(n):
        if mode < 0.5:
            vals.append(rng.choice([0, 1, 1, 1]))
        else:
            vals.append(rng.choice([None, 0, 1, 1, 1, 2, 3]))
    return list(zip(keys, vals))


LEAN_CASES = [[(10, 1), (20, 0), (30, 1), (40, 1)], [(30, 1), (10, 1), (40, 1), (20, 0)], [(1, 1)], [(1, 0)], [(3, 2), (1, 1)],
              [(1, None), (0, 1)], [(5, 1), (7, None), (6, 1)], [(2, 1), (2, 0)], [(1, 1), (2, 1), (3, 1)], [(1, 3), (2, 1), (3, 1)]]


def lean_side():
    def lit(x):
        return "[" + ", ".join(f"(({t} : Int), ({'none' if v is None else f'some {v}'} : Option Nat))" for t, v in x) + "]"
    src = "import Hdc.Gen.GlueCroo\nopen Hdc.Gen.Glue\n" + "".join(
        f"#eval (match croo_acc true {lit(x)} with | .ok (some v) => s!\"ok {{v}}\" | .ok none => \"ok nan\" | .error _ => \"err\")\n"
        for x in LEAN_CASES)
    lean_dir = Path(__file__).resolve().parent.parent / "lean"
    with tempfile.NamedTemporaryFile("w", suffix=".lean", dir="/tmp", delete=False) as f:
        f.write(src)
        path = f.name
    try:
        out = subprocess.run(["lake", "env", "lean", path], cwd=lean_dir, capture_output=True, text=True, timeout=600)
    finally:
        Path(path).unlink()
    got = [l.strip().strip('"') for l in out.stdout.splitlines() if l.strip()]
    if out.returncode != 0 or len(got) != len(LEAN_CASES):
        print(f"MISMATCH lean run failed: rc={out.returncode} {out.stdout[-400:]} {out.stderr[-400:]}")
        sys.exit(1)
    global COUNT
    for x, g in zip(LEAN_CASES, got):
        COUNT += 1
        o = outcome(lambda: scalar(to_da(x).hdc.algo.croo()))
        want = "err" if o[0] == "err" else ("ok nan" if o[1] is None else f"ok {o[1]}")
        if g != want:
            print(f"MISMATCH Lean croo_acc on {x}: Lean {g!r} vs xarray {want!r}")
            sys.exit(1)


def main():
    warnings.simplefilter("ignore")
    rng = random.Random(20260929)
    for x in [[], [(0, None)], [(0, None), (1, None)], [(0, 1)], [(0, 0)], [(3, 1), (3, 0), (3, 1)]]:
        one(x)
    for _ in range(N_RANDOM):
        one(random_series(rng))
    if "--no-lean" not in sys.argv:
        lean_side()
    print(f"ok {COUNT}")
    return 0


if __name__ == "__main__":
    sys.exit(main())
