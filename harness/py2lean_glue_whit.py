#!/venv/bin/python
"""py2lean_glue_whit: the GLUE translator (harness/py2lean_glue.py, reused unchanged: `G`, `Lib`, `translate`, `write_if_changed`)
applied to the Whittaker accessors `WhittakerSmoother.whits / whitsvc / whitswcv / whitint` of hdc/algo/accessors.py.

Output: lean/Hdc/Gen/GlueWhits.lean, GlueWhitsvc.lean, GlueWhitswcv.lean, GlueWhitint.lean (namespace Hdc.Gen.Glue); the refinement
theorems are Hdc/Props/GenGlueWhit*.lean, the decision models Hdc/Model/AccWhit.lean.

Every `xarray.apply_ufunc(..)` is a library PARAMETER matched with its FULL literal text (kernel, argument order, core dims, `dask=`,
`keep_attrs=`, `output_dtypes`, `dask_gufunc_kwargs`); only the data arguments are metavariables.  Extensions of the base class `G`
(subclass `GW`; the base file is not edited):

  * SIGNATURE CHECK: the `def` line (parameter names, order, defaults, no `*args` / keyword-only / positional-only parameters, no
    decorators) must equal the configured `signature`; the defaults are additionally emitted as a Lean definition `<name>_dflt`
    (the call with every defaulted parameter left out), so that e.g. `robust=True` is visible to the theorems.
  * TRUTH VALUE of an `Optional[<abstract numeric>]` (`if p:`): `p is not None and p != 0` (NaN is truthy); translated through an
    explicit parameter `p_nonzero : P → Bool` as `(match p with | some v => p_nonzero v | none => false)`.  `if p is not None:` stays
    `p.isSome`: the two spellings translate DIFFERENTLY.  Only abstract types listed in the configuration (`truthy`) are accepted.
  * CONDITIONAL EXPRESSION `A if c else B`: `(if c then A else B)`; for `c` = `x is [not] None` with `x` a variable of optional type
    the variable is NARROWED in the not-None branch: `(match x with | some v => A[v] | none => B)`.  Neither branch may contain an
    effect (they would be hoisted in front of the test).  Branches of type `T` and `Optional[T]` join at `Optional[T]`.
  * ITEM ASSIGNMENT `d['key'] = v` is matched as the library pattern `__setitem__($d, 'key', $v)` (the key is literal) and becomes
    `d := set_.. d v`.
  * ENVIRONMENT CHECK (`check_environment`): `ops`, `xarray`, `np` are bound in accessors.py exactly by `from . import ops`,
    `import xarray`, `import numpy as np`; every kernel `K` is bound in hdc/algo/ops/__init__.py exactly by `from .K import K`;
    `WhittakerSmoother(AccessorBase)` does not override `_check_for_timedim`, which is `'time' in self._obj.dims`; no `import`
    inside a translated function.
  * PARAMETER ORDER: the library parameters of a generated function come in the configured order (`lib_order`), not in the order
    of first use, so that swapping two branches of the source does not permute them.
  * KEYWORD ORDER: the keywords of a call are compared as a set (sorted by name on both sides) when no keyword value contains a
    call (re-ordering literal keywords is not a change of meaning); a changed, missing or additional keyword fails the match.
Everything else is the base translator: whatever is not understood raises Unsupported -> `FAILED Hdc.Gen.<Module>: reason`, exit 1.
"""
import ast
import sys
from pathlib import Path

sys.path.insert(0, str(Path(__file__).resolve().parent))
import py2lean_glue as base                                         # noqa: E402
from py2lean_glue import G, Lib, Unsupported, ident, lean_type, parse_type, write_if_changed, GEN, REGISTRY   # noqa: E402

TOOL = "harness/py2lean_glue_whit.py"


def _kw_sortable(call):
    return all(k.arg is not None and not any(isinstance(n, ast.Call) for n in ast.walk(k.value)) for k in call.keywords)


def sort_keywords(node):
    for n in ast.walk(node):
        if isinstance(n, ast.Call) and _kw_sortable(n):
            n.keywords.sort(key=lambda k: k.arg)
    return node


class LibK(Lib):
    """a library pattern whose call keywords are compared in sorted order"""

    def __init__(self, *a, **k):
        super().__init__(*a, **k)
        self.node = sort_keywords(self.node)


class GW(G):
    def __init__(self, cfg, fn, variant, types_hint=None):
        self.check_signature(cfg, fn)
        super().__init__(cfg, fn, variant, types_hint)
        self.truthy = dict(cfg.get("truthy") or {})          # abstract type name -> name of the `nonzero` parameter

    # ---- the `def` line
    @staticmethod
    def check_signature(cfg, fn):
        a = fn.args
        if a.posonlyargs or a.kwonlyargs or a.vararg or a.kwarg or a.kw_defaults:
            raise Unsupported("signature: positional-only / keyword-only / star parameters")
        if fn.decorator_list:
            raise Unsupported("signature: decorated function")
        names = [x.arg for x in a.args]
        nd = len(a.defaults)
        defaults = [None] * (len(names) - nd) + [ast.unparse(d) for d in a.defaults]
        have = list(zip(names, defaults))
        want = [tuple(x) for x in cfg["signature"]]
        if have != want:
            raise Unsupported(f"signature {have} differs from the configured {want}")

    # ---- the library parameters of the generated function in the CONFIGURED order (not in the order of first use: swapping two
    #      branches of the source must not permute the parameters)
    def run(self):
        body = super().run()
        order = self.cfg["lib_order"]
        for nm, _, _ in self.used_libs:
            if nm not in order:
                raise Unsupported(f"library parameter {nm} has no configured position")
        self.used_libs.sort(key=lambda u: order.index(u[0]))
        return body

    # ---- library patterns: keywords compared in sorted order
    def try_lib(self, e, want_mutates=False):
        return super().try_lib(sort_keywords(base._copy(e)), want_mutates)

    # ---- Python truth value of an Optional[abstract numeric]
    def cond(self, e):
        saved = list(self.pre), self.effect, self.fresh
        try:
            return super().cond(e)
        except Unsupported as first:
            self.pre, self.effect, self.fresh = saved
            if not isinstance(e, ast.Name):
                raise
            term, t = self.expr(e)
            if isinstance(t, tuple) and t[0] == "opt" and isinstance(t[1], tuple) and t[1][0] == "abs" and t[1][1] in self.truthy:
                nz = self.truthy[t[1][1]]
                sig = f"{t[1][1]} → Bool"
                if not any(nm == nz for nm, _, _ in self.used_libs):
                    self.used_libs.append((nz, sig, f"the Python truth value of a NUMBER of type {t[1][1]}: `x != 0` (NaN is truthy); "
                                                    f"`if {e.id}:` on the optional is `{e.id} is not None and {e.id} != 0`"))
                    self.note_abs(t[1][1])
                v = self.new("v")
                return f"(match {term} with | some {v} => {nz} {v} | none => false)"
            raise first

    # ---- conditional expressions
    def expr(self, e):
        if isinstance(e, ast.IfExp) and not self.try_lib(e):
            return self.ifexp(e)
        return super().expr(e)

    def pure_branch(self, e):
        n = len(self.pre)
        eff, self.effect = self.effect, False
        term, t = self.expr(e)
        if len(self.pre) != n or self.effect:
            raise Unsupported("effect inside a branch of a conditional expression")
        self.effect = eff
        return term, t

    @staticmethod
    def join(a, at, b, bt):
        isopt = lambda t: isinstance(t, tuple) and t[0] == "opt"
        if at == bt:
            return a, b, at
        if bt == ("opt", at):
            return f"(some {a})", b, bt
        if at == ("opt", bt):
            return a, f"(some {b})", at
        if at == ("opt", "unit") and isopt(bt):
            return a, b, bt
        if bt == ("opt", "unit") and isopt(at):
            return a, b, at
        if at == ("opt", "unit") and bt != "unit":
            return a, f"(some {b})", ("opt", bt)
        if bt == ("opt", "unit") and at != "unit":
            return f"(some {a})", b, ("opt", at)
        raise Unsupported(f"conditional expression with branches of the types {at} and {bt}")

    def ifexp(self, e):
        test = e.test
        if (isinstance(test, ast.Compare) and len(test.ops) == 1 and isinstance(test.ops[0], (ast.Is, ast.IsNot))
                and isinstance(test.comparators[0], ast.Constant) and test.comparators[0].value is None
                and isinstance(test.left, ast.Name) and test.left.id not in self.static_state):
            nm = test.left.id
            term, t = self.name(nm)
            if not (isinstance(t, tuple) and t[0] == "opt") or t == ("opt", "unit"):
                raise Unsupported(f"`is None` on a value of the non-optional type {t}")
            some_e, none_e = (e.body, e.orelse) if isinstance(test.ops[0], ast.IsNot) else (e.orelse, e.body)
            v = self.new("v")
            saved_t, saved_alias = self.vars[nm], self.alias.get(nm)
            self.vars[nm], self.alias[nm] = t[1], v           # narrowed: inside this branch `nm` is its not-None value
            try:
                a, at = self.pure_branch(some_e)
            finally:
                self.vars[nm] = saved_t
                if saved_alias is None:
                    del self.alias[nm]
                else:
                    self.alias[nm] = saved_alias
            b, bt = self.pure_branch(none_e)
            a, b, jt = self.join(a, at, b, bt)
            return f"(match {term} with | some {v} => {a} | none => {b})", jt
        n = len(self.pre)
        c = self.cond(test)
        if len(self.pre) != n:
            raise Unsupported("effect inside the test of a conditional expression")
        a, at = self.pure_branch(e.body)
        b, bt = self.pure_branch(e.orelse)
        a, b, jt = self.join(a, at, b, bt)
        return f"(if {c} then {a} else {b})", jt

    # ---- no import inside the function (it could re-bind a name of the literal part of a pattern: `from . import x as ops`)
    def stmt(self, s, ind, rest):
        if isinstance(s, (ast.Import, ast.ImportFrom, ast.Global, ast.Nonlocal, ast.Delete)):
            raise Unsupported(f"statement {ast.unparse(s)[:60]} inside the function")
        return super().stmt(s, ind, rest)

    # ---- `d['key'] = v`
    def assign(self, target, value, ind):
        if (isinstance(target, ast.Subscript) and isinstance(target.value, ast.Name) and isinstance(target.slice, ast.Constant)
                and isinstance(target.slice.value, str)):
            pseudo = ast.Call(func=ast.Name(id="__setitem__", ctx=ast.Load()),
                              args=[ast.Name(id=target.value.id, ctx=ast.Load()), target.slice, value], keywords=[])
            hit = self.try_lib(pseudo)
            if not hit:
                raise Unsupported(f"item assignment {ast.unparse(target)[:40]} = {ast.unparse(value)[:60]}")
            lib, binds = hit
            if lib.raises or [k for k, _ in lib.args][:1] != ["d"]:
                raise Unsupported(f"item assignment pattern {lib.name}")
            args = self.lib_call(lib, binds)
            _, t = self.name(target.value.id)
            if t != lib.ret:
                raise Unsupported(f"{lib.name}: container of type {t}")
            self.declare_or_assign(ind, target.value.id, "(" + " ".join([lib.name] + args) + ")", lib.ret)
            return False
        return super().assign(target, value, ind)


# ------------------------------------------------------------------------------------------------- what the literal names denote
EXPECTED_BINDINGS = {
    "hdc/algo/accessors.py": {"ops": "from . import ops", "xarray": "import xarray", "np": "import numpy as np"},
    "hdc/algo/ops/__init__.py": {k: f"from .{k} import {k}" for k in
                                 ("ws2dgu", "ws2dpgu", "ws2doptv", "ws2doptvp", "ws2doptvplc", "ws2dwcv", "ws2dwcvp", "tinterpolate")},
}
CHECK_FOR_TIMEDIM = "def _check_for_timedim(self):\n    if 'time' not in self._obj.dims:\n        return False\n    return True"


def bindings(mod, name):
    """every construct in the module (at any depth) that binds `name`, as source text"""
    out = []
    for n in ast.walk(mod):
        if isinstance(n, (ast.Import, ast.ImportFrom)):
            for a in n.names:
                if (a.asname or a.name.split(".")[0]) == name or a.name == "*":
                    one = ast.ImportFrom(module=n.module, names=[a], level=n.level) if isinstance(n, ast.ImportFrom) else ast.Import(names=[a])
                    out.append(ast.unparse(one))
        elif isinstance(n, ast.Name) and isinstance(n.ctx, (ast.Store, ast.Del)) and n.id == name:
            out.append(f"assignment to {name}")
        elif isinstance(n, (ast.FunctionDef, ast.AsyncFunctionDef, ast.ClassDef)) and n.name == name:
            out.append(f"definition of {name}")
        elif isinstance(n, ast.arg) and n.arg == name:
            out.append(f"parameter {name}")
        elif isinstance(n, (ast.Global, ast.Nonlocal)) and name in n.names:
            out.append(f"global {name}")
    return out


def check_environment():
    """the names of the literal parts of the patterns denote what the theorems' texts say: `ops.<kernel>` is the kernel of
    hdc/algo/ops/<kernel>.py, `xarray` / `np` are the libraries, the class derives from AccessorBase whose `_check_for_timedim` is the
    membership test of 'time' in the dims and is not overridden"""
    for rel, want in EXPECTED_BINDINGS.items():
        mod = ast.parse((base.REPO / rel).read_text())
        for name, stmt in want.items():
            have = bindings(mod, name)
            if have != [stmt]:
                raise Unsupported(f"{rel}: the name {name} is bound by {have}, expected exactly [{stmt!r}]")
    mod = ast.parse((base.REPO / ACC).read_text())
    cls = next(n for n in mod.body if isinstance(n, ast.ClassDef) and n.name == CLS)
    if [ast.unparse(b) for b in cls.bases] != ["AccessorBase"] or cls.keywords or cls.decorator_list:
        raise Unsupported(f"class {CLS}: bases / decorators changed")
    names = [n.name for n in cls.body if isinstance(n, (ast.FunctionDef, ast.AsyncFunctionDef, ast.ClassDef))]
    names += [t.id for n in cls.body if isinstance(n, ast.Assign) for t in n.targets if isinstance(t, ast.Name)]
    for f in {c["func"] for c in FUNCTIONS}:
        if names.count(f) != 1:
            raise Unsupported(f"class {CLS}: {f} is defined {names.count(f)} times")
    if "_check_for_timedim" in names or "__init__" in names or "__getattribute__" in names or "__getattr__" in names:
        raise Unsupported(f"class {CLS} overrides _check_for_timedim / __init__ / attribute access")
    b = next(n for n in mod.body if isinstance(n, ast.ClassDef) and n.name == "AccessorBase")
    if b.bases or b.keywords or b.decorator_list:
        raise Unsupported("class AccessorBase: bases / decorators changed")
    defs = [n for n in b.body if isinstance(n, ast.FunctionDef) and n.name == "_check_for_timedim"]
    if len(defs) != 1 or ast.unparse(defs[0]) != CHECK_FOR_TIMEDIM:
        raise Unsupported("AccessorBase._check_for_timedim is not the membership test of 'time' in self._obj.dims")
    init = [n for n in b.body if isinstance(n, ast.FunctionDef) and n.name == "__init__"]
    if len(init) != 1 or ast.unparse(init[0].body[-1]) != "self._obj = xarray_obj" or len(init[0].body) != 1:
        raise Unsupported("AccessorBase.__init__ is not `self._obj = xarray_obj`")


# ------------------------------------------------------------------------------------------------- defaults
def default_term(src):
    if src == "None":
        return "none"
    if src == "True":
        return "true"
    if src == "False":
        return "false"
    raise Unsupported(f"default value {src} (only None / True / False are understood)")


def dflt_def(cfg):
    """`<name>_dflt`: the call with every defaulted parameter left out (defaults read from the `def` line)"""
    var = REGISTRY[cfg["func"]]["variants"][0]
    defaults = {n: d for n, d in cfg["signature"] if d is not None}
    fn = REGISTRY[cfg["func"]]["def"]
    nd = len(fn.args.defaults)
    live = {a.arg: ast.unparse(d) for a, d in zip(fn.args.args[len(fn.args.args) - nd:], fn.args.defaults)}
    if live != defaults:
        raise Unsupported("defaults changed between the signature check and the emission")
    if not live:
        return ""
    impl = " ".join("{" + a + " : Type}" for a in var.abs_order)
    inst = " ".join(f"[Inhabited {a}]" for a in var.inhabited)
    libs = "\n    ".join(f"({nm} : {sig({})})" for nm, sig, _ in var.libs)
    kept = [(nm, t) for nm, t in var.params if nm not in live]
    params = " ".join(f"({ident(nm)} : {lean_type(t)})" for nm, t in kept)
    head = "\n    ".join(x for x in [" ".join(x for x in [impl, inst] if x), libs, params] if x)
    args = " ".join([nm for nm, _, _ in var.libs] + [ident(nm) if nm not in live else default_term(live[nm]) for nm, _ in var.params])
    call = ", ".join(f"{n}={d}" for n, d in live.items())
    return (f"/-- `{cfg['func']}` called with every defaulted parameter left out: the defaults of the `def` line are `{call}` -/\n"
            f"def {var.lean_name}_dflt {head} :\n    Except Exc {lean_type(var.ret, False)} :=\n  {var.lean_name} {args}\n")


# ------------------------------------------------------------------------------------------------- configuration
ACC = "hdc/algo/accessors.py"
CLS = "WhittakerSmoother"
CT = LibK("check_for_timedim", "self._check_for_timedim()", ret="bool", doc="the object has a `time` dimension")
TRUTHY_DOC = {"P": "p_nonzero"}


def post_libs():
    return [
        LibK("to_dataset", "$d.to_dataset(name=$d.name or 'band')", args=dict(d="abs:DA"), ret="abs:DS",
             doc="the smoothed array as a Dataset variable named after the input (`band` when unnamed)"),
        LibK("log10_f32", "np.log10($g).astype('float32')", args=dict(g="abs:SGr"), ret="abs:LogS",
             doc="log10 of the kernel's lambda grid, as float32"),
        LibK("set_sgrid", "__setitem__($d, 'sgrid', $v)", args=dict(d="abs:DS", v="abs:LogS"), ret="abs:DS",
             doc="`$d['sgrid'] = $v`: the second variable of the output Dataset"),
    ]


FUNCTIONS = [
    dict(
        name="whits", module="GlueWhits", file=ACC, cls=CLS, func="whits",
        signature=[("self", None), ("nodata", None), ("sg", "None"), ("s", "None"), ("p", "None")],
        params=dict(nodata="abs:V", sg="opt[abs:SG]", s="opt[abs:L]", p="opt[abs:P]"),
        lib_order=["check_for_timedim", "pow10", "apply_pgu", "apply_gu"],
        libs=[
            CT,
            LibK("pow10", "10 ** $g", args=dict(g="abs:SG"), ret="abs:L", doc="lambda = 10 ** sgrid (element-wise on the DataArray)"),
            LibK("apply_pgu",
                 "xarray.apply_ufunc(ops.ws2dpgu, self._obj, $l, $nd, $p, input_core_dims=[['time'], [], [], []], "
                 "output_core_dims=[['time']], dask='parallelized', keep_attrs=True)",
                 args=dict(l="opt[abs:L]", nd="abs:V", p="opt[abs:P]"), ret="abs:DA", doc="the asymmetric kernel ws2dpgu(y, lmda, nodata, p)"),
            LibK("apply_gu",
                 "xarray.apply_ufunc(ops.ws2dgu, self._obj, $l, $nd, input_core_dims=[['time'], [], []], "
                 "output_core_dims=[['time']], dask='parallelized', keep_attrs=True)",
                 args=dict(l="opt[abs:L]", nd="abs:V"), ret="abs:DA", doc="the symmetric kernel ws2dgu(y, lmda, nodata)"),
        ],
        note="`L` is the type of a lambda value as `apply_ufunc` takes it (a float `s`, or the DataArray `10 ** sg`); the variable `lmda`\n"
             "is syntactically an Optional (`.. else s`), so the kernel parameters take `Option L`: the theorems show it is never None.\n",
    ),
    dict(
        name="whitsvc", module="GlueWhitsvc", file=ACC, cls=CLS, func="whitsvc",
        signature=[("self", None), ("nodata", None), ("lc", "None"), ("srange", "None"), ("p", "None")],
        params=dict(nodata="abs:V", lc="opt[abs:LC]", srange="opt[abs:SR]", p="opt[abs:P]"),
        lib_order=["check_for_timedim", "apply_optvplc", "p_nonzero", "apply_optvp", "apply_optv", "to_dataset", "log10_f32", "set_sgrid"],
        truthy=TRUTHY_DOC,
        libs=[
            CT,
            LibK("apply_optvplc",
                 "xarray.apply_ufunc(ops.ws2doptvplc, self._obj, $nd, $p, $lc, input_core_dims=[['time'], [], [], []], "
                 "output_core_dims=[['time'], []], dask='parallelized', keep_attrs=True)",
                 args=dict(nd="abs:V", p="opt[abs:P]", lc="opt[abs:LC]"), ret="tuple[abs:DA,abs:SGr]",
                 doc="ws2doptvplc(y, nodata, p, lc) -> (smoothed, lambda)"),
            LibK("apply_optvp",
                 "xarray.apply_ufunc(ops.ws2doptvp, self._obj, $nd, $p, $sr, input_core_dims=[['time'], [], [], ['dim0']], "
                 "output_core_dims=[['time'], []], dask='parallelized', keep_attrs=True)",
                 args=dict(nd="abs:V", p="opt[abs:P]", sr="opt[abs:SR]"), ret="tuple[abs:DA,abs:SGr]",
                 doc="ws2doptvp(y, nodata, p, srange) -> (smoothed, lambda)"),
            LibK("apply_optv",
                 "xarray.apply_ufunc(ops.ws2doptv, self._obj, $nd, $sr, input_core_dims=[['time'], [], ['dim0']], "
                 "output_core_dims=[['time'], []], dask='parallelized', keep_attrs=True)",
                 args=dict(nd="abs:V", sr="opt[abs:SR]"), ret="tuple[abs:DA,abs:SGr]",
                 doc="ws2doptv(y, nodata, srange) -> (smoothed, lambda)"),
        ] + post_libs(),
        note="`if p:` is the Python truth value of an Optional[float] (parameter `p_nonzero`), `if p is None:` is `p.isNone`.\n",
    ),
    dict(
        name="whitswcv", module="GlueWhitswcv", file=ACC, cls=CLS, func="whitswcv",
        signature=[("self", None), ("nodata", None), ("srange", "None"), ("p", "None"), ("robust", "True")],
        params=dict(nodata="abs:V", srange="opt[abs:SR]", p="opt[abs:P]", robust="bool"),
        lib_order=["check_for_timedim", "p_nonzero", "default_srange_f64", "apply_wcvp", "default_srange", "apply_wcv", "to_dataset",
                   "log10_f32", "set_sgrid"],
        truthy=TRUTHY_DOC,
        libs=[
            CT,
            LibK("default_srange_f64", "np.arange(-1.8, 4.2, 0.2, dtype=np.float64)", ret="abs:SR",
                 doc="the default grid of log10(lambda) in the asymmetric branch"),
            LibK("default_srange", "np.arange(-1.8, 4.2, 0.2)", ret="abs:SR",
                 doc="the default grid of log10(lambda) in the symmetric branch"),
            LibK("apply_wcvp",
                 "xarray.apply_ufunc(ops.ws2dwcvp, self._obj, $nd, $p, $sr, $rb, input_core_dims=[['time'], [], [], ['dim0'], []], "
                 "output_core_dims=[['time'], []], dask='parallelized', keep_attrs=True)",
                 args=dict(nd="abs:V", p="opt[abs:P]", sr="opt[abs:SR]", rb="bool"), ret="tuple[abs:DA,abs:SGr]",
                 doc="ws2dwcvp(y, nodata, p, srange, robust) -> (smoothed, lambda)"),
            LibK("apply_wcv",
                 "xarray.apply_ufunc(ops.ws2dwcv, self._obj, $nd, $sr, $rb, input_core_dims=[['time'], [], ['dim0'], []], "
                 "output_core_dims=[['time'], []], dask='parallelized', keep_attrs=True)",
                 args=dict(nd="abs:V", sr="opt[abs:SR]", rb="bool"), ret="tuple[abs:DA,abs:SGr]",
                 doc="ws2dwcv(y, nodata, srange, robust) -> (smoothed, lambda)"),
        ] + post_libs(),
        note="`if p:` is the Python truth value of an Optional[float] (parameter `p_nonzero`).  The two default grids are two\n"
             "parameters (two spellings in the source); NumPy gives float64 for float arguments, i.e. they are equal (hypothesis of the\n"
             "theorem that merges them).\n",
    ),
    dict(
        name="whitint", module="GlueWhitint", file=ACC, cls=CLS, func="whitint",
        signature=[("self", None), ("labels_daily", None), ("template", None)],
        params=dict(labels_daily="list[int]", template="abs:T"),
        lib_order=["check_for_timedim", "obj_dtype", "zeros_u1", "apply_tinterp"],
        libs=[
            CT,
            LibK("obj_dtype", "self._obj.dtype", ret="str", doc="the dtype of the input by its NumPy name (`dtype == 'int16'` compares names)"),
            LibK("zeros_u1", "np.zeros($n, dtype='u1')", args=dict(n="int"), ret="abs:TO", doc="the output template: n zeros of dtype uint8"),
            LibK("apply_tinterp",
                 "xarray.apply_ufunc(ops.tinterpolate, self._obj, $t, $l, $o, input_core_dims=[['time'], ['dim0'], ['dim1'], ['dim2']], "
                 "output_core_dims=[['newtime']], dask_gufunc_kwargs={'output_sizes': {'newtime': $o.size}}, output_dtypes=['int16'], "
                 "dask='parallelized', keep_attrs=True)",
                 args=dict(t="abs:T", l="list[int]", o="abs:TO"), ret="abs:DA",
                 doc="tinterpolate(y, template, labels_daily, template_out); the length of `newtime` is `template_out.size`"),
        ],
        note="`labels_daily` is a 1-d integer array (`np.unique(..).size` = number of distinct labels, the model's `Py.unique`).\n",
    ),
]


def main():
    base.G = GW                 # `translate` instantiates the class by its module-level name
    base.TOOL = TOOL
    rc = 0
    for cfg in FUNCTIONS:
        module = cfg["module"]
        try:
            check_environment()
            text = base.translate(cfg)
            tail = "\nend Hdc.Gen.Glue\n"
            if not text.endswith(tail):
                raise Unsupported("internal: unexpected end of the generated text")
            extra = dflt_def(cfg)
            text = text[:-len(tail)] + ("\n" + extra if extra else "") + tail
            write_if_changed(GEN / f"{module}.lean", text)
        except (Unsupported, StopIteration, KeyError, IndexError, AttributeError, OSError, SyntaxError) as e:
            print(f"FAILED Hdc.Gen.{module}: unsupported construct in {cfg['func']}: {e!r}")
            rc = 1
    return rc


if __name__ == "__main__":
    sys.exit(main())
