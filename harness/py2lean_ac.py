#!/venv/bin/python
"""py2lean_ac: translate the lag-1 autocorrelation kernels of hdc/algo/ops/autocorr.py (Python source, via `ast`, statement by
statement) into imperative Lean 4 (`Id.run do`), with the machinery of py2lean_num.py / py2lean_stats.py (class `KN`):

    autocorr_1d_int   -> lean/Hdc/Gen/NumAutocorrInt.lean   Hdc.Gen.NumKernels.autocorr_1d_int      (the WHOLE function)
    autocorr_1d       -> lean/Hdc/Gen/NumAutocorr1d.lean    Hdc.Gen.NumKernels.autocorr_1d_none     (nodata omitted / None)
                                                             Hdc.Gen.NumKernels.autocorr_1d_nd       (integer data, integer nodata)
    autocorr          -> lean/Hdc/Gen/NumAutocorrYxt.lean   Hdc.Gen.NumKernels.autocorr_yxt_none / autocorr_yxt_nd
    autocorr_tyx      -> lean/Hdc/Gen/NumAutocorrTyx.lean   Hdc.Gen.NumKernels.autocorr_tyx_none / autocorr_tyx_nd

Constructs added to `py2lean_stats.KN` (everything else is inherited unchanged; the outputs of the existing translators do not change):
  * MIXED typing, as Numba types the integer kernel: cells of an integer array, `int64(..)` accumulators and counters are `Int`
    (exact; the wrap-around of int64 is outside the model, as for the other integer kernels), `float64(e)` of an integer
    expression is the cast `((e : Int) : α)` of the carrier (`[IntCast α]`), an arithmetic operator with one integer and one
    floating operand casts the integer operand;
  * slices `a[:-1]`, `a[1:]` of an integer array (`PyNpT.pySliceG`, generic in the cell type);
  * TYPE SPECIALISATION.  Numba compiles one version of a function per argument-type signature and prunes `if x is None` branches
    on the type of `x`.  A kernel declaration lists its specialisations (`specs`): per specialisation the type of every
    parameter (`none` = omitted / `None`); `if <param> is None:` / `is not None` is decided at translation time from the declared
    type and ONLY the live branch is translated (the dead branch would not type-check in Lean either: it passes a float array to
    the integer kernel).  Any other use of a `none` parameter (other than passing it on to a translated callee that has a
    specialisation for it) is Unsupported;
  * calls of translated kernels with specialisations: the callee's specialisation is selected from the argument types;
  * n-d arrays (flattened row-major, dimensions as extra parameters `<a>_d0 ..`, as py2lean_stats.KI does for the integer
    kernels): `r, c, _ = x.shape`, `zeros((r, c), dtype=float32)`, `z[rr, cc] = e` (through `store32` when the array was created
    with dtype float32), `x[rr, cc, :]` -> `PyNpX.npRow3`, `tyx[:, rr, cc]` -> `PyNpX.npCol3` (copies: allowed only for an
    array the function never writes), `a[:] = <column>` -> `PyNpX.npSetAll`, `np.round(z, 0, zz[:, rr, cc])` ->
    `PyNpX.npRoundIntoCol3 rnd z zz ..`, tuples of arrays `(np.arange(..), np.arange(..))` indexed by a literal, `numba.prange`
    (translated as `range`: see py2lean_tyx.py), re-binding of a parameter (`p = float64(p)`).
Anything else raises Unsupported -> `FAILED <module>: reason`, exit 1.
"""
import ast
import hashlib
import os
import sys
from pathlib import Path

sys.path.insert(0, str(Path(__file__).resolve().parent))
import py2lean_num as base      # noqa: E402
import py2lean_stats as stats   # noqa: E402

REPO = Path(os.environ.get("HDC_REPO", "/repo"))
GEN = Path(__file__).resolve().parent.parent / "lean" / "Hdc" / "Gen"
TOOL = "py2lean_ac"
Unsupported = base.Unsupported

ELEM = {"arrnum": "num", "arrint": "int"}
ZERO = {"arrnum": "(nat 0)", "arrint": "(0 : Int)"}


class KA(stats.KN):
    """`py2lean_stats.KN` + mixed Int/α typing, integer slices, type specialisation, n-d arrays (see the module docstring)."""

    LEAN_TY = dict(stats.KN.LEAN_TY)

    def __init__(self, cfg, fn):
        super().__init__(cfg, fn)
        self.dims = {k: list(v) for k, v in cfg.get("dims", {}).items()}      # n-d array -> Lean names of its dimensions
        self.f32 = set()                                                       # arrays created with dtype float32
        self.tuples = {}                                                       # name -> list of (type, lean name) of a tuple of arrays
        self.params = {n for n, _ in cfg["params"]}
        self.stored = set()                                                    # arrays the function writes (any store)
        for node in ast.walk(fn):
            tg = []
            if isinstance(node, ast.Assign):
                tg = node.targets
            elif isinstance(node, ast.AugAssign):
                tg = [node.target]
            for t in tg:
                if isinstance(t, ast.Subscript) and isinstance(t.value, ast.Name):
                    self.stored.add(t.value.id)
            if isinstance(node, ast.Call) and isinstance(node.func, ast.Attribute) and node.func.attr == "round" and len(node.args) == 3:
                o = node.args[2]
                self.stored.add(o.id if isinstance(o, ast.Name) else o.value.id if isinstance(o, ast.Subscript) and isinstance(o.value, ast.Name) else "?")

    @staticmethod
    def lname(n):
        """Lean name of a Python local (a leading underscore is kept out of the Lean text)"""
        return "u" + n if n.startswith("_") else n

    # ---------------------------------------------------------------- helpers
    @staticmethod
    def is_full(s):
        return isinstance(s, ast.Slice) and s.lower is None and s.upper is None and s.step is None

    def nd_access(self, e):
        """classify `a[...]` on an n-d array: ('cell', arr, [ix..]) | ('col3', arr, j, k) | ('row3', arr, i, j) | None"""
        if not (isinstance(e, ast.Subscript) and isinstance(e.value, ast.Name) and e.value.id in self.dims and isinstance(e.slice, ast.Tuple)):
            return None
        arr, el = e.value.id, e.slice.elts
        if len(el) != len(self.dims[arr]):
            raise Unsupported(f"{len(el)} indices into the {len(self.dims[arr])}-d array {arr}")
        if all(not isinstance(x, ast.Slice) for x in el):
            if len(el) not in (2, 3):
                raise Unsupported("n-d index")
            return ("cell", arr, el)
        if len(el) == 3 and self.is_full(el[0]) and not isinstance(el[1], ast.Slice) and not isinstance(el[2], ast.Slice):
            return ("col3", arr, el[1], el[2])
        if len(el) == 3 and self.is_full(el[2]) and not isinstance(el[0], ast.Slice) and not isinstance(el[1], ast.Slice):
            return ("row3", arr, el[0], el[1])
        raise Unsupported("n-d slice " + ast.unparse(e))

    def flat(self, arr, el):
        for x in el:
            if self.typeof(x) != "int":
                raise Unsupported("index that is not an integer")
        return f"(PyNpT.flat{len(el)} {' '.join(self.dims[arr])} {' '.join(self.iexpr(x) for x in el)})"

    def line_term(self, acc):
        kind, arr = acc[0], acc[1]
        a, b = self.iexpr(acc[2]), self.iexpr(acc[3])
        if self.typeof(acc[2]) != "int" or self.typeof(acc[3]) != "int":
            raise Unsupported("index that is not an integer")
        f = "PyNpX.npCol3" if kind == "col3" else "PyNpX.npRow3"
        return f"{f} {self.lname(arr)} {ZERO[self.ty[arr]]} {' '.join(self.dims[arr])} {a} {b}"

    def dtype_of(self, call):
        """element kind of `zeros(.., dtype=..)`: ('arrnum'|'arrint', is_float32)"""
        kws = {k.arg: k.value for k in call.keywords}
        if set(kws) - {"dtype"}:
            raise Unsupported("zeros keywords")
        d = kws.get("dtype")
        if d is None:
            return "arrnum", False
        if isinstance(d, ast.Attribute) and d.attr == "dtype" and isinstance(d.value, ast.Name) and self.ty.get(d.value.id) in ELEM:
            return self.ty[d.value.id], False                               # dtype=tyx.dtype
        nm = d.attr if isinstance(d, ast.Attribute) else d.id if isinstance(d, ast.Name) else d.value if isinstance(d, ast.Constant) else None
        if nm == "float64":
            return "arrnum", False
        if nm == "float32":
            return "arrnum", True
        if nm in ("int64", "int32", "int16", "int8"):
            return "arrint", False
        raise Unsupported(f"dtype {nm!r}")

    @staticmethod
    def is_zeros(v):
        return isinstance(v, ast.Call) and ((isinstance(v.func, ast.Name) and v.func.id == "zeros")
                                            or (isinstance(v.func, ast.Attribute) and v.func.attr == "zeros"))

    def spec_call(self, e):
        """a call of a translated kernel that has specialisations: (lean term, result type) or None"""
        if not (isinstance(e, ast.Call) and isinstance(e.func, ast.Name) and e.func.id in self.cfg.get("spec_calls", {}) and not e.keywords):
            return None
        table = self.cfg["spec_calls"][e.func.id]
        sig = tuple(self.typeof(a) for a in e.args)
        if sig not in table:
            raise Unsupported(f"no specialisation of {e.func.id} for the argument types {sig}")
        head, rty = table[sig]
        args = [self.value_term(a)[1] for a in e.args if self.typeof(a) != "none"]
        return "(" + " ".join([head] + args) + ")", rty

    # ---------------------------------------------------------------- types
    def typeof(self, e):
        if isinstance(e, ast.Name) and e.id in self.tuples:
            return "tuple"
        if isinstance(e, ast.Call) and isinstance(e.func, ast.Name) and e.func.id == "int64" and len(e.args) == 1 and not e.keywords:
            if self.typeof(e.args[0]) != "int":
                raise Unsupported("int64(..) of a non-integer")
            return "int"
        if isinstance(e, ast.Call) and isinstance(e.func, ast.Name) and e.func.id == "float64" and len(e.args) == 1 and not e.keywords:
            return "num"
        sc = self.spec_call(e) if isinstance(e, ast.Call) else None
        if sc is not None:
            return sc[1]
        acc = self.nd_access(e)
        if acc is not None:
            return ELEM[self.ty[acc[1]]] if acc[0] == "cell" else self.ty[acc[1]]
        if isinstance(e, ast.Subscript) and isinstance(e.value, ast.Name) and e.value.id in self.tuples:
            if not (isinstance(e.slice, ast.Constant) and isinstance(e.slice.value, int) and 0 <= e.slice.value < len(self.tuples[e.value.id])):
                raise Unsupported("tuple index")
            return self.tuples[e.value.id][e.slice.value][0]
        if isinstance(e, ast.Subscript) and isinstance(e.value, ast.Name) and e.value.id in self.dims:
            raise Unsupported("1-d access to the n-d array " + e.value.id)
        if isinstance(e, ast.Call) and isinstance(e.func, ast.Attribute) and e.func.attr == "arange":
            return "arrnum"
        if self.is_zeros(e):
            return self.dtype_of(e)[0]
        if isinstance(e, ast.IfExp):
            a, b = self.typeof(e.body), self.typeof(e.orelse)
            if a != b:
                raise Unsupported("conditional expression of two types")
            return a
        return super().typeof(e)

    # ---------------------------------------------------------------- expressions
    def iexpr(self, e):
        if isinstance(e, ast.Name):
            if self.ty.get(e.id) != "int":
                raise Unsupported(f"integer expected: {e.id}")
            return self.lname(e.id)
        if isinstance(e, ast.Call) and isinstance(e.func, ast.Name) and e.func.id == "int64":
            self.typeof(e)
            return self.iexpr(e.args[0])
        acc = self.nd_access(e)
        if acc is not None:
            if acc[0] != "cell" or self.ty[acc[1]] != "arrint":
                raise Unsupported("integer cell expected")
            return f"(rdI {self.lname(acc[1])} {self.flat(acc[1], acc[2])})"
        if isinstance(e, ast.Subscript) and not (isinstance(e.value, ast.Attribute)):
            if not (isinstance(e.value, ast.Name) and self.ty.get(e.value.id) == "arrint" and not isinstance(e.slice, ast.Slice)):
                raise Unsupported("integer cell expected: " + ast.unparse(e))
            return f"(rdI {self.lname(e.value.id)} {self.iexpr(e.slice)})"
        return super().iexpr(e)

    def nexpr(self, e):
        t = self.typeof(e)
        if t == "none":
            raise Unsupported("value of an omitted (None) argument")
        if t == "num":
            if isinstance(e, ast.Name):
                return self.lname(e.id)
            sc = self.spec_call(e) if isinstance(e, ast.Call) else None
            if sc is not None:
                return sc[0]
            acc = self.nd_access(e)
            if acc is not None:
                return f"(rd {self.lname(acc[1])} {self.flat(acc[1], acc[2])})"
            if isinstance(e, ast.Subscript) and isinstance(e.value, ast.Name) and not isinstance(e.slice, ast.Slice):
                if self.ty.get(e.value.id) != "arrnum":
                    raise Unsupported("floating cell expected")
                return f"(rd {self.lname(e.value.id)} {self.iexpr(e.slice)})"
        return super().nexpr(e)

    def aexpr(self, e):
        """array-valued term"""
        t = self.typeof(e)
        if t not in ELEM:
            raise Unsupported("array expected: " + ast.unparse(e))
        if isinstance(e, ast.Name):
            return self.lname(e.id)
        if isinstance(e, ast.Subscript) and isinstance(e.value, ast.Name) and e.value.id in self.tuples:
            return self.tuples[e.value.id][e.slice.value][1]
        if isinstance(e, ast.IfExp):
            return f"(if {self.bexpr(e.test)} then {self.aexpr(e.body)} else {self.aexpr(e.orelse)})"
        return "(" + self.value_term(e)[1] + ")"

    # ---------------------------------------------------------------- statements
    def value_term(self, v):
        if isinstance(v, ast.Name) and self.ty.get(v.id) in ELEM:
            return self.ty[v.id], self.lname(v.id)
        if isinstance(v, ast.Name) and self.ty.get(v.id) == "none":
            raise Unsupported("value of an omitted (None) argument")
        if isinstance(v, ast.Subscript) and isinstance(v.slice, ast.Slice) and isinstance(v.value, ast.Name) \
                and self.ty.get(v.value.id) == "arrint" and v.value.id not in self.dims and not self.is_full(v.slice):
            s = v.slice                                                      # a[lo:hi] of an integer array (a copy: only read)
            if s.step is not None:
                raise Unsupported("slice with a step")
            for b in (s.lower, s.upper):
                if b is not None and self.typeof(b) != "int":
                    raise Unsupported("slice bound")
            if v.value.id in self.stored:
                raise Unsupported("slice of an array the function writes (a view)")
            lo = "(0 : Int)" if s.lower is None else self.iexpr(s.lower)
            hi = f"({self.lname(v.value.id)}.size : Int)" if s.upper is None else self.iexpr(s.upper)
            return "arrint", f"PyNpT.pySliceG {self.lname(v.value.id)} {lo} {hi}"
        acc = self.nd_access(v)
        if acc is not None and acc[0] != "cell":
            if acc[1] in self.stored and not getattr(self, "_rhs_of_slice_store", False):
                raise Unsupported("a name bound to a view of an array the function writes: " + ast.unparse(v))
            return self.ty[acc[1]], self.line_term(acc)
        if isinstance(v, ast.Call) and isinstance(v.func, ast.Attribute) and v.func.attr == "arange":
            if len(v.args) != 3 or any(k.arg != "dtype" or ast.unparse(k.value).split(".")[-1] != "float64" for k in v.keywords):
                raise Unsupported("np.arange form")
            return "arrnum", "arange " + " ".join(self.nexpr(a) for a in v.args)
        if self.is_zeros(v):
            if len(v.args) != 1:
                raise Unsupported("zeros arguments")
            t, _ = self.dtype_of(v)
            shape = v.args[0]
            n = " * ".join(self.iexpr(x) for x in shape.elts) if isinstance(shape, ast.Tuple) else self.iexpr(shape)
            return t, f"Array.replicate ({n}).toNat {ZERO[t]}"
        if isinstance(v, (ast.IfExp, ast.Subscript)) and self.typeof(v) in ELEM:
            return self.typeof(v), self.aexpr(v)
        sc = self.spec_call(v) if isinstance(v, ast.Call) else None
        if sc is not None:
            return sc[1], sc[0]
        return super().value_term(v)

    def static_none(self, test):
        """`x is None` / `x is not None` on a parameter whose type the specialisation fixes: True / False; else None"""
        if isinstance(test, ast.Compare) and len(test.ops) == 1 and isinstance(test.ops[0], (ast.Is, ast.IsNot)) \
                and isinstance(test.left, ast.Name) and isinstance(test.comparators[0], ast.Constant) and test.comparators[0].value is None:
            nm = test.left.id
            if nm not in self.params or nm in self.rebound:
                raise Unsupported("`is None` on something that is not an (unmodified) parameter")
            isnone = self.ty.get(nm) == "none"
            return isnone if isinstance(test.ops[0], ast.Is) else not isnone
        return None

    def stmt(self, s, ind):
        if isinstance(s, ast.If):
            sn = self.static_none(s.test)
            if sn is not None:                                               # Numba prunes the dead branch on the TYPE of the argument
                for b in (s.body if sn else s.orelse):
                    self.stmt(b, ind)
                return
        if isinstance(s, ast.Assign) and len(s.targets) == 1:
            t, v = s.targets[0], s.value
            # r, c, _ = x.shape
            if isinstance(t, ast.Tuple) and isinstance(v, ast.Attribute) and v.attr == "shape" and isinstance(v.value, ast.Name):
                arr = v.value.id
                if arr not in self.dims or len(self.dims[arr]) != len(t.elts) or not all(isinstance(x, ast.Name) for x in t.elts):
                    raise Unsupported("shape unpacking")
                for el, d in zip(t.elts, self.dims[arr]):
                    if el.id != "_":
                        self.set_name(el.id, "int", d, ind)
                return
            # tuple of arrays
            if isinstance(t, ast.Name) and isinstance(v, ast.Tuple):
                if t.id in self.declared or t.id in self.tuples:
                    raise Unsupported("re-binding of a tuple")
                items = []
                for k, x in enumerate(v.elts):
                    ty, term = self.value_term(x)
                    if ty not in ELEM:
                        raise Unsupported("tuple of non-arrays")
                    nm = f"{self.lname(t.id)}_{k}"
                    self.emit(ind, f"let {nm} : {self.LEAN_TY[ty]} := {term}")
                    items.append((ty, nm))
                self.tuples[t.id] = items
                return
            # n-d zeros
            if isinstance(t, ast.Name) and self.is_zeros(v) and len(v.args) == 1 and isinstance(v.args[0], ast.Tuple):
                if t.id in self.declared:
                    raise Unsupported("re-allocation of an n-d array")
                ty, f32 = self.dtype_of(v)
                self.dims[t.id] = [f"{self.lname(t.id)}_d{k}" for k in range(len(v.args[0].elts))]
                for d, x in zip(self.dims[t.id], v.args[0].elts):
                    if self.typeof(x) != "int":
                        raise Unsupported("dimension")
                    self.emit(ind, f"let {d} : Int := {self.iexpr(x)}")
                if f32:
                    self.f32.add(t.id)
                return self.set_name(t.id, ty, f"Array.replicate ({' * '.join(self.dims[t.id])}).toNat {ZERO[ty]}", ind)
            if isinstance(t, ast.Name) and self.is_zeros(v):
                ty, f32 = self.dtype_of(v)
                if f32:
                    raise Unsupported("1-d float32 array")
                return self.set_name(t.id, *self.value_term(v), ind)
            # re-binding of a parameter
            if isinstance(t, ast.Name) and t.id in self.params and t.id not in self.rebound:
                raise Unsupported(f"assignment to the parameter {t.id}")
            # stores into n-d arrays
            acc = self.nd_access(t) if isinstance(t, ast.Subscript) else None
            if acc is not None:
                if acc[0] != "cell":
                    raise Unsupported("n-d slice store")
                arr = acc[1]
                if self.ty[arr] == "arrnum":
                    val = self.nexpr(v)
                    if arr in self.f32:
                        val = f"(store32 {val})"
                    return self.emit(ind, f"{self.lname(arr)} := wr {self.lname(arr)} {self.flat(arr, acc[2])} {val}")
                if self.typeof(v) != "int":
                    raise Unsupported("floating value stored into an integer array")
                return self.emit(ind, f"{self.lname(arr)} := wrI {self.lname(arr)} {self.flat(arr, acc[2])} {self.iexpr(v)}")
            # a[:] = <array>
            if isinstance(t, ast.Subscript) and isinstance(t.value, ast.Name) and self.is_full(t.slice) and t.value.id not in self.dims \
                    and self.ty.get(t.value.id) in ELEM and self.typeof(v) in ELEM:
                arr = t.value.id
                if self.typeof(v) != self.ty[arr]:
                    raise Unsupported("slice store between arrays of different cell types")
                self._rhs_of_slice_store = True
                try:
                    term = self.aexpr(v)
                finally:
                    self._rhs_of_slice_store = False
                return self.emit(ind, f"{self.lname(arr)} := PyNpX.npSetAll {self.lname(arr)} {term}")
            # 1-d stores
            if isinstance(t, ast.Subscript) and isinstance(t.value, ast.Name) and not isinstance(t.slice, ast.Slice) and t.value.id not in self.dims:
                arr = t.value.id
                if self.ty.get(arr) == "arrnum":
                    return self.emit(ind, f"{self.lname(arr)} := wr {self.lname(arr)} {self.iexpr(t.slice)} {self.nexpr(v)}")
                if self.ty.get(arr) == "arrint":
                    if self.typeof(v) != "int":
                        raise Unsupported("floating value stored into an integer array")
                    return self.emit(ind, f"{self.lname(arr)} := wrI {self.lname(arr)} {self.iexpr(t.slice)} {self.iexpr(v)}")
                raise Unsupported("store into " + arr)
            if isinstance(t, ast.Name) and self.typeof(v) in ELEM and not self.is_zeros(v):
                ty, term = self.value_term(v)
                return self.set_name(t.id, ty, term, ind)
        if isinstance(s, ast.AugAssign) and isinstance(s.target, ast.Name):
            nm = s.target.id
            if not isinstance(s.op, ast.Add) or nm not in self.declared:
                raise Unsupported("augmented assignment")
            if self.ty[nm] == "int":
                if self.typeof(s.value) != "int":
                    raise Unsupported(f"{nm} (integer) += floating value")
                return self.emit(ind, f"{self.lname(nm)} := ({self.lname(nm)} + {self.iexpr(s.value)})")
            return self.emit(ind, f"{self.lname(nm)} := ({self.lname(nm)} + {self.nexpr(s.value)})")
        if isinstance(s, ast.For) and isinstance(s.iter, ast.Call) and isinstance(s.iter.func, ast.Attribute) \
                and s.iter.func.attr == "prange" and isinstance(s.iter.func.value, ast.Name) and s.iter.func.value.id == "numba":
            if not self.cfg.get("prange_as_range"):
                raise Unsupported("numba.prange")
            if len(s.iter.args) != 1 or s.iter.keywords:
                raise Unsupported("prange form")
            seq = ast.For(target=s.target, iter=ast.Call(func=ast.Name(id="range", ctx=ast.Load()), args=s.iter.args, keywords=[]),
                          body=s.body, orelse=s.orelse)
            return super().stmt(ast.copy_location(seq, s), ind)
        if isinstance(s, ast.Expr) and isinstance(s.value, ast.Call) and isinstance(s.value.func, ast.Attribute) and s.value.func.attr == "round":
            a = s.value.args                                                 # np.round(z, 0, zz[:, rr, cc])
            if len(a) == 3 and isinstance(a[2], ast.Subscript):
                acc = self.nd_access(a[2])
                if s.value.keywords or not (isinstance(a[1], ast.Constant) and a[1].value == 0 and not isinstance(a[1].value, bool)) \
                        or not isinstance(a[0], ast.Name) or self.ty.get(a[0].id) != "arrnum" or acc is None or acc[0] != "col3":
                    raise Unsupported("np.round form: " + ast.unparse(s.value))
                arr = acc[1]
                if self.typeof(acc[2]) != "int" or self.typeof(acc[3]) != "int":
                    raise Unsupported("index that is not an integer")
                return self.emit(ind, f"{self.lname(arr)} := PyNpX.npRoundIntoCol3 rnd {self.lname(a[0].id)} {self.lname(arr)} "
                                      f"{' '.join(self.dims[arr])} {self.iexpr(acc[2])} {self.iexpr(acc[3])}")
        if isinstance(s, ast.Return) and isinstance(s.value, ast.Name) and self.ty.get(s.value.id) in ELEM:
            return self.emit(ind, f"return {self.lname(s.value.id)}")
        if isinstance(s, ast.Return) and isinstance(s.value, ast.Tuple):
            want = self.cfg.get("ret_types")
            got = [self.typeof(x) for x in s.value.elts]
            if want != got:
                raise Unsupported(f"return type {got}, declared {want}")
        return super().stmt(s, ind)

    def predeclare(self):
        # parameters the function re-binds (`p = float64(p)`): a mutable copy first
        self.rebound = set()
        for node in ast.walk(self.fn):
            if isinstance(node, ast.Assign):
                for t in node.targets:
                    if isinstance(t, ast.Name) and t.id in self.params:
                        if self.ty.get(t.id) not in ("num", "int"):
                            raise Unsupported(f"re-binding of the parameter {t.id}")
                        if t.id not in self.rebound:
                            self.rebound.add(t.id)
                            self.emit(1, f"let mut {t.id} : {self.LEAN_TY[self.ty[t.id]]} := {t.id}")
        for node in ast.walk(self.fn):                       # `nt, nr, nc = a.shape`: integers (known to the dry type inference)
            if isinstance(node, ast.Assign) and isinstance(node.targets[0], ast.Tuple) and isinstance(node.value, ast.Attribute) and node.value.attr == "shape":
                for el in node.targets[0].elts:
                    if isinstance(el, ast.Name) and el.id != "_" and el.id not in self.ty:
                        self.ty[el.id] = "int"
        # names first assigned inside a loop / branch: arrays are allocated there in these kernels (declared by `set_name`);
        # scalars get their initial value up front as in the base class
        return super().predeclare()


class Underscore(ast.NodeTransformer):
    """Python locals with a leading underscore (`_xx`, `_llas`) get the Lean name `u_xx`, `u_llas` (a Lean identifier that starts
    with `_` is treated as unused); the bare `_` and the names of called functions (`_ws2doptvp`) are left alone"""

    def visit_Call(self, node):
        f = node.func
        node = self.generic_visit(node)
        if isinstance(f, ast.Name):
            node.func = f
        return node

    def visit_Name(self, node):
        if node.id.startswith("_") and node.id != "_":
            clash = "u" + node.id
            return ast.copy_location(ast.Name(id=clash, ctx=node.ctx), node)
        return node


def lean_sig(cfg):
    parts = []
    for n, t in cfg["params"]:
        if t in ("skip", "none"):
            continue
        parts.append(f"({n} : {KA.LEAN_TY[t]})")
        if n in cfg.get("dims", {}):
            parts.append("(" + " ".join(cfg["dims"][n]) + " : Int)")
    return " ".join(parts)


def translate(cfg):
    """the Lean text of one `def` (one specialisation of one kernel) and the hash of the function source"""
    src = (REPO / cfg["file"]).read_text()
    mod = ast.parse(src)
    fn = [n for n in ast.walk(mod) if isinstance(n, ast.FunctionDef) and n.name == cfg["func"]][-1]
    sha = hashlib.sha256(ast.get_source_segment(src, fn).encode()).hexdigest()[:16]
    fn = Underscore().visit(fn)
    k = (cfg.get("translator") or KA)(cfg, fn)
    body = k.run()
    rty = cfg.get("rty") or "α"
    doc = f"`{cfg['file']}::{cfg['func']}`" + (f", specialisation {cfg['spec']}" if cfg.get("spec") else "")
    return f"/-- {doc} -/\ndef {cfg['name']} {cfg['uses']} {cfg['extra']} {lean_sig(cfg)} : {rty} := Id.run do\n{body}\n", sha


def write_module(module, cfgs, tool):
    """one generated module: the specialisations of one Python function"""
    defs, shas = [], set()
    for cfg in cfgs:
        text, sha = translate(cfg)
        defs.append(text)
        shas.add(sha)
    c0 = cfgs[0]
    imports = "".join(f"import {m}\n" for m in dict.fromkeys(["Hdc.Gen.NumBase"] + [m for c in cfgs for m in c.get("imports", [])]))
    text = (f"{imports}/-\nGENERATED by harness/{tool}.py from {c0['file']}::{c0['func']} (sha256 of the function source {', '.join(sorted(shas))}).  Do not edit.\n-/\n"
            f"namespace Hdc.Gen.NumKernels\nopen Hdc\nvariable {{α : Type}} [Add α] [Sub α] [Mul α] [Div α] [Neg α] [NatCast α] [LT α] [DecidableLT α]\n\n"
            + "\n".join(defs) + "\nend Hdc.Gen.NumKernels\n")
    path = GEN / f"{module}.lean"
    if not path.exists() or path.read_text() != text:
        tmp = path.with_suffix(".tmp")
        tmp.write_text(text)
        tmp.replace(path)
        print(f"{tool}: wrote {path}")


def run(modules, tool, only=()):
    rc = 0
    for module, cfgs in modules:
        if only and module not in only and not any(c["name"] in only for c in cfgs):
            continue
        try:
            write_module(module, cfgs, tool)
        except (Unsupported, StopIteration, KeyError, IndexError, AttributeError, OSError, SyntaxError, TypeError) as e:
            print(f"FAILED Hdc.Gen.{module}: unsupported construct in {cfgs[0]['func']}: {e!r}")
            rc = 1
    return rc


AC = "hdc/algo/ops/autocorr.py"
FE = "(rsqrt : α → α) (eps : α)"                   # x ** -0.5, 1e-8
FN = "(isnan : α → Bool) " + FE                    # + isnan (the float twin)

# the specialisations of autocorr_1d, by argument types -> (head of the Lean call, result type)
CALL_1D = {("arrnum", "none"): ("autocorr_1d_none isnan rsqrt eps", "num"),
           ("arrint", "int"): ("autocorr_1d_nd rsqrt eps", "num")}


def wrapper(name, func, spec, order):
    none = spec == "none"
    return dict(name=name, file=AC, func=func, spec="nodata omitted (float data)" if none else "integer data, integer nodata",
                params=[(order, "arrnum" if none else "arrint"), ("nodata", "none" if none else "int")],
                dims={order: [f"{order}_d0", f"{order}_d1", f"{order}_d2"]}, defaults={"nodata": None},
                consts={}, extra=(FN if none else FE) + " (store32 : α → α)", uses="" if none else "[IntCast α]", ret=None, rty="Array α",
                imports=["Hdc.PyNpT", "Hdc.PyNpX", "Hdc.Gen.NumAutocorr1d"], spec_calls={"autocorr_1d": CALL_1D})


MODULES = [
    ("NumAutocorrInt", [
        dict(name="autocorr_1d_int", file=AC, func="autocorr_1d_int", params=[("data", "arrint"), ("nodata", "int")],
             consts={"1e-08": "eps"}, extra=FE, uses="[IntCast α]", ret=None, imports=["Hdc.PyNpT"])]),
    ("NumAutocorr1d", [
        dict(name="autocorr_1d_none", file=AC, func="autocorr_1d", spec="nodata omitted (float data)",
             params=[("data", "arrnum"), ("nodata", "none")], defaults={"nodata": None}, consts={}, extra=FN, uses="", ret=None,
             imports=["Hdc.PyNpT", "Hdc.Gen.NumAutocorrFloat", "Hdc.Gen.NumAutocorrInt"],
             calls={"autocorr_1d_float": ("autocorr_1d_float isnan rsqrt eps", "num")}),
        dict(name="autocorr_1d_nd", file=AC, func="autocorr_1d", spec="integer data, integer nodata",
             params=[("data", "arrint"), ("nodata", "int")], defaults={"nodata": None}, consts={}, extra=FE, uses="[IntCast α]", ret=None,
             imports=["Hdc.PyNpT", "Hdc.Gen.NumAutocorrFloat", "Hdc.Gen.NumAutocorrInt"],
             calls={"autocorr_1d_int": ("autocorr_1d_int rsqrt eps", "num")})]),
    ("NumAutocorrYxt", [wrapper("autocorr_yxt_none", "autocorr", "none", "x"), wrapper("autocorr_yxt_nd", "autocorr", "nd", "x")]),
    ("NumAutocorrTyx", [wrapper("autocorr_tyx_none", "autocorr_tyx", "none", "tyx"), wrapper("autocorr_tyx_nd", "autocorr_tyx", "nd", "tyx")]),
]

if __name__ == "__main__":
    sys.exit(run(MODULES, TOOL, set(sys.argv[1:])))
