"""Argument handling of the accessors that take a `nodata` argument: the value passed explicitly identifies the missing cells, whatever
`nodata` attribute the array happens to carry (e.g. a stale one kept from the source file).  Shared by C03 / C04 / C05 / C08 / C17."""
import numpy as np


def ops():
    sr = np.arange(-1.0, 2.5, 0.5)
    groups = None
    return {
        "whits": lambda d, v: d.hdc.whit.whits(nodata=v, s=10.0),
        "whits_p": lambda d, v: d.hdc.whit.whits(nodata=v, s=10.0, p=0.9),
        "whitsvc": lambda d, v: d.hdc.whit.whitsvc(nodata=v, srange=sr),
        "whitsvc_p": lambda d, v: d.hdc.whit.whitsvc(nodata=v, srange=sr, p=0.9),
        "whitswcv": lambda d, v: d.hdc.whit.whitswcv(nodata=v, srange=sr, robust=False),
        "whitswcv_p": lambda d, v: d.hdc.whit.whitswcv(nodata=v, srange=sr, p=0.9, robust=True),
        "spi": lambda d, v: d.hdc.algo.spi(nodata=v),
        "spi_grp": lambda d, v: d.hdc.algo.spi(nodata=v, groups=[i % 2 for i in range(d.sizes["time"])]),
        "rolling.sum": lambda d, v: d.hdc.rolling.sum(3, nodata=v),
        "mean_grp": lambda d, v: d.hdc.algo.mean_grp([i % 3 for i in range(d.sizes["time"])], nodata=v),
    }


def _same(a, b):
    import xarray as xr
    if isinstance(a, xr.Dataset):
        return set(a.data_vars) == set(b.data_vars) and all(_same(a[k], b[k]) for k in a.data_vars)
    return a.dtype == b.dtype and np.array_equal(np.asarray(a), np.asarray(b.transpose(*a.dims)), equal_nan=a.dtype.kind == "f")


def nodata_precedence(ctx, which):
    import xarray as xr
    import hdc.algo  # noqa: F401
    rng = ctx.rng
    table = ops()
    nt = 24
    for name in which:
        for marker, stale in ((0, -9999), (-3000, 0), (9999, -9999)):
            vals = np.array([[[rng.randint(50, 3000) for _ in range(2)] for _ in range(2)] for _ in range(nt)], dtype="int16")
            for _ in range(10):
                vals[rng.randrange(nt), rng.randrange(2), rng.randrange(2)] = marker
            vals[:, 1, 1] = marker if name.startswith(("spi", "rolling", "mean")) else vals[:, 1, 1]
            t = (np.datetime64("2000-01-01") + (np.arange(nt) * 10).astype("timedelta64[D]"))
            plain = xr.DataArray(vals, dims=("time", "y", "x"), coords={"time": t})
            tagged = xr.DataArray(vals.copy(), dims=("time", "y", "x"), coords={"time": t}, attrs={"nodata": stale})
            ctx.case(("nodata-precedence", name, marker, stale), sample=dict(accessor=name, nodata_argument=marker, nodata_attribute=stale))
            ctx.count("nodata argument vs attribute")
            try:
                a, b = table[name](plain, marker), table[name](tagged, marker)
            except Exception as e:  # noqa: BLE001
                ctx.fail(name, dict(nodata_argument=marker, nodata_attribute=stale), repr(e)[:160], "no exception")
                continue
            if not _same(a, b):
                ctx.fail(name + " accessor", dict(pixel=vals[:, 0, 0].tolist(), nodata_argument=marker, nodata_attribute=stale),
                         "result differs from the one on the same array without the attribute", "the explicit nodata argument identifies the missing cells",
                         note="an attribute on the array must not override the nodata value that is passed explicitly")
