"""Shared helpers for the smoother properties C02-C06: calling the real kernels, the Lean models, comparing."""
import math

import numpy as np

from . import core, gen

VARIANTS = ("gu", "pgu", "optv", "optvp", "optvplc", "wcv", "wcvp", "wcvr", "wcvpr")
NANOK = ("gu", "pgu", "wcv", "wcvp", "wcvr", "wcvpr")        # kernels that also treat NaN / inf cells as missing


def _grids():
    """The three log10(lambda) grids of ws2doptvplc exactly as compiled code builds them: Numba's np.arange
    accumulates `val += step`, so its entries differ from NumPy's `start + i*step` in the last bits."""
    import numba

    @numba.njit
    def g():
        return np.arange(-2, 1.2, 0.2), np.arange(0, 3.2, 0.2), np.arange(-1, 1.2, 0.2)

    return g()


GRID_HI, GRID_LO, GRID_NAN = _grids()


def call(variant, yy, nd, prm):
    """Run the real compiled kernel. yy: float64 array with placeholders in place. Returns (band int64 array, lopt or None)."""
    from hdc.algo import ops
    nd = float(nd)
    if variant == "gu":
        return np.asarray(ops.ws2dgu(yy, prm["lam"], nd)).astype(np.int64), None
    if variant == "pgu":
        return np.asarray(ops.ws2dpgu(yy, prm["lam"], nd, prm["p"])).astype(np.int64), None
    if variant == "optv":
        b, l = ops.ws2doptv(yy, nd, np.asarray(prm["sr"], dtype="float64"))
    elif variant == "optvp":
        b, l = ops.ws2doptvp(yy, nd, prm["p"], np.asarray(prm["sr"], dtype="float64"))
    elif variant == "optvplc":
        b, l = ops.ws2doptvplc(yy.astype("int16"), nd, prm["p"], prm["lc"])
    elif variant in ("wcv", "wcvr"):
        b, l = ops.ws2dwcv(yy, nd, np.asarray(prm["sr"], dtype="float64"), variant == "wcvr")
    elif variant in ("wcvp", "wcvpr"):
        b, l = ops.ws2dwcvp(yy, nd, prm["p"], np.asarray(prm["sr"], dtype="float64"), variant == "wcvpr")
    else:
        raise ValueError(variant)
    return np.asarray(b).astype(np.int64), float(l)


def line(variant, yy, nd, prm, mode="F"):
    """Driver request for the Lean model of the same call."""
    enc_a, enc = (core.farr, core.f2h) if mode == "F" else (core.qarr, core.q2s)
    if variant == "gu":
        return f"gu {mode} {enc_a(yy)} {enc(prm['lam'])} {enc(nd)}"
    if variant == "pgu":
        return f"pgu {mode} {enc_a(yy)} {enc(prm['lam'])} {enc(nd)} {enc(prm['p'])}"
    if variant == "optv":
        return f"optv {mode} {enc_a(yy)} {enc(nd)} {enc_a(prm['sr'])}"
    if variant == "optvp":
        return f"optvp {mode} {enc_a(yy)} {enc(nd)} {enc(prm['p'])} {enc_a(prm['sr'])}"
    if variant == "optvplc":
        lc = prm["lc"]
        return (f"optvplc {mode} {enc_a(yy)} {enc(nd)} {enc(prm['p'])} {int(lc > 0.5)} {int(lc <= 0.5)} "
                f"{enc_a(GRID_HI)} {enc_a(GRID_LO)} {enc_a(GRID_NAN)}")
    if variant in ("wcv", "wcvr"):
        return f"wcv {mode} {enc_a(yy)} {enc(nd)} {enc_a(prm['sr'])} {int(variant == 'wcvr')}"
    if variant in ("wcvp", "wcvpr"):
        return f"wcvp {mode} {enc_a(yy)} {enc(nd)} {enc(prm['p'])} {enc_a(prm['sr'])} {int(variant == 'wcvpr')}"
    raise ValueError(variant)


def parse_answer(a, mode="F"):
    """-> ('pass',) | ('err', kind) | ('curve', curve list, rounded list, lopt or None)"""
    t = a.split()
    if t[0] == "err":
        return ("err", t[1])
    if t[1] == "pass":
        return ("pass",)
    conv = core.h2f if mode == "F" else core.parse_q
    curve = core.parse_arr(t[2], conv)
    rnd = core.parse_arr(t[3], conv)
    lopt = conv(t[4]) if len(t) > 4 else None
    return ("curve", curve, rnd, lopt)


def min_valid(variant):
    return 5 if variant.startswith("wcv") else 2


def params(rng, variant):
    prm = {}
    if variant in ("gu", "pgu"):
        prm["lam"] = gen.lam(rng)
    if variant in ("pgu", "optvp", "optvplc", "wcvp", "wcvpr"):
        prm["p"] = rng.choice([0.05, 0.5, 0.8, 0.9, 0.95, rng.uniform(0.01, 0.99)])
    if variant in ("optv", "optvp") or variant.startswith("wcv"):
        prm["sr"] = gen.srange(rng)
        if variant in ("optv", "optvp") and len(prm["sr"]) < 3:
            prm["sr"] = list(np.arange(3) * 0.5 - 1)
    if variant == "optvplc":
        prm["lc"] = rng.choice([0.9, 0.51, 0.5, 0.2, -0.7, 0.0, 1.0, -1.0, 0.5000001])
    return prm


def make_case(rng, variant, n=None, kind=None, min_ok=None, small=False):
    """(values list, mask list, params): a structured series with gaps."""
    n = n or gen.lengths(rng, small=small)
    if variant == "optvplc" and n < 5:
        n = 5
    y = gen.series(rng, n, kind)
    mv = min_valid(variant) if min_ok is None else min_ok
    m = gen.gaps(rng, n, min_valid=mv)
    return y, m, params(rng, variant)


def encode(y, m, nd):
    return np.array([float(v) if ok else float(nd) for v, ok in zip(y, m)], dtype="float64")


def in_int16(curve):
    c = np.asarray(curve, dtype="float64")
    return bool(np.all(np.isfinite(c)) and c.min() > -32767.4 and c.max() < 32766.4)


def band_matches(band, curve):
    """band must be the half-even rounding of curve; a difference of one unit is tolerated only where the
    curve is within 1e-6 of a half-integer (rounding tie). Returns (ok, n_tie_tolerated)."""
    c = np.asarray(curve, dtype="float64")
    r = np.rint(c)
    d = np.asarray(band, dtype="float64") - r
    if not np.any(d):
        return True, 0
    frac = np.abs(c - np.floor(c) - 0.5)
    bad = (d != 0) & ~((np.abs(d) == 1) & (frac < 1e-6) & (np.abs(np.asarray(band) - c) < 0.5 + 1e-6))
    return (not bad.any()), int(np.sum(d != 0))


def ties_ok(b1, b2, curve, tol=1e-6):
    """two integer bands that should be equal: differences of one unit tolerated only at rounding ties of `curve`."""
    b1, b2 = np.asarray(b1), np.asarray(b2)
    d = b1 != b2
    if not d.any():
        return True
    c = np.asarray(curve, dtype="float64")
    frac = np.abs(c - np.floor(c) - 0.5)
    return bool(np.all(~d | ((np.abs(b1 - b2) == 1) & (frac < tol))))
