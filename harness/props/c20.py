"""C20  Temporal interpolation averages the daily Whittaker curve per period."""
from fractions import Fraction

import numpy as np

from .. import core, gen

RULE = ("int16 series of 5..400 observations (quick to 72) with mark spacings regular 5/8/10/16 days and irregular, contiguous labelings (label ids ascending, wrapping around like period-of-year numbers, descending) "
        "(dekads, pentads, months), total daily length up to ~4000 (quick ~1200). Correspondence: compiled tinterpolate vs Lean model at "
        "Float (bit level on the period means, band equal) and, for short cases, vs the model at Rat (exact curve). Oracle on the real code: "
        "constant series -> that constant everywhere; series linear in day number -> exact period means of the line (rounded); template and "
        "labels unchanged by the call; whitint accessor. Non-trivial = distinct (series, template, labels) with >= 2 label runs.")
LEVEL_NOTE = ("scatterMarks_spec, runMeans_spec, tinterp_const, tinterp_linear / tinterp_linear_mean (from ws2d_affine) are proved for the Lean model; the "
              "conditioning of the lambda = 1e-5 system over thousands of days in float64 is sampled, not proved.")


def layout(rng, nobs):
    spacing = rng.choice([5, 8, 10, 16, "irr"])
    marks, d = [], 0
    for _ in range(nobs):
        marks.append(d)
        d += rng.randint(2, 20) if spacing == "irr" else spacing
    ndays = marks[-1] + rng.randint(1, 12)
    template = np.zeros(ndays, dtype="float64")
    template[marks] = 1
    kind = rng.choice(["dekad", "pentad", "month"])
    length = {"dekad": 10, "pentad": 5, "month": 30}[kind]
    start = rng.randint(0, length - 1)
    runs = [(i + start) // length for i in range(ndays)]
    nruns = runs[-1] + 1
    # the label VALUES only have to be equal within a period and distinct between periods: running ids, period-of-year ids that
    # wrap around at New Year (..., 35, 36, 1, 2, ...), descending ids
    style = rng.choice(["ascending", "ascending", "wrap", "descending"])
    if style == "wrap" and nruns > 1:
        off = rng.randint(1, nruns - 1)
        ids = [(r + off) % nruns + 1 for r in range(nruns)]
    elif style == "descending":
        ids = [5000 - r for r in range(nruns)]
    else:
        ids = list(range(nruns))
    labels = np.array([ids[r] for r in runs], dtype="int32")
    return marks, template, labels, kind + "/" + style


def run(ctx: core.Ctx):
    import xarray as xr
    import hdc.algo  # noqa: F401
    from hdc.algo.ops import tinterpolate

    rng = ctx.rng
    flines, frefs, qlines, qrefs = [], [], [], []
    for k in range(ctx.budget(80, 600)):
        nobs = rng.choice([5, 6, 8, 12, 23, 36, 72] + ([] if ctx.quick else [144, 250, 400]))
        marks, template, labels, kind = layout(rng, nobs)
        fam = rng.choice(["const", "linear", "ndvi", "walk", "ndvi", "zeros", "sign"])
        if fam == "const":
            x = np.full(nobs, rng.randint(-3000, 9000), dtype="int16")
        elif fam == "linear":
            a, b = rng.randint(-2000, 4000), rng.choice([-3, -1, 1, 2, 5])
            if abs(a + b * marks[-1]) > 10000:
                b = 1 if a < 0 else -1
            x = np.array([a + b * d for d in marks], dtype="int16")
        elif fam == "zeros":
            x = np.array(gen.series(rng, nobs, "ndvi"), dtype="int16")
            for i in rng.sample(range(nobs), max(1, nobs // 5)):
                x[i] = 0                      # an observation that is exactly 0 is still an observation
        else:
            x = np.array(gen.series(rng, nobs, fam), dtype="int16")
        nruns = int(1 + np.count_nonzero(np.diff(labels)))
        tout = np.zeros(nruns, dtype="u1")
        t0, l0 = template.copy(), labels.copy()
        out = tinterpolate(x, template, labels, tout)
        inp = dict(x=x.tolist() if nobs <= 40 else dict(n=nobs, head=x[:10].tolist()), marks=marks[:40], days=len(template), labels=kind, family=fam)
        ctx.case((x.tobytes(), template.tobytes(), labels.tobytes()), nontrivial=nruns >= 2,
                 sample=dict(n=nobs, days=len(template), labels=kind, family=fam, out=np.asarray(out)[:6].tolist()))
        ctx.count(fam)
        ctx.count(f"days<={1 << (len(template) - 1).bit_length()}")
        # the template is a 0/1 mask: however it is stored (float64 as documented, float32, integer or bool masks are up-cast by the
        # gufunc machinery) the result is the same
        if k % 3 == 0:
            for tdt in ("uint8", "bool", "float32", "int64"):
                alt = tinterpolate(x, template.astype(tdt), labels, tout)
                ctx.count("template dtype variants")
                if not np.array_equal(np.asarray(alt), np.asarray(out)):
                    ctx.fail("tinterpolate", dict(inp, template_dtype=tdt), np.asarray(alt).tolist(), np.asarray(out).tolist(),
                             note="the result does not depend on the storage type of the 0/1 template")
                    break
        if not (np.array_equal(template, t0) and np.array_equal(labels, l0)):
            ctx.fail("tinterpolate", inp, "inputs modified", "template and labels are left unmodified")
        if len(out) != nruns:
            ctx.fail("tinterpolate", inp, len(out), nruns, note="one value per distinct label")
        if fam == "const" and not np.all(np.asarray(out) == x[0]):
            ctx.fail("tinterpolate", inp, np.asarray(out).tolist(), int(x[0]), note="a constant series yields that constant everywhere")
        if fam == "linear":
            a_, b_ = int(x[0]), (int(x[1]) - int(x[0])) // (marks[1] - marks[0])
            bounds = np.flatnonzero(np.diff(labels)) + 1
            segs = np.split(np.arange(len(labels)), bounds)
            exact = [Fraction(sum(a_ + b_ * int(d) for d in s), len(s)) for s in segs]
            want = np.array([int(round(v)) for v in exact])   # Python round: half to even on Fraction
            got = np.asarray(out).astype(np.int64)
            tie = np.array([abs((v - int(v // 1)) - Fraction(1, 2)) < Fraction(1, 10 ** 4) for v in exact])
            if not np.all((got == want) | (tie & (np.abs(got - want) <= 1))):
                ctx.fail("tinterpolate", inp, got.tolist(), want.tolist(), note="a series linear in day number yields the exact period means of that line")
        flines.append(f"tinterp F {core.farr(x.astype('float64'))} {core.farr(template)} {core.iarr(labels)}")
        frefs.append((inp, np.asarray(out).astype(np.int64)))
        if len(template) <= 130:
            qlines.append(f"tinterp Q {core.qarr([int(v) for v in x])} {core.qarr([int(v) for v in template])} {core.iarr(labels)}")
            qrefs.append((inp, np.asarray(out).astype(np.int64)))
    for (inp, out), a in zip(frefs, ctx.driver.ask(flines)):
        t = a.split()
        band = np.array([core.h2f(v) for v in t[2][1:-1].split(",")]).astype(np.int64)
        if not np.array_equal(band, out):
            ctx.disagree("F", "tinterpolate", inp, band.tolist()[:10], out.tolist()[:10])
    for (inp, out), a in zip(qrefs, ctx.driver.ask(qlines, timeout=1800)):
        t = a.split()
        means = core.parse_arr(t[1], core.parse_q)
        band = np.array([int(v) for v in core.parse_arr(t[2], core.parse_q)])
        tie = np.array([abs((v - (v.numerator // v.denominator)) - Fraction(1, 2)) < Fraction(1, 10 ** 5) for v in means])
        if not np.all((band == out) | (tie & (np.abs(band - out) <= 1))):
            ctx.fail("tinterpolate", inp, out.tolist(), band.tolist(), note="band must be the rounded period mean of the exact daily Whittaker curve (lambda = 1e-5, weight on marks)")
    ctx.count("exact (Rat) comparisons", len(qlines))

    from .. import strided
    strided.probe(ctx, "a non-contiguous view of an argument gives exactly the result of its contiguous copy (the kernel reads the cells it was given)", only=['tinterpolate'])
    # accessor
    for k in range(ctx.budget(3, 20)):
        nobs = rng.choice([6, 12, 36])
        marks, template, labels, kind = layout(rng, nobs)
        cube = np.array([[[0] * 2] * 2] * nobs, dtype="int16")
        for i in range(2):
            for j in range(2):
                cube[:, i, j] = gen.series(rng, nobs, "ndvi")
        t = np.arange(nobs).astype("datetime64[D]")
        # the observations are taken in the order in which they are stored (mark order); the values of the time coordinate play no role
        # (a season crossing New Year on a dummy-year axis, files concatenated in another order, a descending axis)
        if k % 3 == 1:
            t = t[::-1].copy()
        elif k % 3 == 2:
            t = np.roll(t, nobs // 2)
        # every int16 value is an observation for whitint (the array's nodata attribute, if any, plays no role): one pixel passes through
        # the attribute's value once
        attrs = {} if k % 2 else {"nodata": -9999}
        if attrs:
            cube[rng.randrange(nobs), 0, 0] = -9999
        da = xr.DataArray(cube, dims=("time", "y", "x"), coords={"time": t}, attrs=attrs)
        res = da.hdc.whit.whitint(labels, template)
        nruns = int(1 + np.count_nonzero(np.diff(labels)))
        ctx.case(("whitint", cube.tobytes(), template.tobytes()), sample=dict(accessor="whitint", n=nobs, days=len(template)))
        ctx.count("whitint")
        for i in range(2):
            for j in range(2):
                want = tinterpolate(np.ascontiguousarray(cube[:, i, j]), template, labels, np.zeros(nruns, dtype="u1"))
                got = np.asarray(res.transpose("newtime", ...))[:, i, j]
                if not np.array_equal(got, want) or res.dtype != np.int16:
                    ctx.fail("whitint", dict(x=cube[:, i, j].tolist()), got.tolist(), np.asarray(want).tolist())
    core.acc_dispatch(ctx, ['whitint'])
    ctx.trusted += ["native model driver (Hdc/Model/Stats.lean tinterp at Float and Rat)", "harness/props/c20.py oracle (exact Fraction period means)"]


def search(ctx):
    ctx.quick = False
    run(ctx)
