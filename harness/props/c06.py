"""C06  Smoothers keep linear series, commute with offsets and time reversal."""
import numpy as np

from .. import core, gen, smooth

RULE = ("all nine smoother variants on the real compiled kernels: (a) exactly linear series with gaps -> returned unchanged, gaps filled on "
        "the line; (b) integer offset c added to the valid cells and to the placeholder -> same lambda, band shifted by c; (c) time "
        "reversal for the fixed-lambda and V-curve variants -> reversed band, same lambda. One unit of difference tolerated only where the "
        "unrounded curve (Lean model at Float) is within 1e-6 of a rounding tie, a different lambda only where the model's selection "
        "criterion is tied (second-best within 1e-9 relative). Correspondence: compiled vs Lean model at Float for every call. Non-trivial = "
        "distinct (variant, series, mask, params, transformation).")
LEVEL_NOTE = ("ws2d_affine / ws2d_shift / ws2d_reverse (from uniqueness, C01) lifted to gu, optv, wcv (robust under RobustWeightsOK) and to the "
              "final stage of the asymmetric kernels; for the asymmetric variants the unconditional offset statement is not a theorem of the "
              "algorithm (the loop starts from the zero curve): proved under 'both runs reached the expectile fixed point' "
              "(expectile_shift_of_converged, with uniqueness of the fixed point proved) and otherwise sampled by the oracle.")

REVERSIBLE = ("gu", "pgu", "optv", "optvp", "optvplc")


def exact_fit(arr, mask, lams):
    """True when the Whittaker curve reproduces the valid cells (relative residual < 1e-9) at every lambda given."""
    from hdc.algo.ops.ws2d import ws2d
    w = mask.astype("float64")
    y = np.where(mask, arr, 0.0)
    scale = max(1.0, float(np.max(np.abs(y))))
    for lam in lams:
        if lam is None or not lam > 0:
            return False
        z = ws2d(y, float(lam), w)
        if not np.sqrt(np.sum((w * (y - z)) ** 2)) <= 1e-9 * scale:
            return False
    return True


def robust_weights(ctx, variant, arr, nd, prm):
    """final robust weights of the run, from the Lean model (tied to the kernel bit for bit by this run's correspondence)"""
    a = ctx.driver.ask([f"wcvdiag F {core.farr(arr)} {core.f2h(nd)} {core.farr(prm['sr'])} 1"])[0].split()
    return np.array(core.parse_arr(a[3], core.h2f)) if a[0] == "ok" else None


def criterion_unresolved(variant, a1, a2, mask1, mask2, prm, l1, l2, reverse=False, weights=None):
    """The selection criterion recomputed independently (NumPy + the compiled ws2d core) for both inputs.
    Returns a reason string when a different lambda is tolerated, else None:
      * 'float-resolution': the criterion values of the two (mathematically equivalent) inputs differ by more than
        1e-6 relative somewhere on the grid, or are not finite -> the criterion is below floating-point resolution there;
      * 'tie': both selected grid points have criterion values within 1e-6 of the curve's spread."""
    from .c04 import vcurve_asym, vcurve_sym
    from .c05 import gcv_scores
    sr = np.asarray(prm["sr"], dtype="float64") if "sr" in prm else (smooth.GRID_HI if prm.get("lc", 0) > 0.5 else smooth.GRID_LO)
    p = prm.get("p")

    def crit(arr, mask):
        w = mask.astype("float64") if weights is None else weights[0 if arr is a1 else 1]
        y = np.where(mask, arr, 0.0)
        with np.errstate(all="ignore"):
            if variant in ("optv",):
                return vcurve_sym(y, w, sr), 10 ** ((sr[:-1] + sr[1:]) / 2)
            if variant in ("optvp", "optvplc"):
                return vcurve_asym(y, w, p, sr), 10 ** ((sr[:-1] + sr[1:]) / 2)
            return gcv_scores(y, w, sr), 10 ** sr

    va, grid = crit(a1, mask1)
    vb, _ = crit(a2, mask2)
    if not (np.all(np.isfinite(va)) and np.all(np.isfinite(vb))):
        return "float-resolution"
    scale = np.maximum(1e-300, np.maximum(np.abs(va), np.abs(vb)))
    if np.max(np.abs(va - vb) / scale) > 1e-6:
        return "float-resolution"
    ka, kb = int(np.argmin(np.abs(np.log(grid) - np.log(l1)))), int(np.argmin(np.abs(np.log(grid) - np.log(l2))))
    spread = max(float(va.max() - va.min()), 1e-300)
    if abs(va[ka] - va[kb]) <= 1e-6 * spread:
        return "tie"
    return None


def gcv_degenerate(ctx, variant, arr, nd, prm):
    """Robust / non-robust GCV: the selection criterion is degenerate (tied in exact arithmetic) when the best score is
    zero up to rounding, i.e. the weighted fit reproduces the weighted cells exactly.  The score history comes from the
    Lean model (which the correspondence of this run ties to the kernel bit for bit)."""
    a = ctx.driver.ask([f"wcvdiag F {core.farr(arr)} {core.f2h(nd)} {core.farr(prm['sr'])} {int(variant.endswith('r'))}"])[0].split()
    if a[0] != "ok":
        return False
    scores = core.parse_arr(a[1], core.h2f)
    valid = arr[arr != nd]
    scale = max(1.0, float(np.max(np.abs(valid)))) ** 2
    return min(scores) <= 1e-18 * scale


def run(ctx: core.Ctx):
    rng = ctx.rng
    per = ctx.budget(14, 140)
    jobs = []   # (variant, kind, arrA, ndA, arrB, ndB, prm, extra)
    for variant in smooth.VARIANTS:
        for k in range(per):
            n = rng.choice([4, 5, 6, 8, 10, 16, 24, 36] + ([] if ctx.quick else [72, 144, 200]))
            if variant == "optvplc":
                n = max(n, 5)
            tkind = rng.choice(["linear", "shift", "shift", "reverse"] if variant in REVERSIBLE else ["linear", "shift", "shift"])
            y, m, prm = smooth.make_case(rng, variant, n=n, kind="linear" if tkind == "linear" else None)
            if tkind == "linear":
                b = rng.choice([-25, -3, -1, 0, 1, 2, 8, 40])
                a = rng.randint(-1500, 1500)
                y = [a + b * i for i in range(n)]
            valid = [v for v, ok in zip(y, m) if ok]
            nd = gen.placeholder(rng, valid)
            jobs += make_jobs(rng, variant, y, m, nd, prm, [tkind])
    import json
    corpus = json.loads((core.ROOT / "corpus" / "selection_sensitive.json").read_text())
    for variant in ("optv", "optvp"):
        for c in corpus[variant][: (25 if ctx.quick else 60)]:
            prm = dict(sr=c["sr"]) if variant == "optv" else dict(sr=c["sr"], p=c["p"])
            jobs += make_jobs(rng, variant, c["y"], [bool(b) for b in c["mask"]], -3000, prm, ["reverse", "shift"])
    evaluate(ctx, jobs)
    # exactly linear series whose gaps are marked by NaN / +inf / -inf (float cubes): kept on the line, and shifted with the offset
    for variant in smooth.NANOK:
        for k in range(ctx.budget(4, 30)):
            n = rng.choice([8, 12, 24, 36])
            a0, b0 = rng.randint(-2000, 4000), rng.choice([-25, -3, 1, 7, 40])
            line = [a0 + b0 * i for i in range(n)]
            m = [True] * n
            for i in rng.sample(range(1, n - 1), max(1, n // 6)):
                m[i] = False
            if sum(m) < smooth.min_valid(variant) + 1:
                continue
            _, _, prm = smooth.make_case(rng, variant, n=n)
            for bad, nm in ((float("nan"), "NaN"), (float("inf"), "+inf"), (float("-inf"), "-inf")):
                for c in (0, 1234):
                    arr = np.array([float(v + c) if ok else bad for v, ok in zip(line, m)], dtype="float64")
                    got = smooth.call(variant, arr, -3000.0, prm)[0]
                    ctx.case(("linear-gapcode", variant, a0, b0, tuple(m), nm, c), sample=dict(variant=variant, placeholder=nm, offset=c))
                    ctx.count("linear series, non-finite gap marks")
                    want = np.array([v + c for v in line])
                    if not np.array_equal(got, want):
                        ctx.fail(variant, dict(y=[None if not ok else v + c for v, ok in zip(line, m)], placeholder=nm, params=prm), got.tolist(), want.tolist(),
                                 note="an exactly linear series is returned unchanged, its gaps filled on the same line")
                        break
    # input ENCODINGS at stiff lambda: the same integer-valued linear series stored as int16 / int32 / float32 / float64 is kept on its line,
    # shifts with an offset and reverses with time (a single-precision solve would lose ~2e-7 * lambda * |y|: units at lambda >= 1e3)
    for variant in ("gu", "pgu"):
        for k in range(ctx.budget(3, 12)):
            n = rng.choice([24, 60, 90, 120])
            a0, b0 = rng.randint(2000, 9000), rng.choice([-25, 7, 40, 90])
            base_line = [a0 + b0 * i for i in range(n)]
            if min(base_line) < 0 or max(base_line) + 9000 > 32000:
                b0 = 7
                base_line = [a0 + b0 * i for i in range(n)]
            m = [True] * n
            for i in rng.sample(range(1, n - 1), max(1, n // 8)):
                m[i] = False
            for lam in (1e3, 1e4):
                prm = dict(lam=lam, p=0.9)
                for dt in ("int16", "int32", "float32", "float64"):
                    for c, rev in ((0, False), (9000, False), (0, True)):
                        vals = [(v + c) if ok else -3000 for v, ok in zip(base_line, m)]
                        if rev:
                            vals = vals[::-1]
                        arr = np.array(vals, dtype=dt)
                        from hdc.algo import ops as _ops
                        got = np.asarray(_ops.ws2dgu(arr, lam, -3000.0) if variant == "gu" else _ops.ws2dpgu(arr, lam, -3000.0, 0.9)).astype(np.int64)
                        want = np.array([v + c for v in base_line])[::-1 if rev else 1]
                        ctx.case(("linear-encoding", variant, a0, b0, n, lam, dt, c, rev), sample=dict(variant=variant, dtype=dt, lam=lam, offset=c, reversed=rev))
                        ctx.count("linear series, input encodings at stiff lambda")
                        if not np.array_equal(got, want):
                            bad_i = int(np.argmax(got != want))
                            ctx.fail(variant, dict(y=vals if n <= 40 else dict(n=n, first=vals[:12]), dtype=dt, lam=lam, offset=c, reversed=rev, p=0.9 if variant == "pgu" else None),
                                     dict(cell=bad_i, got=int(got[bad_i])), dict(cell=bad_i, want=int(want[bad_i])),
                                     note="an exactly linear series is returned unchanged (gaps filled on the line) whatever the input dtype; offsets and reversal commute")
                            break
    ctx.trusted += ["native model driver (Hdc/Model/Smooth.lean at Float)", "harness/props/c06.py oracle (pairs of real calls)"]


def make_jobs(rng, variant, y, m, nd, prm, kinds):
    jobs = []
    n = len(y)
    arr = smooth.encode(y, m, nd)
    for tkind in kinds:
        if tkind == "linear":
            jobs.append((variant, tkind, arr, nd, None, None, prm, dict(y=y, m=m)))
        elif tkind == "shift":
            c = rng.choice([-1000, -37, -1, 1, 2, 500, 3000])
            if max(abs(v + c) for v in y) > 10000 or not (-32768 <= nd + c <= 32767):
                c = 1 if max(y) < 9999 else -1
            arr2 = smooth.encode([v + c for v in y], m, nd + c)
            jobs.append((variant, tkind, arr, nd, arr2, nd + c, prm, dict(c=c, m=m)))
        elif variant in REVERSIBLE:
            jobs.append((variant, "reverse", arr, nd, arr[::-1].copy(), nd, prm, dict(m=m)))
    return jobs


def evaluate(ctx, jobs):
    # real calls + model lines
    lines = []
    results = []
    for jn, (variant, tkind, a1, nd1, a2, nd2, prm, extra) in enumerate(jobs):
        if jn % 5 == 0 and len(a1) >= 4:
            # memory layout: a reversed view, a column of a 2-d block and a decimated view are the same series as their copies
            block = np.zeros((len(a1), 3))
            block[:, 1] = a1
            big = np.zeros(2 * len(a1) + 1)
            big[::2][: len(a1)] = a1
            for name, view in (("reversed view", a1[::-1]), ("column of a (time, pixel) block", block[:, 1]), ("every second cell of a buffer", big[::2][: len(a1)])):
                rv, rc = smooth.call(variant, view, nd1, prm), smooth.call(variant, np.ascontiguousarray(view), nd1, prm)
                ctx.count("strided input")
                if not np.array_equal(rv[0], rc[0]) or not (rv[1] == rc[1] or (rv[1] != rv[1] and rc[1] != rc[1])):
                    ctx.fail(variant, dict(variant=variant, y=[int(v) for v in np.asarray(view)], nodata=nd1, params=prm, layout=name),
                             dict(band=rv[0].tolist(), lopt=rv[1]), dict(band=rc[0].tolist(), lopt=rc[1]), note="a non-contiguous view of a series must be smoothed like its contiguous copy")
                    break
        r1 = smooth.call(variant, a1, nd1, prm)
        r2 = smooth.call(variant, a2, nd2, prm) if a2 is not None else None
        results.append((r1, r2))
        lines.append(smooth.line(variant, a1, nd1, prm))
        if a2 is not None:
            lines.append(smooth.line(variant, a2, nd2, prm))
    answers = iter(ctx.driver.ask(lines))
    for (variant, tkind, a1, nd1, a2, nd2, prm, extra), (r1, r2) in zip(jobs, results):
        m1 = smooth.parse_answer(next(answers))
        m2 = smooth.parse_answer(next(answers)) if a2 is not None else None
        inp = dict(variant=variant, transformation=tkind, y=[int(v) for v in a1], nodata=nd1, params=prm, **{k: v for k, v in extra.items() if k == "c"})
        ctx.case((variant, tkind, tuple(a1), nd1, str(prm), extra.get("c")), sample=dict(variant=variant, transformation=tkind, n=len(a1), c=extra.get("c")))
        ctx.count(f"{variant}/{tkind}")
        if m1[0] != "curve" or (m2 is not None and m2[0] != "curve"):
            ctx.count("pass-through or model error")
            if tkind == "shift" and m1[0] == "pass" and not np.array_equal(r2[0], r1[0] + extra["c"]):
                ctx.fail(variant, inp, r2[0].tolist(), (r1[0] + extra["c"]).tolist(), note="pass-through also commutes with the offset")
            continue
        if not smooth.in_int16(m1[1]) or (m2 is not None and not smooth.in_int16(m2[1])):
            ctx.count("out-of-claim(int16 range)")
            continue
        # correspondence
        for mm, rr, aa in ((m1, r1, a1), (m2, r2, a2)):
            if mm is None:
                continue
            if not np.array_equal(np.array(mm[2]), rr[0].astype(float)) or (mm[3] is not None and mm[3] != rr[1]):
                ctx.disagree("F", variant, dict(inp, y=[int(v) for v in aa]), dict(band=mm[2][:8], lopt=mm[3]), dict(band=rr[0][:8].tolist(), lopt=rr[1]))
        mask = np.array(extra["m"], dtype=bool)
        if tkind == "linear":
            want = np.array(extra["y"], dtype=np.int64)
            if sum(extra["m"]) < smooth.min_valid(variant):
                continue
            if variant.endswith("r") or variant in ("pgu", "optvp", "optvplc", "wcvp"):
                tol_ok = np.all(np.abs(r1[0] - want) <= 0) or smooth.ties_ok(r1[0], want, m1[1])
            else:
                tol_ok = smooth.ties_ok(r1[0], want, m1[1])
            if not tol_ok:
                ctx.fail(variant, inp, r1[0].tolist(), want.tolist(), note="an exactly linear series is returned unchanged and its gaps are filled on the same line")
        elif tkind == "shift":
            c = extra["c"]
            same_l = (r1[1] == r2[1]) or (r1[1] is not None and abs(r1[1] - r2[1]) <= 1e-12 * abs(r1[1]))
            if not same_l:
                if exact_fit(a1, mask, (r1[1], r2[1])) or (variant.startswith("wcv") and gcv_degenerate(ctx, variant, a1, nd1, prm)):
                    # the data are fitted exactly at both lambdas (e.g. an exactly linear series): log(fit) is rounding noise /
                    # -inf, the selection criterion is degenerate (tied in exact arithmetic); only the band is judged
                    ctx.count("criterion degenerate (exact fit): lambda not judged")
                    if not smooth.ties_ok(r2[0], r1[0] + c, np.array(m1[1]) + c):
                        ctx.fail(variant, inp, r2[0].tolist(), (r1[0] + c).tolist(), note="band must shift by the offset")
                    continue
                if variant.endswith("r"):
                    # robust: judge the criterion under the validity weights and under each run's final robust weights
                    why = criterion_unresolved(variant, a1, a2, mask, mask, prm, r1[1], r2[1])
                    if not why:
                        rw = (robust_weights(ctx, variant, a1, nd1, prm), robust_weights(ctx, variant, a2, nd2, prm))
                        if rw[0] is not None and rw[1] is not None:
                            why = criterion_unresolved(variant, a1, a2, mask, mask, prm, r1[1], r2[1], weights=rw)
                else:
                    why = criterion_unresolved(variant, a1, a2, mask, mask, prm, r1[1], r2[1])
                if why:
                    ctx.count(f"lambda differs, criterion {why}: not judged")
                    continue
                ctx.fail(variant, inp, dict(lopt_a=r1[1], lopt_b=r2[1]), "same lambda", signature=f"{variant}:shift-lambda",
                         note="offset must not change the selected lambda (except at criterion ties)")
                continue
            if not smooth.ties_ok(r2[0], r1[0] + c, np.array(m1[1]) + c):
                sig = f"{variant}:shift" if variant in ("gu", "optv", "wcv", "wcvr") else f"{variant}:shift-asymmetric"
                ctx.fail(variant, inp, r2[0].tolist(), (r1[0] + c).tolist(), signature=sig, note="band must shift by the offset")
        else:
            same_l = (r1[1] == r2[1]) or (r1[1] is not None and abs(r1[1] - r2[1]) <= 1e-9 * abs(r1[1]))
            if not same_l and exact_fit(a1, mask, (r1[1], r2[1])):
                ctx.count("criterion degenerate (exact fit): lambda not judged")
                same_l = True
            if not same_l:
                why = criterion_unresolved(variant, a1, a2, mask, mask[::-1].copy(), prm, r1[1], r2[1])
                if why:
                    ctx.count(f"lambda differs, criterion {why}: not judged")
                    continue
                ctx.fail(variant, inp, dict(lopt_a=r1[1], lopt_b=r2[1]), "same lambda", signature=f"{variant}:reverse-lambda")
                continue
            if not smooth.ties_ok(r2[0], r1[0][::-1], np.array(m1[1])[::-1]):
                # float summation order differs under reversal: allow one unit where model curves of both runs straddle a tie
                close = np.abs(np.array(m2[1]) - np.array(m1[1])[::-1]) < 1e-6
                if not (close.all() and smooth.ties_ok(r2[0], r1[0][::-1], np.array(m2[1]))):
                    ctx.fail(variant, inp, r2[0].tolist(), r1[0][::-1].tolist(), note="band of the reversed series must be the reversed band")
        del mask


def search(ctx):
    """A proof or the correspondence broke: first put every disagreeing input through all transformations on the real code
    (the model disagreeing with the kernel is the best hint where the property may fail), then the thorough random budget."""
    rng = ctx.rng
    jobs = []
    for d in list(ctx.disagreements)[:200]:
        inp = d["input"]
        try:
            y = [int(v) for v in inp["y"]]
            nd = int(inp["nodata"])
            variant, prm = inp["variant"], dict(inp["params"])
        except (KeyError, TypeError, ValueError):
            continue
        m = [v != nd for v in y]
        jobs += make_jobs(rng, variant, y, m, nd, prm, ["shift", "shift", "reverse"])
    evaluate(ctx, jobs)
    # many short series for the variants whose model and kernel disagree (selection changes show up on short, noisy series)
    bad_variants = sorted({d["input"].get("variant") for d in ctx.disagreements if isinstance(d["input"], dict)} - {None})
    for variant in bad_variants:
        if ctx.failures:
            break
        jobs = []
        for _ in range(1500):
            n = rng.choice([6, 8, 10, 12, 16])
            if variant == "optvplc":
                n = max(n, 6)
            y, m, prm = smooth.make_case(rng, variant, n=n, kind=rng.choice(["sign", "walk", "ndvi", "rain"]))
            m = [True] * n if rng.random() < 0.6 else m
            if "sr" in prm:
                prm["sr"] = list(np.arange(-2, 4.5, 0.5))
            nd = gen.placeholder(rng, [v for v, ok in zip(y, m) if ok])
            jobs += make_jobs(rng, variant, y, m, nd, prm, ["reverse", "shift"])
        evaluate(ctx, jobs)
    if not ctx.failures:
        ctx.quick = False
        run(ctx)
