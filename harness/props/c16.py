"""C16  Zonal mean is the exact mean and count of valid pixels per zone."""
import numpy as np

from .. import core

RULE = ("small random rasters (1..4 steps, up to 12x12, 1..6 zones incl. empty ones, nodata / zone-nodata / NaN pixels) through "
        "do_mean and the zonal.mean accessor (numpy and dask, float32 and float64 output), compared with the Lean model and an "
        "exact integer oracle; large zones (1e5 .. 2.5e7 pixels quick: up to 2e7) for the accuracy clause; pixel permutations. "
        "Non-trivial = distinct raster with at least two zones populated or a large zone.")
LEVEL_NOTE = ("Theorems are about the Lean model over Z (sum, count per zone); float64 accumulation of the repaired kernel is exact "
              "for integer pixels while count*max|v| < 2^53 (theorem sum_bound gives the bound), rounding of float-valued sums is sampled.")


def oracle(pix, zones, nz, nd, znd):
    out = []
    for k in range(nz):
        sel = (zones == k) & (zones != znd)
        res = []
        for t in range(pix.shape[0]):
            v = pix[t][sel]
            v = v[(v != nd)]
            res.append((int(v.astype(np.int64).sum()), int(v.size)))
        out.append(res)
    return out


def run(ctx: core.Ctx):
    from hdc.algo.ops.zonal import do_mean
    import dask.array as da_
    import xarray as xr
    import hdc.algo  # noqa: F401

    rng = ctx.rng
    lines, refs = [], []
    for _ in range(ctx.budget(150, 1500)):
        t, r, c = rng.randint(1, 3), rng.randint(1, 12), rng.randint(1, 12)
        nz = rng.randint(1, 6)
        nd, znd = rng.choice([-9999, 0, 255]), rng.choice([-1, 255, 99])
        pix = np.array([[[nd if rng.random() < 0.2 else rng.randint(-500, 3000) for _ in range(c)] for _ in range(r)] for _ in range(t)], dtype="int16")
        zones = np.array([[znd if rng.random() < 0.15 else rng.randrange(nz + (1 if rng.random() < .3 else 0)) % nz for _ in range(c)] for _ in range(r)], dtype="int16")
        if rng.random() < 0.3:
            zones[zones == nz - 1] = 0  # leave the last zone empty
        for dt in (np.float32, np.float64):
            res = do_mean(pix, zones, nz, nd, znd, dt)
            want = oracle(pix, zones, nz, nd, znd)
            ctx.case(("small", pix.tobytes(), zones.tobytes(), nz, nd, znd, dt.__name__), nontrivial=len({int(z) for z in zones.ravel() if z != znd}) >= 2,
                     sample=dict(shape=[t, r, c], zones=nz, nodata=nd, zone_nodata=znd, out=dt.__name__))
            ctx.count("small")
            for k in range(nz):
                for ti in range(t):
                    s, n = want[k][ti]
                    m, cnt = float(res[ti, k, 0]), float(res[ti, k, 1])
                    if n == 0:
                        ok = np.isnan(m) and cnt == 0
                    else:
                        ok = cnt == n and abs(m - s / n) <= (1e-6 if dt is np.float32 else 1e-12) * max(1.0, abs(s / n))
                    if not ok:
                        ctx.fail("do_mean", dict(pixels=pix.tolist(), zones=zones.tolist(), num_zones=nz, nodata=nd, zone_nodata=znd, dtype=dt.__name__, zone=k, step=ti),
                                 [m, cnt], [None if n == 0 else s / n, n])
            # permutation invariance
            perm = list(range(r * c))
            rng.shuffle(perm)
            p2 = pix.reshape(t, -1)[:, perm].reshape(t, r, c)
            z2 = zones.reshape(-1)[perm].reshape(r, c)
            res2 = do_mean(np.ascontiguousarray(p2), np.ascontiguousarray(z2), nz, nd, znd, dt)
            if not np.allclose(res, res2, equal_nan=True, rtol=1e-6 if dt is np.float32 else 1e-12):
                ctx.fail("do_mean", dict(pixels=pix.tolist(), zones=zones.tolist(), perm=perm), res2.tolist(), res.tolist(), note="pixel rearrangement")
        for ti in range(t):
            lines.append(f"zonal {core.iarr(pix[ti].ravel())} {core.iarr(zones.ravel())} {nz} {nd} {znd}")
            refs.append((pix[ti], zones, nz, nd, znd, res[ti]))
    for (p, z, nz, nd, znd, res), a in zip(refs, ctx.driver.ask(lines)):
        cells = a.split()[1][1:-1].split(",")
        for k, cell in enumerate(cells):
            s, n = (int(v) for v in cell.split(":"))
            m, cnt = float(res[k, 0]), float(res[k, 1])
            good = (n == 0 and np.isnan(m) and cnt == 0) or (n > 0 and cnt == n and abs(m - s / n) <= 1e-9 * max(1, abs(s / n)))
            if not good:
                ctx.disagree("F", "do_mean", dict(pixels=p.tolist(), zones=z.tolist(), num_zones=nz, nodata=nd, zone_nodata=znd), a, res.tolist())
                break

    # accuracy clause: large zones, exact integer reference
    sizes = [100_000, 3_000_000, 20_000_000] if ctx.quick else [100_000, 1_000_000, 3_000_000, 17_000_000, 25_000_000]
    for npx in sizes:
        side = int(npx ** 0.5)
        r, c = side, npx // side
        for kind in ("const3", "alt", "rand"):
            if kind == "const3":
                pix = np.full((1, r, c), 3, dtype="int16")
            elif kind == "alt":
                pix = np.full((1, r, c), 1000, dtype="float32")
                pix[0, ::2] = 1001
            else:
                g = np.random.default_rng(ctx.seed + npx)
                pix = g.integers(0, 10000, size=(1, r, c), dtype="int16")
            zones = np.zeros((r, c), dtype="int16")
            zones[0, 0] = 1
            for dt in (np.float32, np.float64):
                res = do_mean(pix, zones, 3, -9999, -1, dt)
                sel = zones == 0
                s = int(pix[0][sel].astype(np.int64).sum())
                n = int(sel.sum())
                m, cnt = float(res[0, 0, 0]), float(res[0, 0, 1])
                ctx.case(("large", npx, kind, dt.__name__), sample=dict(pixels_in_zone=n, kind=kind, out=dt.__name__, mean=m, count=cnt))
                ctx.count("large-zone")
                tol = 1.2e-7 if dt is np.float32 else 1e-12
                cnt_ok = cnt == n
                if not cnt_ok and dt is np.float32 and n > 2 ** 24 and cnt == float(np.float32(n)):
                    # recorded finding: the count is stored in the float32 result array and rounded there (and only there)
                    ctx.fail("do_mean", dict(pixels_in_zone=n, kind=kind, dtype="float32"), cnt, n, signature="do_mean:count-in-float32")
                    cnt_ok = True
                if not (abs(m - s / n) <= tol * abs(s / n) and cnt_ok and np.isnan(res[0, 2, 0]) and res[0, 2, 1] == 0):
                    ctx.fail("do_mean", dict(pixels_in_zone=n, kind=kind, dtype=dt.__name__), [m, cnt], [s / n, n],
                             note="mean accurate to the output dtype's precision irrespective of zone size")
        del pix, zones

    # accessor level: NaN pixels, dask, float data
    for _ in range(ctx.budget(10, 60)):
        t, r, c = 3, rng.randint(2, 8), rng.randint(2, 8)
        nz = rng.randint(1, 4)
        nd = -9999.0
        data = np.array([[[rng.choice([nd, float("nan"), float(rng.randint(0, 100))]) if rng.random() < .4 else rng.randint(0, 1000) / 7.0 for _ in range(c)] for _ in range(r)] for _ in range(t)], dtype="float32")
        zones = np.array([[rng.randrange(nz) if rng.random() > .1 else 255 for _ in range(c)] for _ in range(r)], dtype="uint8")
        tt = np.arange(t).astype("datetime64[D]")
        xd = xr.DataArray(data, dims=("time", "y", "x"), coords={"time": tt}, attrs={"nodata": nd})
        zd = xr.DataArray(zones, dims=("y", "x"), attrs={"nodata": 255})
        r1 = xd.hdc.zonal.mean(zd, list(range(nz)))
        xdd = xr.DataArray(da_.from_array(data, chunks=(1, max(1, r // 2), c)), dims=("time", "y", "x"), coords={"time": tt}, attrs={"nodata": nd})
        zdd = xr.DataArray(da_.from_array(zones, chunks=(max(1, r // 2), c)), dims=("y", "x"), attrs={"nodata": 255})
        r2 = xdd.hdc.zonal.mean(zdd, list(range(nz))).compute()
        for odt in ("float64", "float32"):
            rn = xd.hdc.zonal.mean(zd, list(range(nz)), dtype=odt)
            rd = xdd.hdc.zonal.mean(zdd, list(range(nz)), dtype=odt)
            rdc = rd.compute()
            if not (str(rn.dtype) == odt and str(rd.dtype) == odt and str(rdc.values.dtype) == odt and np.array_equal(np.asarray(rn), np.asarray(rdc), equal_nan=True)):
                ctx.fail("zonal.mean", dict(data=data.tolist(), zones=zones.tolist(), dtype=odt, backend="dask"),
                         dict(dtype_lazy=str(rd.dtype), dtype_computed=str(rdc.values.dtype), equal=bool(np.array_equal(np.asarray(rn), np.asarray(rdc), equal_nan=True))),
                         "requested output dtype and the numpy result, for dask input too")
        import dask
        zones_b = np.roll(zones, 1, axis=1).copy()
        zones_b[0, 0] = 255
        zb = xr.DataArray(zones_b, dims=("y", "x"), attrs={"nodata": 255}, name="zones")
        za = xr.DataArray(zones, dims=("y", "x"), attrs={"nodata": 255}, name="zones")
        zad = xr.DataArray(da_.from_array(zones, chunks=zones.shape), dims=("y", "x"), attrs={"nodata": 255}, name="zones")
        zbd = xr.DataArray(da_.from_array(zones_b, chunks=zones.shape), dims=("y", "x"), attrs={"nodata": 255}, name="zones")
        for zza, zzb in ((za, zb), (zad, zbd)):
            la = xdd.hdc.zonal.mean(zza, list(range(nz)), name="zmean")
            lb = xdd.hdc.zonal.mean(zzb, list(range(nz)), name="zmean")
            ca, cb = dask.compute(la, lb)
            ea = xd.hdc.zonal.mean(za, list(range(nz)))
            eb = xd.hdc.zonal.mean(zb, list(range(nz)))
            ctx.count("joint compute of two zonal means")
            if not (np.array_equal(np.asarray(ca), np.asarray(ea), equal_nan=True) and np.array_equal(np.asarray(cb), np.asarray(eb), equal_nan=True)):
                ctx.fail("zonal.mean", dict(data=data.tolist(), zones_a=zones.tolist(), zones_b=zones_b.tolist(), config="two named lazy results computed in one dask graph"),
                         dict(b=np.asarray(cb).tolist()), dict(b=np.asarray(eb).tolist()), note="each lazy result must equal its own in-memory result also when evaluated together")
                break
        ctx.case(("acc", data.tobytes(), zones.tobytes()))
        ctx.count("accessor")
        for k in range(nz):
            for ti in range(t):
                v = data[ti][(zones == k)]
                v = v[(v != nd) & ~np.isnan(v)]
                got = np.asarray(r1)[ti, k]
                ok = (v.size == 0 and np.isnan(got[0]) and got[1] == 0) or (v.size > 0 and got[1] == v.size and abs(got[0] - v.astype(np.float64).mean()) < 1e-4)
                if not ok or not np.allclose(np.asarray(r1), np.asarray(r2), equal_nan=True):
                    ctx.fail("zonal.mean", dict(data=data.tolist(), zones=zones.tolist(), zone=k, step=ti), np.asarray(r1)[ti, k].tolist(),
                             [None if v.size == 0 else float(v.mean()), int(v.size)], note="accessor: NaN and nodata pixels excluded; dask == numpy")
    # accessor with integer rasters whose nodata sentinel is not representable in the (float32) output dtype, or in float32 at all:
    # the sentinel identifies pixels of the INPUT and must be compared in the input's own type
    for k in range(ctx.budget(6, 30)):
        t, r, c = 2, rng.randint(3, 8), rng.randint(3, 8)
        nz = rng.randint(1, 3)
        idt, nd = rng.choice([("int32", 2147483647), ("int32", -2147483647), ("int32", 99999999), ("int64", 2 ** 40 + 1), ("float64", -9999.9), ("float64", 1e20 + 1e5)])
        vals = np.array([[[nd if rng.random() < .25 else rng.randint(0, 5000) for _ in range(c)] for _ in range(r)] for _ in range(t)], dtype=idt)
        # the zone raster's own nodata is a value of ITS dtype (admin rasters: uint16 with 65535, int32 with the maximum, ...)
        zdt, znd = [("uint8", 255), ("uint16", 65535), ("int32", 2147483647), ("int64", -1), ("uint32", 4294967295)][k % 5]
        zones0 = np.array([[rng.randrange(nz) if rng.random() > .25 else -7 for _ in range(c)] for _ in range(r)], dtype="int64")
        zones0[0, 0] = -7
        zraster = np.where(zones0 == -7, znd, zones0).astype(zdt)
        zones = np.where(zones0 == -7, 255, zones0).astype("uint8")          # the same partition, for the reference below
        tt = np.arange(t).astype("datetime64[D]")
        xd = xr.DataArray(vals, dims=("time", "y", "x"), coords={"time": tt}, attrs={"nodata": nd})
        zd = xr.DataArray(zraster, dims=("y", "x"), attrs={"nodata": znd})
        xdd = xr.DataArray(da_.from_array(vals, chunks=(1, r, c)), dims=("time", "y", "x"), coords={"time": tt}, attrs={"nodata": nd})
        for odt in ("float32", "float64"):
            for backend, src in (("numpy", xd), ("dask", xdd)):
                res = np.asarray(src.hdc.zonal.mean(zd, list(range(nz)), dtype=odt).compute())
                ctx.case(("acc-sentinel", vals.tobytes(), idt, nd, odt, backend), sample=dict(accessor="zonal.mean", input_dtype=idt, nodata=nd, zone_dtype=zdt, zone_nodata=znd, out=odt, backend=backend))
                ctx.count("accessor, wide sentinels")
                for kz in range(nz):
                    for ti in range(t):
                        v = vals[ti][zones == kz]
                        v = v[v != np.array(nd, dtype=idt)]
                        got = res[ti, kz]
                        ok = (v.size == 0 and np.isnan(got[0]) and got[1] == 0) or (v.size > 0 and got[1] == v.size and abs(got[0] - v.astype(np.float64).mean()) <= 1e-6 * max(1.0, abs(v.astype(np.float64).mean())))
                        if not ok:
                            ctx.fail("zonal.mean", dict(data=vals[ti].tolist(), zones=zraster.tolist(), zone_dtype=zdt, zone_nodata=znd, nodata=nd, input_dtype=idt, dtype=odt, backend=backend, zone=kz, step=ti),
                                     got.tolist(), [None if v.size == 0 else float(v.astype(np.float64).mean()), int(v.size)],
                                     note="pixels equal to the input's nodata are excluded whatever the output dtype; pixels whose zone equals the zone raster's nodata contribute nowhere")
                            break
    core.acc_dispatch(ctx, ['zonal'])
    ctx.trusted += ["native model driver (Hdc/Model/Discrete.lean)", "harness/props/c16.py oracle (int64 NumPy sums)"]


def search(ctx):
    ctx.quick = False
    run(ctx)
