"""C18  Run-length statistics equal the longest / current run of ones."""
import itertools

import numpy as np

from .. import core

RULE = ("binary series: exhaustive over all series up to length L (quick 12, thorough 16), structured series with runs "
        "straddling 255/256/300/1000, random series to length 1000; croo: all permutations of the stored time order for "
        "length <= 5 (6 thorough) plus random shuffles. Non-trivial = distinct series containing at least one 1.")
LEVEL_NOTE = ("Theorems are about the Lean model of lroo (loop over dots) and of the xarray croo pipeline (sort, where, "
              "cumsum(skipna=False), argmax); the models are tied to /repo by running them and the compiled kernel / accessor on "
              "the same series. xarray's sortby/cumsum/argmax semantics are modelled, not verified.")


def longest_run(a):
    best = cur = 0
    for v in a:
        cur = cur + 1 if v == 1 else 0
        best = max(best, cur)
    return best


def trailing_run(a):
    k = 0
    for v in reversed(a):
        if v != 1:
            break
        k += 1
    return k


def series(ctx):
    L = 12 if ctx.quick else 16
    for n in range(1, L + 1):
        for bits in itertools.product((0, 1), repeat=n):
            yield list(bits)
    for run in (2, 3, 100, 127, 128, 254, 255, 256, 257, 300, 511, 512, 1000):
        for pre, post in ((0, 0), (3, 2), (1, 0)):
            yield [0] * pre + [1] * run + [0] * post
            yield [1] * 2 + [0] + [1] * run + [0] + [1] * 5
    for g in (254, 255, 256, 257, 258, 510, 511, 512, 513, 767, 768, 769):
        yield [1, 1, 1] + [0] * g + [1, 1, 1] + [0] * 4
        yield [0, 1] + [0] * g + [1, 0, 1]
        yield [1] + [0] * g + [1, 1]
    rng = ctx.rng
    for _ in range(ctx.budget(300, 3000)):
        n = rng.choice([17, 36, 100, 255, 256, 257, 400, 1000])
        p = rng.choice([0.3, 0.6, 0.9, 0.98])
        yield [1 if rng.random() < p else 0 for _ in range(n)]


def run(ctx: core.Ctx):
    from hdc.algo.ops import lroo
    import xarray as xr
    import hdc.algo  # noqa: F401  (registers the accessor)

    cases = list(series(ctx))
    # batch by length for the gufunc
    by_len = {}
    for s in cases:
        by_len.setdefault(len(s), []).append(s)
    impl = {}
    for n, ss in by_len.items():
        arr = np.array(ss, dtype="uint8")
        out = lroo(arr)
        for s, o in zip(ss, np.atleast_1d(out)):
            impl[tuple(s)] = int(o)
    answers = ctx.driver.ask([f"lroo {core.iarr(s)}" for s in cases])
    for s, a in zip(cases, answers):
        ctx.case(("lroo", tuple(s)), nontrivial=any(s), sample=dict(kernel="lroo", data=s[:40], n=len(s)))
        ctx.count(f"lroo len<={min(1024, 1 << (len(s) - 1).bit_length())}")
        toks = a.split()
        model_raw, model_i32 = int(toks[1]), int(toks[2])
        got = impl[tuple(s)]
        if got != model_i32:
            ctx.disagree("F", "lroo", dict(data=s), model_i32, got)
        # oracle: the property on the real code
        lr = longest_run(s)
        want = lr if lr >= 2 else 0
        if got != want:
            ctx.fail("lroo", dict(data=s if len(s) <= 64 else dict(n=len(s), ones=int(sum(s)), longest_run=lr)),
                     got, want, note="lroo must equal the longest run of ones (>=2, else 0), without wrapping")

    from .. import strided
    strided.probe(ctx, "a non-contiguous view of an argument gives exactly the result of its contiguous copy (the kernel reads the cells it was given)", only=['lroo'])
    # croo through the accessor, stored time order permuted
    rng = ctx.rng
    perm_cases = []
    Lp = 5 if ctx.quick else 6
    for n in range(1, Lp + 1):
        for bits in itertools.product((0, 1), repeat=n):
            for perm in itertools.permutations(range(n)):
                perm_cases.append((list(bits), list(perm)))
    for _ in range(ctx.budget(100, 1000)):
        n = rng.choice([7, 12, 36, 100])
        bits = [1 if rng.random() < rng.choice([0.5, 0.9]) else 0 for _ in range(n)]
        k = rng.randrange(0, n)
        bits[n - k:] = [1] * k
        perm = list(range(n))
        rng.shuffle(perm)
        perm_cases.append((bits, perm))
    # group by length: one DataArray with a pixel per case is not possible (time coord differs) -> group by perm
    by_perm = {}
    for bits, perm in perm_cases:
        by_perm.setdefault(tuple(perm), []).append(bits)
    t0 = np.datetime64("2000-01-01")
    lines, keys = [], []
    for perm, blist in by_perm.items():
        n = len(perm)
        times = np.array([t0 + np.timedelta64(10 * p, "D") for p in perm])
        data = np.array(blist, dtype="int16")  # (pix, chrono)
        stored = data[:, list(perm)].T.reshape(n, len(blist), 1)
        da = xr.DataArray(stored, dims=("time", "y", "x"), coords={"time": times})
        got = np.asarray(da.hdc.algo.croo()).reshape(-1)
        # the run is counted along `time` wherever that dimension sits in the array
        for order in (("y", "x", "time"), ("y", "time", "x")):
            alt = np.asarray(da.transpose(*order).hdc.algo.croo().transpose("y", "x")).reshape(-1)
            if not np.array_equal(alt, got):
                i = int(np.argmax(alt != got))
                ctx.fail("croo", dict(chrono=blist[i], stored_order=list(perm), dims=order), int(alt[i]), int(got[i]),
                         note="croo does not depend on the order of the dimensions")
                break
        for bits, g in zip(blist, got):
            stored_vals = [bits[p] for p in perm]
            ctx.case(("croo", tuple(bits), perm), nontrivial=any(bits) and n > 1,
                     sample=dict(kernel="croo", chrono=bits[:20], stored_order=list(perm)[:20]))
            ctx.count("croo")
            keys.append((bits, perm, int(g)))
            lines.append(f"croo {core.iarr(perm)} {core.iarr(stored_vals)}")
    for (bits, perm, g), a in zip(keys, ctx.driver.ask(lines)):
        m = int(a.split()[1])
        if m != g:
            ctx.disagree("R", "croo", dict(chrono=bits, perm=list(perm)), m, g)
        want = trailing_run(bits)
        if g != want:
            ctx.fail("croo", dict(chrono=bits, stored_order=list(perm)), g, want,
                     note="croo must be the run of ones ending at the chronologically latest step")
        if g > max(longest_run(bits) if longest_run(bits) >= 2 else 0, 1):
            ctx.fail("croo<=lroo", dict(chrono=bits), g, "<= max(lroo,1)")
    # croo on narrow input types: the count is not limited by the input's dtype (uint8 is what lroo requires; runs of 256 and more)
    for dt in ("uint8", "int8", "int16", "int64", "bool"):
        for run_len in (3, 127, 128, 255, 256, 299, 700):
            n = run_len + 5
            bits = [1, 0, 1, 1, 0] + [1] * run_len
            da = xr.DataArray(np.array(bits, dtype=dt).reshape(n, 1, 1), dims=("time", "y", "x"),
                              coords={"time": np.array([t0 + np.timedelta64(i, "D") for i in range(n)])})
            g = int(np.asarray(da.hdc.algo.croo()).reshape(-1)[0])
            ctx.case(("croo-dtype", dt, run_len), sample=dict(kernel="croo", dtype=dt, current_run=run_len))
            ctx.count("croo input dtypes")
            if g != run_len:
                ctx.fail("croo", dict(dtype=dt, series=f"1,0,1,1,0 followed by {run_len} ones"), g, run_len,
                         note="croo is the length of the run ending at the latest step, for runs of any length the axis allows")
    # the list-level semantics of the xarray idioms (Hdc/PyXr.lean) that the croo translation targets, against real xarray
    import subprocess
    import sys
    r = subprocess.run([sys.executable, str(core.ROOT / "harness" / "validate_pyxr.py")] + ([] if not ctx.quick else ["--no-lean"]),
                       capture_output=True, text=True, cwd=str(core.ROOT))
    out = (r.stdout + r.stderr).strip().splitlines()
    last = [ln for ln in out if ln.startswith(("ok ", "MISMATCH"))][-1:] or out[-1:]
    if r.returncode != 0 or not last or not last[0].startswith("ok "):
        ctx.disagree("T", "PyXr (xarray semantics of the croo pipeline)", dict(script="harness/validate_pyxr.py"),
                     "Hdc/PyXr.lean combinators", (last or ["no output"])[0][:400],
                     note="the trusted list-level semantics of sortby / where / cumsum / argmax / isel differ from real xarray")
    else:
        ctx.count("PyXr combinators vs xarray (comparisons)", int(last[0].split()[1]))
    core.acc_dispatch(ctx, ['croo', 'lroo'])
    ctx.trusted += ["native model driver (lean_exe of Hdc/Model/Discrete.lean)", "harness/props/c18.py oracle",
                    "Hdc/PyXr.lean: per-pixel semantics of five xarray idioms (validated against xarray on every run, not proved)",
                    "harness/py2lean_glue_px.py (croo / lroo accessor translator)"]


def search(ctx: core.Ctx):
    """Extended failing-input search when proof or correspondence broke: nothing beyond run() is needed,
    the oracle already ran on every case; widen the random budget once."""
    ctx.quick = False
    run(ctx)
