"""C09  SPI calibration window and grouping select exactly the intended samples."""
import numpy as np

from .. import core, spi

RULE = ("sorted time axes (regular dekadal and irregular), begin/end dates on / between / before / after the steps, absent bounds; "
        "get_calibration_indices and the spi accessor (raise / attrs / result) vs the Lean model of the window logic; grouped SPI vs per-group "
        "ungrouped real calls; relabelings (ints, strings such as '10' < '2', permuted ids, interleaved / blocked, 1..36 groups); single group = "
        "ungrouped; to_linspace vs model. Non-trivial = distinct (axis, begin, end[, labeling]) with a valid window of >= 2 steps.")
LEVEL_NOTE = ("window_exact (both ends inclusive), spiWindow_error_iff (raises iff fewer than two steps in the window / empty axis), spiAttrs_spec, "
              "toLinspace_spec / toLinspace_partition_indep, gammastdGrp_decomposes / _relabel / _single_group are proved for the Lean model; pandas / NumPy "
              "searchsorted, unique and datetime64 comparison are external and modelled over integer time stamps.")


def day(d):
    return int(np.datetime64(d, "D").astype("int64"))


def run(ctx: core.Ctx):
    import pandas as pd
    import xarray as xr
    import hdc.algo  # noqa: F401
    from hdc.algo.utils import get_calibration_indices, to_linspace

    rng = ctx.rng
    lines, refs = [], []
    # ---- window logic, ungrouped (time stamps as integer nanoseconds)
    def ns(t):
        return int(pd.Timestamp(t).value)

    for k in range(ctx.budget(80, 800)):
        n = rng.choice([2, 3, 5, 9, 12, 36])
        axis_kind = rng.choice(["dekadal", "irregular-days", "12-hourly", "6-hourly", "daily-noon"])
        if axis_kind == "dekadal":
            times = pd.date_range("2000-01-01", periods=n, freq="10D")
        elif axis_kind == "irregular-days":
            offs = sorted(rng.sample(range(0, 400), n))
            times = pd.DatetimeIndex([pd.Timestamp("2000-01-01") + pd.Timedelta(days=o) for o in offs])
        elif axis_kind == "12-hourly":
            times = pd.date_range("2000-01-01", periods=n, freq="12h")
        elif axis_kind == "6-hourly":
            times = pd.date_range("2000-01-30", periods=n, freq="6h")
        else:
            times = pd.date_range("2000-01-01 12:00", periods=n, freq="1D")
        tns = [ns(t) for t in times]

        def pick():
            """(argument passed to spi, its meaning as a Timestamp) or (None, None)"""
            r = rng.random()
            if r < 0.15:
                return None, None
            if r < 0.5:
                t = times[rng.randrange(n)]
            elif r < 0.62:
                t = times[0] - pd.Timedelta(hours=rng.randint(1, 700))
            elif r < 0.74:
                t = times[-1] + pd.Timedelta(hours=rng.randint(1, 700))
            else:
                t = times[0] + pd.Timedelta(hours=rng.randint(0, max(1, (tns[-1] - tns[0]) // 3600000000000)))
            form = rng.choice(["date-string", "date-string", "timestamp-string", "month-string"])
            if form == "date-string":
                s_ = str(t.date())               # 'YYYY-MM-DD' means midnight of that day
            elif form == "month-string":
                s_ = f"{t.year:04d}-{t.month:02d}"   # 'YYYY-MM' means the first instant of the month
            else:
                s_ = str(t)
            return s_, pd.Timestamp(np.datetime64(s_))
        (bs, b), (es, e) = pick(), pick()
        data = np.array([[[float(rng.randint(1, 200)) for _ in range(1)] for _ in range(2)] for _ in range(n)])
        da = xr.DataArray(data, dims=("time", "y", "x"), coords={"time": times}, attrs={"nodata": -9999.0})
        kw = {}
        if bs is not None:
            kw["calibration_begin"] = bs
        if es is not None:
            kw["calibration_end"] = es
        try:
            res = da.hdc.algo.spi(**kw)
            err = None
        except ValueError:
            res, err = None, "ValueError"
        bi = "none" if b is None else ns(b)
        ei = "none" if e is None else ns(e)
        lines.append(f"spiwindow {core.iarr(tns)} {bi} {ei}")
        inside = [i for i, t in enumerate(tns) if (b is None or t >= ns(b)) and (e is None or t <= ns(e))]
        inp = dict(axis=axis_kind, first=str(times[0]), last=str(times[-1]), n=n, begin=bs, end=es)
        ctx.case((tuple(tns), bi, ei), nontrivial=len(inside) >= 2, sample=dict(inp, steps_in_window=len(inside)))
        ctx.count("window ok" if len(inside) >= 2 else "window invalid")
        ctx.count("axis/" + axis_kind)
        refs.append((inp, err, res, inside, tns, times, data, b, e))
        # oracle on the real code
        if len(inside) < 2:
            if err is None:
                ctx.fail("spi", inp, "no error", "ValueError", note="invalid windows (empty, reversed, a single step) raise ValueError")
            continue
        if err is not None:
            ctx.fail("spi", inp, err, f"window of {len(inside)} steps is valid")
            continue
        i0, i1 = inside[0], inside[-1]
        gi = get_calibration_indices(times, (bs if bs is not None else times[0], es if es is not None else times[-1]))
        if (int(gi[0]), int(gi[1])) != (i0, i1 + 1):
            ctx.fail("get_calibration_indices", inp, [int(gi[0]), int(gi[1])], [i0, i1 + 1], note="exactly the steps with begin <= t <= end, both inclusive")
        if res.attrs.get("spi_calibration_begin") != str(times[i0]) or res.attrs.get("spi_calibration_end") != str(times[i1]):
            ctx.fail("spi", inp, dict(res.attrs), dict(begin=str(times[i0]), end=str(times[i1])), note="attributes are the first and last step inside the window")
        for yy in range(2):
            want = spi.real_spi(data[:, yy, 0], -9999.0, i0, i1 + 1)
            got = np.asarray(res.transpose("time", ...))[:, yy, 0]
            if not np.array_equal(got, want):
                ctx.fail("spi", inp, got.tolist(), want.tolist(), note="the fit uses exactly the window's steps")
    for (inp, err, res, inside, *_), a in zip(refs, ctx.driver.ask(lines)):
        if a.startswith("err") != (err is not None):
            ctx.disagree("R", "spi window", inp, a, err or "ok")
        elif not a.startswith("err"):
            t = a.split()
            if (int(t[1]), int(t[2])) != (inside[0], inside[-1] + 1):
                ctx.disagree("R", "spi window", inp, a, [inside[0], inside[-1] + 1])

    # ---- grouping
    glines, grefs = [], []
    for k in range(ctx.budget(25, 250)):
        n = rng.choice([8, 12, 24, 36, 72])
        ng = rng.choice([1, 2, 3, 4, 6, 12, 36])
        if k < 6:      # many groups (labels 10.. sort differently as strings and as numbers) on a long axis, always present
            n, ng = (144, 12) if k % 2 == 0 else (180, 36)
        ng = min(ng, n // 2)
        times = pd.date_range("2000-01-01", periods=n, freq="10D")
        layout = rng.choice(["interleaved", "blocked", "random"]) if k >= 6 else "interleaved"
        if layout == "interleaved":
            ids = [i % ng for i in range(n)]
        elif layout == "blocked":
            ids = sorted(i % ng for i in range(n))
        else:
            ids = [i % ng for i in range(n)]
            rng.shuffle(ids)
        data = np.array([[[float(rng.choice([0, 0, rng.randint(1, 300)])) for _ in range(1)] for _ in range(2)] for _ in range(n)], dtype="float32")
        data[rng.randrange(n), 0, 0] = -9999.0
        # the cube's storage type is not part of the partition either: float32, int16, and an unsigned type whose values exceed the int16 range
        cdt = ["float32", "int16", "uint16"][k % 3]
        if cdt == "uint16":
            data = np.where(data < 0, 0, data * 200).astype("uint16")
        else:
            data = data.astype(cdt)
        da = xr.DataArray(data, dims=("time", "y", "x"), coords={"time": times}, attrs={"nodata": -9999.0})
        b = times[rng.randrange(0, n // 3 + 1)] if (rng.random() < 0.5 or k < 6) else None
        e = times[rng.randrange(2 * n // 3, n)] if (rng.random() < 0.5 or k < 6) else None
        kw = {}
        if b is not None:
            kw["calibration_begin"] = str(b.date())
        if e is not None:
            kw["calibration_end"] = str(e.date())
        # spellings of the same partition
        perm = list(range(ng))
        rng.shuffle(perm)
        spellings = {
            "ints": ids,
            "ints from 1": [v + 1 for v in ids],
            "floats": [float(v) for v in ids],
            "strings": [str(v + 9) for v in ids],                # '9','10',...: '10' < '9' lexicographically
            "permuted": [perm[v] for v in ids],
            "letters": ["g" + chr(97 + (v % 26)) + str(v // 26) for v in ids],
        }
        results = {}
        for name, labels in spellings.items():
            try:
                results[name] = np.asarray(da.hdc.algo.spi(groups=labels, **kw).transpose("time", ...))
            except ValueError:
                results[name] = "ValueError"
        tdays = [day(t) for t in times]
        keys = sorted(set(str(v) for v in ids))
        lin = [keys.index(str(v)) for v in ids]
        glines.append(f"spiwindowgrp {core.iarr(tdays)} {core.iarr(lin)} {ng} {'none' if b is None else day(b)} {'none' if e is None else day(e)}")
        inp = dict(n=n, groups=ids, layout=layout, begin=None if b is None else str(b.date()), end=None if e is None else str(e.date()))
        ctx.case(("grp", tuple(ids), str(b), str(e), data.tobytes()), sample=dict(n=n, num_groups=ng, layout=layout))
        ctx.count(f"groups/{layout}")
        grefs.append((inp, results["ints"]))
        base = results["ints"]
        for name, r in results.items():
            same = (isinstance(r, str) and isinstance(base, str)) or (not isinstance(r, str) and not isinstance(base, str) and np.array_equal(r, base))
            if not same:
                ctx.fail("spi(groups)", dict(inp, spelling=name, labels=spellings[name]), "differs" if not isinstance(r, str) else r, "same result for every spelling of the same partition")
        # per-group decomposition against ungrouped real calls
        ok_windows = True
        want = np.full(base.shape if not isinstance(base, str) else (n, 2, 1), -9999, dtype=np.int64)
        for g in range(ng):
            pos = [i for i in range(n) if ids[i] == g]
            sub_t = [tdays[i] for i in pos]
            inside = [j for j, t in enumerate(sub_t) if (b is None or t >= day(b)) and (e is None or t <= day(e))]
            if len(inside) < 2:
                ok_windows = False
                break
            for yy in range(2):
                sub = data[pos, yy, 0]
                if cdt == "uint16":
                    # the grouped gufunc has int16 and float32 loops only: NumPy serves a uint16 cube by the float32 loop (an exact cast),
                    # whose logarithms are single precision; the reference is the ungrouped index of the same float32 values
                    sub = sub.astype("float32")
                want[pos, yy, 0] = spi.real_spi(sub, -9999.0, inside[0], inside[-1] + 1)
        if not ok_windows:
            if not isinstance(base, str):
                ctx.fail("spi(groups)", inp, "no error", "ValueError (a group's window holds fewer than two steps)")
            continue
        if isinstance(base, str):
            ctx.fail("spi(groups)", inp, base, "valid windows in every group")
            continue
        if not np.array_equal(base.astype(np.int64), want):
            ctx.fail("spi(groups)", inp, base[:, 0, 0].tolist(), want[:, 0, 0].tolist(), note="grouped SPI = ungrouped SPI of each group's sub-series under the same window")
        if ng == 1:
            ung = np.asarray((da.astype("float32") if cdt == "uint16" else da).hdc.algo.spi(**kw).transpose("time", ...))
            if not np.array_equal(ung, base):
                ctx.fail("spi(groups)", inp, "differs", "single group equals the ungrouped result")
    for (inp, base), a in zip(grefs, ctx.driver.ask(glines)):
        if a.startswith("err") != isinstance(base, str):
            ctx.disagree("R", "spi window (groups)", inp, a, base if isinstance(base, str) else "ok")

    # ---- to_linspace
    lines, refs = [], []
    for k in range(ctx.budget(40, 300)):
        n = rng.choice([1, 3, 8, 36])
        vals = [rng.choice([2, 10, 9, 100, 33, 7]) for _ in range(n)]
        idx, keys = to_linspace(np.array([str(v) for v in vals], dtype="str"))
        ctx.case(("lin", tuple(vals)))
        ctx.count("to_linspace")
        for i in range(n):
            for j in range(n):
                if (idx[i] == idx[j]) != (vals[i] == vals[j]):
                    ctx.fail("to_linspace", dict(x=vals), idx.tolist(), "index partition equals the label partition")
        if sorted(set(int(v) for v in idx)) != list(range(len(keys))):
            ctx.fail("to_linspace", dict(x=vals), idx.tolist(), "indices 0..k-1")
        idx2, keys2 = to_linspace(np.array(vals))
        lines.append(f"linspace {core.iarr(vals)}")
        refs.append((vals, [int(v) for v in idx2], [int(v) for v in keys2]))
    for (vals, idx2, keys2), a in zip(refs, ctx.driver.ask(lines)):
        t = a.split()
        if core.parse_arr(t[1], int) != idx2 or core.parse_arr(t[2], int) != keys2:
            ctx.disagree("R", "to_linspace", dict(x=vals), a, [idx2, keys2])
    core.acc_dispatch(ctx, ['calidx'])
    ctx.trusted += ["native model driver (Hdc/Model/Discrete.lean)", "pandas / NumPy searchsorted, unique (external)", "harness/props/c09.py oracle (per-group real calls)"]


def search(ctx):
    ctx.quick = False
    run(ctx)
