"""C02  Missing observations carry zero weight in every smoother."""
import numpy as np

from .. import core, gen, smooth

RULE = ("per smoother variant (9: gu, pgu, optv, optvp, optvplc, wcv, wcvp, wcv robust, wcvp robust): structured series (NDVI-like, rain, "
        "constant, linear, step, spikes, sign-changing, walk) x gap patterns (isolated, runs, leading, trailing, all-but-k, half) x "
        "placeholder encodings (below / inside / above the data range; NaN, +inf, -inf for the fixed-lambda and GCV kernels). "
        "Correspondence: compiled kernel vs Lean model at Float (band and lambda, bit level). Oracle: every encoding of the same "
        "observations must give the identical band and lambda on the real kernels; fewer valid cells than needed -> input unchanged, "
        "lambda 0. Non-trivial = distinct (variant, series, mask, params) with at least one missing and min-valid valid cells.")
LEVEL_NOTE = ("sameObs theorems: the Lean model of each smoother depends only on the validity mask and the valid values (for the V-curve "
              "kernels through ws2d_congr_masked and the w-factor of fit/asymmetric weights); gu_normal_eq: the curve at missing cells is the "
              "unique PLS solution. Cases whose curve leaves int16 are outside the claim and skipped (counted).")


def encodings(rng, variant, y, m):
    valid = [v for v, ok in zip(y, m) if ok] or [0]
    lo, hi = min(valid), max(valid)
    nds = [lo - rng.randint(1, 4000), hi + rng.randint(1, 4000)]
    inside = [c for c in range(lo + 1, hi) if c not in valid]
    if inside:
        nds.append(rng.choice(inside))
    nds = [nd for nd in nds if -32768 <= nd <= 32767]
    out = [(smooth.encode(y, m, nd), float(nd), f"nd={nd}") for nd in nds]
    if variant != "optvplc":          # (optvplc takes int16 data) the float64 kernels accept any float as placeholder, also the extreme finite
        # ones used as fill values of float rasters (GDAL's -DBL_MAX ...): `0 * (placeholder - z)` must not overflow on the way
        for big in (-1.7976931348623157e308, 1e200, -3.4028234663852886e38):
            out.append((np.array([float(v) if ok else big for v, ok in zip(y, m)], dtype="float64"), big, f"nd={big:g}"))
    if variant in smooth.NANOK:
        spare = float(hi + 7)
        for bad, name in ((float("nan"), "NaN"), (float("inf"), "+inf"), (float("-inf"), "-inf")):
            arr = np.array([float(v) if ok else bad for v, ok in zip(y, m)], dtype="float64")
            out.append((arr, spare, name))
        # mixed: some cells nodata, some NaN
        arr = np.array([float(v) if ok else (float("nan") if i % 2 else float(nds[0])) for i, (v, ok) in enumerate(zip(y, m))], dtype="float64")
        out.append((arr, float(nds[0]), "mixed nd/NaN"))
    return out


def run(ctx: core.Ctx):
    rng = ctx.rng
    per_variant = ctx.budget(22, 220)
    lines, refs = [], []
    for variant in smooth.VARIANTS:
        for k in range(per_variant):
            mv = rng.choice([None, None, None, 0, 1, 4])   # sometimes too few valid cells -> pass-through branch
            kind = rng.choice([None, "spikes", "ndvi"]) if variant.endswith("r") else None
            y, m, prm = smooth.make_case(rng, variant, kind=kind, min_ok=mv, small=ctx.quick and variant.endswith("r"))
            if kind == "spikes":      # noisy base with downward spikes: the robust re-weighting matters
                y = [v + rng.randint(-30, 30) - (rng.randint(500, 3000) if rng.random() < 0.12 else 0) for v in y]
            if k < 2 * smooth.min_valid(variant) and k // 2 < smooth.min_valid(variant):
                # deterministic pass-through cases: exactly k//2 valid cells (0 .. min_valid-1), twice each
                keep = set(rng.sample(range(len(y)), k // 2))
                m = [i in keep for i in range(len(y))]
            if all(m):
                i = rng.randrange(len(m))
                m[i] = False
                if sum(m) < smooth.min_valid(variant) and mv is None:
                    m[i] = True
            encs = encodings(rng, variant, y, m)
            results = []
            for arr, nd, name in encs:
                try:
                    before = arr.copy()
                    results.append(smooth.call(variant, arr, nd, prm))
                    # the series handed in is the caller's memory (float64 goes to the kernel without a copy): it must come back
                    # untouched, and a second evaluation of the same memory must give the same answer
                    if not np.array_equal(arr, before, equal_nan=True):
                        ctx.fail(variant, dict(variant=variant, y=before.tolist(), nodata=nd, params=prm, encoding=name), dict(input_after_call=arr.tolist()),
                                 "the input series is left unmodified", note="a smoother must not write into its input (the marks of the missing cells are the caller's data)")
                        arr[:] = before
                    again = smooth.call(variant, arr, nd, prm)
                    if not (np.array_equal(again[0], results[-1][0]) and (again[1] == results[-1][1] or (again[1] != again[1] and results[-1][1] != results[-1][1]))):
                        ctx.fail(variant, dict(variant=variant, y=before.tolist(), nodata=nd, params=prm, encoding=name),
                                 dict(first=results[-1][0].tolist(), second=again[0].tolist()), "two evaluations of the same series agree")
                except Exception as e:  # noqa: BLE001
                    results.append(("exc", repr(e)))
            key = (variant, tuple(y), tuple(m), tuple(sorted((k2, str(v)) for k2, v in prm.items())))
            nvalid = sum(m)
            ctx.case(key, nontrivial=(not all(m)) and nvalid >= smooth.min_valid(variant),
                     sample=dict(variant=variant, n=len(y), valid=nvalid, params={k2: (v if not isinstance(v, list) else [v[0], v[-1], len(v)]) for k2, v in prm.items()},
                                 encodings=[e[2] for e in encs]))
            ctx.count(variant)
            ctx.count("passthrough" if nvalid < smooth.min_valid(variant) else "fit")
            lines.append(smooth.line(variant, encs[0][0], encs[0][1], prm))
            # the model is also run on one non-finite encoding (NaN placeholder), where the kernels have their own missing-cell test
            extra = next((e for e in encs if e[2] == "NaN"), None)
            lines.append(smooth.line(variant, extra[0], extra[1], prm) if extra else "noop")
            refs.append((variant, y, m, prm, encs, results))
    answers = ctx.driver.ask(lines)
    for (variant, y, m, prm, encs, results), a, a_nan in zip(refs, answers[0::2], answers[1::2]):
        model = smooth.parse_answer(a)
        if a_nan != "err bad-op":
            mn = smooth.parse_answer(a_nan)
            rn = results[[e[2] for e in encs].index("NaN")]
            if mn[0] == "curve" and smooth.in_int16(mn[1]) and not isinstance(rn[0], str):
                if not np.array_equal(np.array(mn[2]), rn[0].astype(float)) or (mn[3] is not None and mn[3] != rn[1]):
                    ctx.disagree("F", variant, dict(variant=variant, y=y, mask=[int(b) for b in m], params=prm, encoding="NaN"),
                                 dict(band=mn[2][:8], lopt=mn[3]), dict(band=rn[0][:8].tolist(), lopt=rn[1]))
        inp = dict(variant=variant, y=y, mask=[int(b) for b in m], params=prm)
        nvalid = sum(m)
        r0 = results[0]
        if isinstance(r0[0], str):
            ctx.fail(variant, inp, r0[1], "no exception")
            continue
        if model[0] == "pass":
            # pass-through: fewer valid cells than needed (or lambda 0)
            if nvalid >= smooth.min_valid(variant):
                ctx.disagree("F", variant, inp, "pass-through", r0[0].tolist(), note="model passes through although enough valid cells")
            for (arr, nd, name), r in zip(encs, results):
                if name in ("NaN", "+inf", "-inf", "mixed nd/NaN") or abs(nd) > 32767:
                    continue   # non-finite / huge cells cannot be echoed in an int16 band
                want = arr.astype(np.int64)
                if not np.array_equal(r[0], want) or (r[1] is not None and r[1] != 0.0):
                    ctx.fail(variant, dict(inp, encoding=name), dict(band=r[0].tolist(), lopt=r[1]), dict(band=want.tolist(), lopt=0.0),
                             note="fewer valid observations than the smoother needs: input returned unchanged, lambda 0")
            continue
        if model[0] == "err":
            ctx.count("model-err-" + model[1])
            continue
        curve = model[1]
        if not smooth.in_int16(curve):
            ctx.count("out-of-claim(int16 range)")
            continue
        if nvalid < smooth.min_valid(variant):
            ctx.disagree("F", variant, inp, "curve", r0[0].tolist(), note="model fits although too few valid cells")
        # correspondence on the first encoding
        if not np.array_equal(np.array(model[2]), r0[0].astype(float)) or (model[3] is not None and model[3] != r0[1]):
            ok, _ = smooth.band_matches(r0[0], curve)
            if not ok or (model[3] is not None and not (abs(model[3] - r0[1]) <= 1e-12 * abs(r0[1]))):
                ctx.disagree("F", variant, inp, dict(band=model[2][:8], lopt=model[3]), dict(band=r0[0][:8].tolist(), lopt=r0[1]))
        # oracle: all encodings agree on the real code
        for (arr, nd, name), r in zip(encs[1:], results[1:]):
            if isinstance(r[0], str):
                ctx.fail(variant, dict(inp, encoding=name), r[1], "no exception")
            elif not np.array_equal(r[0], r0[0]) or r[1] != r0[1]:
                ctx.fail(variant, dict(inp, encodings=[encs[0][2], name]),
                         dict(band_a=r0[0].tolist(), lopt_a=r0[1], band_b=r[0].tolist(), lopt_b=r[1]),
                         "identical band and lambda whatever placeholder marks the missing cells")
    ctx.trusted += ["native model driver (Hdc/Model/Smooth.lean at Float; libm log/pow/cos/sqrt as linked by Lean)", "harness/props/c02.py oracle"]


def search(ctx):
    ctx.quick = False
    run(ctx)
