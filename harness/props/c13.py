"""C13  Compiled kernels compute what their Python source says."""
import types

import numpy as np

from .. import core, gen, smooth

RULE = ("34 programs (20 njit functions incl. the lazily compiled ones, 14 gufunc kernels, every declared input dtype): the Numba-compiled function vs the SAME "
        "source executed by the interpreter (py_func / __wrapped__ rebuilt so that every callee is interpreted too, Numba type objects in dtype positions "
        "replaced by NumPy dtypes, a float64 out buffer for np.round into int16) on structured in-domain inputs; float64/int results equal to 1e-9 relative, "
        "float32 inputs to 1e-5, integer bands equal except one unit at rounding ties; SciPy digamma / gammainc / ndtri bound through the vendored "
        "extension vs scipy.special; plus the Lean model at Float as pivot for ws2d / gu / pgu (interpreted == model == compiled, bit level). "
        "Non-trivial = distinct (program, dtype, input).")
LEVEL_NOTE = ("int64_sum_no_overflow / autocorr_int64_exact / mk_score_no_overflow / lroo_counters / store_int16_defined: the places where the two worlds could differ by "
              "logic (fixed-width accumulators, int16 store) are proved equal under the documented bounds. Numba's type inference, LLVM code generation and the ctypes "
              "bindings of cython_special are NOT verified: sampled (partial). Inputs on which the interpreter itself is ill-defined (math.log(0) raises where compiled "
              "code yields -inf; NumPy int16 scalar accumulation wraps where compiled code widens) are outside the comparison and counted.")


def interp_namespace():
    """Interpreted versions of every kernel: functions rebuilt with globals in which each compiled callee is replaced by its
    interpreted counterpart and Numba type objects by NumPy dtypes."""
    import importlib
    m_ac = importlib.import_module('hdc.algo.ops.autocorr')
    m_lroo = importlib.import_module('hdc.algo.ops.lroo')
    m_st = importlib.import_module('hdc.algo.ops.stats')
    m_ti = importlib.import_module('hdc.algo.ops.tinterpolate')
    m_ws = importlib.import_module('hdc.algo.ops.ws2d')
    m_gu = importlib.import_module('hdc.algo.ops.ws2dgu')
    m_ov = importlib.import_module('hdc.algo.ops.ws2doptv')
    m_ovp = importlib.import_module('hdc.algo.ops.ws2doptvp')
    m_lc = importlib.import_module('hdc.algo.ops.ws2doptvplc')
    m_pgu = importlib.import_module('hdc.algo.ops.ws2dpgu')
    m_wcv = importlib.import_module('hdc.algo.ops.ws2dwcv')
    m_wcvp = importlib.import_module('hdc.algo.ops.ws2dwcvp')
    m_zo = importlib.import_module('hdc.algo.ops.zonal')

    class NPProxy:
        """numpy with np.round(z, d, out) tolerant of an integer out buffer (Numba performs the cast implicitly)"""

        def __getattr__(self, k):
            return getattr(np, k)

        @staticmethod
        def round(z, d=0, out=None):
            r = np.rint(np.asarray(z, dtype="float64")) if d == 0 else np.round(z, d)
            if out is None:
                return r
            out[...] = r
            return out

    class NumbaProxy:
        prange = range

        def __getattr__(self, k):
            import numba
            return getattr(numba, k)

    types_fix = dict(float64=np.float64, float32=np.float32, int64=np.int64, int16=np.int16, int32=np.int32, uint8=np.uint8, boolean=np.bool_,
                     np=NPProxy(), numba=NumbaProxy())
    interp = {}

    def src(obj):
        if hasattr(obj, "py_func"):
            return obj.py_func
        if hasattr(obj, "__wrapped__"):
            return obj.__wrapped__
        return obj

    def build(mod, names):
        for nm in names:
            f = src(getattr(mod, nm))
            g = {**f.__globals__, **types_fix}
            interp[nm] = (f, g)

    build(m_ws, ["ws2d"])
    build(m_ac, ["autocorr_1d_float", "autocorr_1d_int", "autocorr_1d", "autocorr", "autocorr_tyx"])
    build(m_st, ["brentq", "gammafit", "gammastd", "gammastd_yxt", "gammastd_grp", "mk_score", "mk_variance_s", "mk_z_score", "mk_p_value", "mk_sens_slope",
                 "mann_kendall_trend_yxt", "mann_kendall_trend_1d", "_mann_kendall_trend_gu_nd", "_mann_kendall_trend_gu", "mean_grp", "rolling_sum"])
    build(m_zo, ["do_mean"])
    build(m_gu, ["ws2dgu"])
    build(m_pgu, ["ws2dpgu"])
    build(m_ov, ["ws2doptv"])
    build(m_ovp, ["ws2doptvp", "_ws2doptvp"])
    build(m_lc, ["ws2doptvplc", "ws2doptvplc_tyx"])
    build(m_wcv, ["ws2dwcv"])
    build(m_wcvp, ["ws2dwcvp"])
    build(m_lroo, ["lroo"])
    build(m_ti, ["tinterpolate"])
    out = {}
    # second pass: every global that names a kernel points to the interpreted version
    for nm, (f, g) in interp.items():
        out[nm] = types.FunctionType(f.__code__, g, f.__name__, f.__defaults__, f.__closure__)
    for nm, fn in out.items():
        for k in list(fn.__globals__):
            if k in out and k != "np":
                fn.__globals__[k] = out[k]
    return out


def close(a, b, rel, abs_=1e-12):
    a, b = np.asarray(a, dtype="float64"), np.asarray(b, dtype="float64")
    if a.shape != b.shape:
        return False
    both_nan = np.isnan(a) & np.isnan(b)
    with np.errstate(all="ignore"):
        ok = both_nan | (np.abs(a - b) <= abs_ + rel * np.maximum(np.abs(a), np.abs(b))) | (a == b)
    return bool(np.all(ok))


def band_close(a, b):
    a, b = np.asarray(a, dtype="float64"), np.asarray(b, dtype="float64")
    return a.shape == b.shape and bool(np.all(np.abs(a - b) <= 1)) and np.count_nonzero(a != b) <= max(1, a.size // 10)


def run(ctx: core.Ctx):
    from hdc.algo import ops
    from hdc.algo.ops import stats
    from hdc.algo.ops.autocorr import autocorr, autocorr_1d, autocorr_tyx
    from hdc.algo.ops.ws2d import ws2d
    from hdc.algo.ops.ws2doptvp import _ws2doptvp
    from hdc.algo.ops.ws2doptvplc import ws2doptvplc_tyx
    from hdc.algo.ops.zonal import do_mean
    import scipy.special as sc

    rng = ctx.rng
    I = interp_namespace()
    programs = set()

    def cmp(prog, inp, compiled, interpreted, kind="float", rel=1e-9):
        programs.add(prog)
        ctx.case((prog, repr(inp)[:200]), sample=dict(program=prog, input=str(inp)[:120]))
        ctx.count(prog)
        try:
            with np.errstate(all="ignore"):
                ri = interpreted()
        except (ValueError, ZeroDivisionError, OverflowError) as e:
            ctx.count(f"interpreter ill-defined ({type(e).__name__}): skipped")
            return
        rc = compiled()
        rc = rc if isinstance(rc, tuple) else (rc,)
        ri = ri if isinstance(ri, tuple) else (ri,)
        if kind == "band" and np.asarray(ri[0]).size and (not np.all(np.isfinite(np.asarray(ri[0], dtype="float64"))) or np.abs(np.asarray(ri[0], dtype="float64")).max() > 32766.4):
            # the interpreter's float curve leaves the int16 range: the compiled kernel stores it into an int16 band (wrap-around of the C
            # cast), the interpreted source into a float buffer - curves outside int16 are outside the claim of every smoother property
            ctx.count("band outside the int16 range: out of claim")
            return
        for k, (c, i) in enumerate(zip(rc, ri)):
            ok = band_close(c, i) if (kind == "band" and k == 0) else close(c, i, rel)
            if not ok:
                ctx.fail(prog, inp, dict(compiled=np.asarray(c).ravel()[:8].tolist()), dict(interpreted=np.asarray(i).ravel()[:8].tolist()),
                         note="compiled kernel must return what its source returns under the interpreter")
                return

    # boundary lengths 2, 3, 4 in batches of 24 pixels through the gufuncs: the index arithmetic m-1, m-2, m-3 of the solver wraps
    # around at these lengths, and a batch re-uses freed scratch memory from pixel to pixel, so a cell that the source reads before
    # writing it (zero-initialised in the interpreter's NumPy) shows as a difference between compiled and interpreted results
    for n in (2, 3, 4):
        base = np.array(gen.series(rng, n, "ndvi"), dtype="float64")
        batch = np.stack([base] * 12 + [np.array(gen.series(rng, n, "walk"), dtype="float64") for _ in range(12)])
        lam, p, nd = 10.0, 0.9, -3000.0
        sr = np.arange(-1, 1.5, 0.5)
        for name, args, two in (("ws2dgu", (lam, nd), False), ("ws2dpgu", (lam, nd, p), False), ("ws2doptv", (nd, sr), True), ("ws2doptvp", (nd, p, sr), True)):
            got = getattr(ops, name)(batch, *args)
            gb = np.asarray(got[0] if two else got)
            for k in range(batch.shape[0]):
                def it(k=k, name=name, args=args, two=two):
                    out, lo = np.zeros(n), np.zeros(1)
                    I[name](batch[k], *args, *((out, lo) if two else (out,)))
                    return out
                cmp(name + " (batch, boundary length)", dict(y=batch[k].tolist(), n=n, pixel=k, args=str(args)[:60]), lambda k=k: gb[k], it, kind="band")
        wts = np.ones(n)
        for rep in range(24):
            cmp("ws2d (repeated, boundary length)", dict(y=base.tolist(), n=n, call=rep), lambda: ws2d(base, lam, wts), lambda: I["ws2d"](base, lam, wts))
    # (nearly) constant positive pixels: s = log(mean) - mean(log) is a few ulp, Brent finds no bracket and returns 0; whatever the
    # source then returns under the interpreter (NumPy scalars: x / 0.0 = inf with a warning), the compiled code must not RAISE
    # instead (nopython scalar division follows Python's error model).  Values are compared only when both sides agree that the
    # pixel is unfittable; the knife-edge `s == 0` itself is not judged.
    for v in (250.0, 33.3, 0.1, 7.0, 12345.0, 1e-3):
        for n in (5, 13, 19, 36):
            for dt in ("float64", "int16"):
                xs = np.full(n, v).astype(dt)
                if not (xs > 0).all():
                    continue
                c3 = xs.reshape(1, 1, n)
                for prog, comp, interp in (("gammafit", lambda: stats.gammafit(xs), lambda: I["gammafit"](xs)),
                                           ("gammastd", lambda: stats.gammastd(xs, -9999.0, 0, n), lambda: I["gammastd"](xs, -9999.0, 0, n)),
                                           ("gammastd_yxt", lambda: stats.gammastd_yxt(c3, -9999.0, 0, n), lambda: I["gammastd_yxt"](c3, -9999.0, 0, n))):
                    programs.add(prog)
                    ctx.case((prog, "const", v, n, dt), sample=dict(program=prog, input=f"{n} x {v} ({dt})"))
                    ctx.count(prog + " (constant pixel)")
                    try:
                        with np.errstate(all="ignore"):
                            ri = interp()
                    except Exception:  # noqa: BLE001
                        continue
                    try:
                        comp()
                    except Exception as e:  # noqa: BLE001
                        ctx.fail(prog, dict(x=f"{n} x {v}", dtype=dt), repr(e)[:120], dict(interpreted=str(np.asarray(ri).ravel()[:4].tolist())),
                                 note="the compiled kernel raises where its source, run by the interpreter, returns")
    from .. import strided
    strided.probe(ctx, "the compiled kernel reads its arguments through their strides, as the source executed by the interpreter does: same result for a non-contiguous view and its contiguous copy")
    N = ctx.budget(6, 40)
    for _ in range(N):
        n = rng.choice([5, 8, 12, 24, 36])
        y = np.array(gen.series(rng, n, rng.choice(["ndvi", "rain", "walk", "sign"])), dtype="float64")
        m = np.array(gen.gaps(rng, n, min_valid=5))
        nd = -3000.0
        yy = np.where(m, y, nd)
        w = m.astype("float64")
        lam = gen.lam(rng)
        p = rng.choice([0.1, 0.5, 0.9])
        sr = np.array(gen.srange(rng))
        if len(sr) < 3:
            sr = np.arange(-1, 1.5, 0.5)
        cmp("ws2d", dict(y=yy.tolist(), lam=lam), lambda: ws2d(np.where(m, y, 0.0), lam, w), lambda: I["ws2d"](np.where(m, y, 0.0), lam, w))
        cmp("_ws2doptvp", dict(y=yy.tolist(), p=p), lambda: _ws2doptvp(np.where(m, y, 0.0), w, p, sr), lambda: I["_ws2doptvp"](np.where(m, y, 0.0), w, p, sr))
        for name, args in (("ws2dgu", (yy, lam, nd)), ("ws2dpgu", (yy, lam, nd, p))):
            def it(name=name, args=args):
                out = np.zeros(n)
                I[name](*args, out)
                return out
            cmp(name, dict(y=yy.tolist(), lam=lam, p=p), lambda name=name, args=args: getattr(ops, name)(*args), it, kind="band")
        for name, args in (("ws2doptv", (yy, nd, sr)), ("ws2doptvp", (yy, nd, p, sr)), ("ws2doptvplc", (yy.astype("int16"), nd, p, rng.choice([0.9, 0.1]))),
                           ("ws2dwcv", (yy, nd, sr, False)), ("ws2dwcv", (yy, nd, sr, True)), ("ws2dwcvp", (yy, nd, p, sr, False)), ("ws2dwcvp", (yy, nd, p, sr, True))):
            def it(name=name, args=args):
                out, lo = np.zeros(n), np.zeros(1)
                I[name](*args, out, lo)
                return out, lo[0]
            cmp(name, dict(y=yy.tolist(), args=str(args[1:])[:80]), lambda name=name, args=args: getattr(ops, name)(*args), it, kind="band", rel=1e-9)
        # autocorr family
        xi = np.where(m, y, nd).astype("int16")
        xf = np.where(m, y, np.nan)
        # the interpreter gets int64 copies of integer inputs: NumPy's int16 scalar arithmetic wraps (x * x) where compiled code
        # unifies to int64; on int64 data both worlds have the same integer semantics (no-overflow theorems: Hdc.C13)
        xi64 = xi.astype("int64")
        cmp("autocorr_1d_int", dict(x=xi.tolist()), lambda: autocorr_1d(xi, -3000), lambda: I["autocorr_1d_int"](xi64, -3000))
        cmp("autocorr_1d_float", dict(x=xi.tolist()), lambda: autocorr_1d(xf), lambda: I["autocorr_1d_float"](xf))
        cmp("autocorr_1d", dict(x=xi.tolist()), lambda: autocorr_1d(xi, -3000), lambda: I["autocorr_1d"](xi64, -3000))
        cube = np.stack([xi, xi[::-1]]).reshape(2, 1, n)
        cmp("autocorr", dict(x=xi.tolist()), lambda: autocorr(cube, -3000), lambda: I["autocorr"](cube.astype("int64"), -3000), rel=1e-6)
        tyx = np.ascontiguousarray(np.moveaxis(cube, -1, 0))
        cmp("autocorr_tyx", dict(x=xi.tolist()), lambda: autocorr_tyx(tyx, -3000), lambda: I["autocorr_tyx"](tyx.astype("int64"), -3000), rel=1e-6)
        cmp("ws2doptvplc_tyx", dict(x=xi.tolist(), p=p), lambda: ws2doptvplc_tyx(tyx, p, -3000), lambda: I["ws2doptvplc_tyx"](tyx.astype("int64"), p, -3000), kind="band")
        # statistics
        r = np.abs(y) % 500 + rng.choice([0.0, 1.0])
        r[rng.randrange(n)] = 0.0
        for dt in ("float64", "float32", "int16"):
            rr = r.astype(dt)
            rel = 1e-9 if dt != "float32" else 1e-4
            c3 = rr.reshape(1, 1, n)
            if len(set(v for v in rr.tolist() if v > 0)) >= 2:
                cmp("gammafit", dict(x=rr.tolist(), dtype=dt), lambda: stats.gammafit(rr), lambda: I["gammafit"](rr), rel=rel)
                cmp("gammastd", dict(x=rr.tolist(), dtype=dt), lambda: stats.gammastd(rr, -9999.0, 0, n), lambda: I["gammastd"](rr, -9999.0, 0, n), rel=max(rel, 1e-7))
                cmp("gammastd_yxt", dict(x=rr.tolist(), dtype=dt), lambda: stats.gammastd_yxt(c3, -9999.0, 0, n), lambda: I["gammastd_yxt"](c3, -9999.0, 0, n), kind="band")
            else:
                # fewer than two distinct positive values: s = log(mean) - mean(log) is 0 mathematically and the test `s == 0` is a knife-edge
                # under float32 logarithms (compiled) vs float64 logarithms (interpreter); outside the claim of C07 as well
                ctx.count("gamma fit on < 2 distinct positive values (s == 0 knife-edge): skipped")
            cmp("mk_score", dict(x=rr.tolist(), dtype=dt), lambda: stats.mk_score(rr), lambda: I["mk_score"](rr))
            cmp("mk_variance_s", dict(x=rr.tolist(), dtype=dt), lambda: stats.mk_variance_s(rr), lambda: I["mk_variance_s"](rr))
            cmp("mk_sens_slope", dict(x=rr.tolist(), dtype=dt), lambda: stats.mk_sens_slope(rr), lambda: I["mk_sens_slope"](rr), rel=rel)
            cmp("mann_kendall_trend_1d", dict(x=rr.tolist(), dtype=dt), lambda: stats.mann_kendall_trend_1d(rr), lambda: I["mann_kendall_trend_1d"](rr), rel=rel)
            cmp("mann_kendall_trend_yxt", dict(x=rr.tolist(), dtype=dt), lambda: stats.mann_kendall_trend_yxt(c3), lambda: I["mann_kendall_trend_yxt"](c3), rel=1e-5)
            if dt != "float64":
                def it_gu(nd_=None):
                    t, pp, sl, tr = np.zeros(1, "float32"), np.zeros(1, "float32"), np.zeros(1, "float32"), np.zeros(1, "int8")
                    if nd_ is None:
                        I["_mann_kendall_trend_gu"](rr, t, pp, sl, tr)
                    else:
                        I["_mann_kendall_trend_gu_nd"](rr, nd_, t, pp, sl, tr)
                    return t[0], pp[0], sl[0], tr[0]
                cmp("_mann_kendall_trend_gu", dict(x=rr.tolist(), dtype=dt), lambda: stats._mann_kendall_trend_gu(rr), lambda: it_gu(), rel=1e-5)
                cmp("_mann_kendall_trend_gu_nd", dict(x=rr.tolist(), dtype=dt), lambda: stats._mann_kendall_trend_gu_nd(rr, -9999.0), lambda: it_gu(-9999.0), rel=1e-5)
                g = (np.arange(n) % 2).astype("int16")
                cal = np.array([[0, int((g == 0).sum())], [0, int((g == 1).sum())]], dtype="int16")

                def it_grp():
                    o = np.zeros(n, "int16")
                    I["gammastd_grp"](rr, g, 2, -9999.0, cal, o)
                    return o
                def cond_ok(vals):
                    # float32 logarithms carry a relative error of 6e-8; the fit amplifies it by 1 / s with s = log(mean) - mean(log):
                    # for s < 1e-3 the result is not determined to single-precision accuracy (out of the claim for float32 input)
                    pos = np.array([v for v in vals if v > 0], dtype="float64")
                    return dt != "float32" or (np.log(pos.mean()) - np.log(pos).mean()) >= 1e-3
                if all(len(set(v for v in rr[g == k_].tolist() if v > 0)) >= 2 for k_ in (0, 1)) and not all(cond_ok(rr[g == k_].tolist()) for k_ in (0, 1)):
                    ctx.count("gammastd_grp: float32 input, group with s < 1e-3 (ill-conditioned in single precision): skipped")
                elif all(len(set(v for v in rr[g == k_].tolist() if v > 0)) >= 2 for k_ in (0, 1)):
                    cmp("gammastd_grp", dict(x=rr.tolist(), dtype=dt), lambda: stats.gammastd_grp(rr, g, 2.0, -9999.0, cal), it_grp, kind="band")
                else:
                    ctx.count("gammastd_grp: group with < 2 distinct positive values (s == 0 knife-edge in float32): skipped")
        z = float(rng.uniform(-4, 4))
        cmp("mk_z_score", dict(s=7, vs=33.3), lambda: stats.mk_z_score(7, 33.3), lambda: I["mk_z_score"](7, 33.3))
        cmp("mk_p_value", dict(z=z), lambda: stats.mk_p_value(z), lambda: I["mk_p_value"](z))
        s_ = float(rng.uniform(0.01, 2.0))
        aest = (3 - s_ + np.sqrt((s_ - 3) ** 2 + 24 * s_)) / (12 * s_)
        cmp("brentq", dict(s=s_), lambda: stats.brentq(aest * 0.6, aest * 1.4, s_), lambda: I["brentq"](aest * 0.6, aest * 1.4, s_))
        # small-valued integer kernels (interpreter int16 scalar accumulation must not overflow)
        small = (np.abs(y) % 50).astype("int64")
        small[~m] = -9999
        for dt in ("float32", "int16", "int32", "int64"):
            sx = small.astype(dt)
            g = np.array([i % 3 for i in range(n)], dtype="int16")

            def it_mg():
                o = np.zeros(n, "float32")
                I["mean_grp"](sx, g, 3, -9999.0, o)
                return o
            cmp("mean_grp", dict(x=sx.tolist(), dtype=dt), lambda: stats.mean_grp(sx, g, 3.0, -9999.0), it_mg, rel=1e-6)
            if dt != "int32":
                def it_rs():
                    o = np.zeros(n, "float32")
                    I["rolling_sum"](sx, 3, -9999.0, o)
                    return o
                cmp("rolling_sum", dict(x=sx.tolist(), dtype=dt), lambda: stats.rolling_sum(sx, 3.0, -9999.0), it_rs, rel=1e-6)
        bits = (y > np.median(y)).astype("uint8")

        def it_lroo():
            o = np.zeros(1, "int32")
            I["lroo"](bits, o)
            return o[0]
        cmp("lroo", dict(x=bits.tolist()), lambda: ops.lroo(bits), it_lroo)
        pix = (np.abs(y) % 100).astype("int16").reshape(1, 1, n)
        zones = (np.arange(n) % 3).astype("int16").reshape(1, n)
        cmp("do_mean", dict(x=pix.ravel().tolist()), lambda: do_mean(pix, zones, 3, -9999, -1), lambda: I["do_mean"](pix, zones, 3, -9999, -1, np.float32), rel=1e-6)
        # tinterpolate
        nobs = rng.choice([5, 8, 12])
        tmpl = np.zeros(nobs * 5)
        tmpl[::5] = 1
        labels = (np.arange(nobs * 5) // 10).astype("int32")
        nruns = int(1 + np.count_nonzero(np.diff(labels)))
        xo = np.array(gen.series(rng, nobs, "ndvi"), dtype="int16")

        def it_ti():
            o = np.zeros(nruns, "int16")
            I["tinterpolate"](xo, tmpl, labels, np.zeros(nruns, "u1"), o)
            return o
        cmp("tinterpolate", dict(x=xo.tolist()), lambda: ops.tinterpolate(xo, tmpl, labels, np.zeros(nruns, "u1")), it_ti, kind="band")

    # SciPy special functions bound into compiled code through the vendored extension
    import numba

    @numba.njit
    def special(a, x, pq):
        return sc.digamma(a), sc.gammainc(a, x), sc.ndtri(pq)
    for _ in range(ctx.budget(200, 2000)):
        a = 10 ** rng.uniform(-2, 4)
        x = a * 10 ** rng.uniform(-2, 1)
        pq = rng.random()
        got = special(a, x, pq)
        want = (float(sc.digamma(a)), float(sc.gammainc(a, x)), float(sc.ndtri(pq)))
        ctx.case(("special", a, x, pq))
        ctx.count("vendored special functions")
        if not close(got, want, 1e-12):
            ctx.fail("vendored numba_scipy.special", dict(a=a, x=x, p=pq), list(got), list(want), note="digamma / gammainc / ndtri in compiled code == scipy.special")
    programs.add("vendored special functions")

    # Lean model as pivot: interpreted source == model == compiled (bit level) for the core
    lines, refs = [], []
    for _ in range(ctx.budget(20, 100)):
        n = rng.choice([4, 6, 10, 24])
        y = np.array(gen.series(rng, n), dtype="float64")
        w = np.array(gen.gaps(rng, n, min_valid=2), dtype="float64")
        lam = gen.lam(rng)
        zi = I["ws2d"](y, lam, w)
        zc = ws2d(y, lam, w)
        lines.append(f"ws2d F {core.farr(y)} {core.f2h(lam)} {core.farr(w)}")
        refs.append((dict(y=y.tolist(), lam=lam, w=w.tolist()), zi, zc))
    for (inp, zi, zc), a in zip(refs, ctx.driver.ask(lines)):
        zm = np.array(core.parse_arr(a.split()[1], core.h2f))
        ctx.case(("pivot", repr(inp)[:100]))
        ctx.count("pivot ws2d")
        if not (np.array_equal(zm, zi) and np.array_equal(zm, zc)):
            if not (close(zm, zi, 1e-12) and close(zm, zc, 1e-12)):
                ctx.disagree("E/F", "ws2d", inp, zm[:5].tolist(), dict(interpreted=zi[:5].tolist(), compiled=zc[:5].tolist()))
    # compile-order probe in a fresh process: the wrapper kernels are the FIRST to request their callees' specialisations
    import json, subprocess, sys
    script = r"""
import json, warnings
warnings.filterwarnings("ignore")
import numpy as np
rng = np.random.default_rng(%d)
cube = (rng.normal(size=(2, 2, 30)).cumsum(axis=-1) * 100 + 3000)
cube[rng.random(cube.shape) < 0.2] = np.nan
from hdc.algo.ops.autocorr import autocorr, autocorr_tyx, autocorr_1d_float
res = {}
for dt in ("float64", "float32"):
    c = cube.astype(dt)
    a = np.asarray(autocorr(c), dtype="float64")
    b = np.asarray(autocorr_tyx(np.ascontiguousarray(np.moveaxis(c, -1, 0))), dtype="float64")
    ref = np.array([[autocorr_1d_float.py_func(c[i, j].astype("float64")) for j in range(2)] for i in range(2)])
    res[dt] = dict(yxt=a.tolist(), tyx=b.tolist(), ref=ref.tolist())
print(json.dumps(res))
""" % ctx.seed
    r = subprocess.run([sys.executable, "-c", script], capture_output=True, text=True, timeout=900)
    try:
        res = json.loads(r.stdout.strip().split("\n")[-1])
    except Exception:  # noqa: BLE001
        raise core.Infra("compile-order worker failed: " + (r.stderr or r.stdout)[-400:])
    for dt, v in res.items():
        for k in ("yxt", "tyx"):
            ctx.case(("order", dt, k))
            ctx.count("fresh-process compile order")
            if not np.allclose(np.array(v[k], dtype="float64"), np.array(v["ref"]), atol=2e-6):
                ctx.fail("autocorr" if k == "yxt" else "autocorr_tyx", dict(dtype=dt, config="fresh process, wrapper kernel compiled first, float data with NaN"),
                         v[k], v["ref"], note="compiled kernel must return what its source returns under the interpreter")
    ctx.notes["programs"] = sorted(programs)
    ctx.notes["n_programs"] = len(programs)
    ctx.trusted += ["CPython + NumPy + SciPy as the reference semantics of the source", "native model driver", "harness/props/c13.py (interpreted rebuild of every kernel)"]


def search(ctx):
    ctx.quick = False
    run(ctx)
