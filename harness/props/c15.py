"""C15  Lag-1 autocorrelation is a Pearson correlation with mean-filled gaps."""
import numpy as np

from .. import core, gen

RULE = ("series of length 3..900 (int16 with nodata, float with NaN): gap patterns random / contiguous outages up to 90% / leading / trailing / "
        "all-but-k; compiled autocorr_1d vs Lean model at Float; oracle on the real code: NumPy mean-filled Pearson reference, range [-1,1], "
        "positive affine maps keeping int16, int/nodata vs float/NaN encodings, (y,x,t) vs (t,y,x) kernels, accessor incl. dask. Non-trivial = "
        "distinct series with at least one gap and non-zero variance.")
LEVEL_NOTE = ("acAccum_spec, autocorr_eq_spec / autocorr_pearson (the value is cov/sqrt(vX vY) of the mean-filled vectors), autocorr_range "
              "(Cauchy-Schwarz, [-1,1]), autocorr_degenerate, autocorr_affine are proved for the Lean model with x^(-1/2) as a parameter "
              "(hypothesis IsRsqrt); float rounding of the accumulators is sampled.")


def reference(x, valid):
    xf = np.where(valid, x.astype("float64"), np.nan)
    X, Y = xf[:-1].copy(), xf[1:].copy()
    if not (np.isfinite(X) & np.isfinite(Y)).any():
        return 0.0
    X[np.isnan(X)] = np.nanmean(X)
    Y[np.isnan(Y)] = np.nanmean(Y)
    sx, sy = X.std(), Y.std()
    if sx == 0 or sy == 0:
        return 0.0
    return float(((X - X.mean()) * (Y - Y.mean())).mean() / (sx * sy))


def gap_mask(rng, n):
    kind = rng.choice(["none", "random", "outage", "outage90", "leading", "trailing", "allbutk"])
    m = np.ones(n, dtype=bool)
    if kind == "random":
        m = np.array([rng.random() > rng.choice([0.1, 0.3, 0.6]) for _ in range(n)])
    elif kind == "outage":
        a = rng.randrange(n)
        m[a:a + rng.randint(1, max(1, n // 2))] = False
    elif kind == "outage90":
        k = int(n * 0.9)
        a = rng.randrange(0, n - k + 1)
        m[a:a + k] = False
    elif kind == "leading":
        m[: rng.randint(1, max(1, n // 2))] = False
    elif kind == "trailing":
        m[n - rng.randint(1, max(1, n // 2)):] = False
    elif kind == "allbutk":
        m[:] = False
        for i in rng.sample(range(n), rng.randint(0, min(5, n))):
            m[i] = True
    return m


def run(ctx: core.Ctx):
    from hdc.algo.ops.autocorr import autocorr, autocorr_1d, autocorr_tyx
    import dask.array as da_
    import xarray as xr
    import hdc.algo  # noqa: F401

    rng = ctx.rng
    lines, refs = [], []
    for _ in range(ctx.budget(300, 3000)):
        n = rng.choice([3, 4, 5, 8, 12, 36, 100, 255, 400] + ([] if ctx.quick else [900]))
        y = np.array(gen.series(rng, n, rng.choice([None, "const", "linear", "smallint", "walk"])), dtype="int16")
        m = gap_mask(rng, n)
        nd = -3000 if -3000 not in y else -32000
        xi = np.where(m, y, nd).astype("int16")
        xf = np.where(m, y.astype("float64"), np.nan)
        if rng.random() < 0.3 and np.abs(y).max() < 12000:
            y = (y + 20000).astype("int16")       # large level, small spread: products need more than a float32 mantissa
            xi = np.where(m, y, nd).astype("int16")
            xf = np.where(m, y.astype("float64"), np.nan)
        r_int = float(autocorr_1d(xi, nd))
        r_flt = float(autocorr_1d(xf))
        r_f32 = float(autocorr_1d(xf.astype("float32")))     # int16 values are exact in float32: same result required
        ref = reference(y, m)
        key = (xi.tobytes(), nd)
        ctx.case(key, nontrivial=(not m.all()) and abs(ref) > 0, sample=dict(n=n, valid=int(m.sum()), head=xi[:10].tolist(), nodata=nd, value=r_int))
        ctx.count(f"n<={1 << (n - 1).bit_length()}")
        inp = dict(x=xi.tolist() if n <= 60 else dict(n=n, valid=int(m.sum()), head=xi[:20].tolist()), nodata=nd)
        lines.append(f"autocorr F {core.farr(np.where(m, y, 0).astype('float64'))} {core.iarr(m.astype(int))}")
        refs.append((inp, r_int))
        vv = y[m].astype("float64")
        cond = 1.0 if vv.size < 2 or vv.var() == 0 else float((vv.mean() ** 2 + vv.var()) / vv.var())
        tol = 1e-9 + 2e-17 * n * cond        # forward error of the raw-moment variance n*Sxx - Sx^2 in float64 (level^2 / variance)
        if not (abs(r_int - ref) <= tol and abs(r_flt - ref) <= tol):
            # degenerate threshold of the code: variance below 1e-8 -> 0; reference has no threshold
            ctx.fail("autocorr_1d", inp, dict(int=r_int, float=r_flt), ref, note="Pearson correlation of the series with itself shifted by one step, gaps filled with the mean of the valid cells of each vector")
        if not (-1 - 1e-12 <= r_int <= 1 + 1e-12):
            ctx.fail("autocorr_1d", inp, r_int, "within [-1, 1]")
        if (r_int != r_flt and abs(r_int - r_flt) > 1e-12) or abs(r_f32 - r_flt) > 1e-12:
            ctx.fail("autocorr_1d", inp, dict(int=r_int, float64=r_flt, float32=r_f32), "integer/nodata and float/NaN encodings agree")
        # positive affine map keeping int16
        a, b = rng.choice([1, 2, 3]), rng.randint(-500, 500)
        y2 = y.astype(np.int64) * a + b
        if np.abs(y2).max() < 32000 and nd not in y2:
            x2 = np.where(m, y2, nd).astype("int16")
            r2 = float(autocorr_1d(x2, nd))
            if abs(r2 - r_int) > 10 * tol:
                ctx.fail("autocorr_1d", dict(inp, a=a, b=b), r2, r_int, note="unchanged by a positive affine rescaling of the valid cells")
    for (inp, r_int), a in zip(refs, ctx.driver.ask(lines)):
        mv = core.h2f(a.split()[1])
        if mv != r_int and abs(mv - r_int) > 1e-12:
            ctx.disagree("F", "autocorr_1d", inp, mv, r_int)

    # layouts, float32 store, accessor, dask
    for k in range(ctx.budget(6, 40)):
        nt, ny, nx = rng.choice([5, 36, 100]), 3, 2
        nd = [-3000, 0, 32767, -1, 0, -32768][k % 6]     # incl. the falsy-but-valid marker 0 (a truthiness test on the attribute would drop it)
        cube = np.zeros((nt, ny, nx), dtype="int16")
        for i in range(ny):
            for j in range(nx):
                yv = np.array(gen.series(rng, nt), dtype="int16")
                cube[:, i, j] = np.where(gap_mask(rng, nt), yv, nd)
        want = np.array([[np.float32(autocorr_1d(np.ascontiguousarray(cube[:, i, j]), nd)) for j in range(nx)] for i in range(ny)])
        r_tyx = autocorr_tyx(cube, nd)
        r_yxt = autocorr(np.ascontiguousarray(np.moveaxis(cube, 0, -1)), nd)
        t = np.arange(nt).astype("datetime64[D]")
        da = xr.DataArray(cube, dims=("time", "y", "x"), coords={"time": t}, attrs={"nodata": nd})
        acc1 = np.asarray(da.hdc.algo.autocorr())
        acc2 = np.asarray(da.transpose("y", "x", "time").hdc.algo.autocorr())
        dd = xr.DataArray(da_.from_array(cube, chunks=(max(1, nt // 2), 2, 1)), dims=("time", "y", "x"), coords={"time": t}, attrs={"nodata": nd})
        acc3 = np.asarray(dd.hdc.algo.autocorr().compute())
        acc4 = np.asarray(dd.transpose("y", "x", "time").chunk({"time": -1}).hdc.algo.autocorr().compute())
        ctx.case(("cube", cube.tobytes()), sample=dict(accessor="autocorr", shape=list(cube.shape)))
        ctx.count("layouts/accessor")
        for name, got in (("autocorr_tyx", r_tyx), ("autocorr", r_yxt), ("accessor tyx", acc1), ("accessor yxt", acc2), ("dask tyx", acc3), ("dask yxt", acc4)):
            if np.asarray(got).dtype != np.float32 or not np.array_equal(np.asarray(got), want.astype("float32")):
                ctx.fail(name, dict(cube=cube.tolist() if nt <= 12 else dict(shape=list(cube.shape))), dict(dtype=str(np.asarray(got).dtype), values=np.asarray(got).tolist()), want.tolist(),
                         note="same float32 value for both layouts, numpy and dask")
    # two lazy autocorrelation rasters of different cubes evaluated in one dask graph: each is the correlation of its own cube
    import dask
    for layout in (("time", "y", "x"), ("y", "x", "time")):
        cubes = []
        for _ in range(2):
            cb = np.zeros((36, 3, 2), dtype="int16")
            for i in range(3):
                for j in range(2):
                    cb[:, i, j] = np.where(gap_mask(rng, 36), np.array(gen.series(rng, 36), dtype="int16"), -3000)
            cubes.append(cb)
        t36 = np.arange(36).astype("datetime64[D]")
        eager = [np.asarray(xr.DataArray(cb, dims=("time", "y", "x"), coords={"time": t36}, attrs={"nodata": -3000}).hdc.algo.autocorr()) for cb in cubes]
        lazy = [xr.DataArray(da_.from_array(cb, chunks=(36, 2, 1)), dims=("time", "y", "x"), coords={"time": t36}, attrs={"nodata": -3000}).transpose(*layout).hdc.algo.autocorr() for cb in cubes]
        got = dask.compute(*lazy)
        ctx.case(("joint", layout), sample=dict(accessor="autocorr", config="two cubes computed in one dask graph", dims=layout))
        ctx.count("joint dask evaluation")
        for kk in range(2):
            if not np.array_equal(np.asarray(got[kk].transpose("y", "x")), eager[kk]):
                ctx.fail("autocorr accessor", dict(config="two lazy results on different cubes computed together", dims=layout, cube=kk),
                         np.asarray(got[kk]).tolist(), eager[kk].tolist(), note="each pixel's value is the correlation of its own series")
                break
    # exactly (anti-)correlated lag-1 vectors: linear ramps and strictly alternating series give |r| = 1; the value always lies in [-1, 1]
    for n in list(range(3, 61)) + [100, 200, 360]:
        ramp = (np.arange(n) * 3 + 7).astype("int16")
        alt = np.array([5 if i % 2 else 90 for i in range(n)], dtype="int16")
        cube = np.stack([ramp, alt, ramp[::-1].copy()], axis=1).reshape(n, 3, 1)
        da = xr.DataArray(cube, dims=("time", "y", "x"), coords={"time": np.arange(n).astype("datetime64[D]")}, attrs={"nodata": -3000})
        outs = {"accessor tyx int16": da.hdc.algo.autocorr(), "accessor yxt int16": da.transpose("y", "x", "time").hdc.algo.autocorr(),
                "accessor tyx float64": da.astype("float64").drop_attrs().hdc.algo.autocorr(), "accessor yxt float32": da.astype("float32").drop_attrs().transpose("y", "x", "time").hdc.algo.autocorr()}
        ctx.case(("perfect", n), sample=dict(accessor="autocorr", family="ramp / alternating", n=n))
        ctx.count("perfectly correlated series")
        for nm, r in outs.items():
            v = np.asarray(r, dtype="float64").ravel()
            if (np.abs(v) > 1.0).any():
                ctx.fail("autocorr", dict(n=n, path=nm, series="3t+7 / alternating 90,5 / reversed ramp"), [float(x) for x in v], "within [-1, 1]",
                         note="the value always lies in [-1, 1]")
                break
    import json, subprocess, sys
    script = r"""
import json, warnings
warnings.filterwarnings("ignore")
import numpy as np
rng = np.random.default_rng(%d)
cube = (rng.normal(size=(2, 3, 40)).cumsum(axis=-1) * 100 + 5000)
cube[rng.random(cube.shape) < 0.2] = np.nan
out = {}
for dt in ("float64", "float32"):
    c = cube.astype(dt)
    from hdc.algo.ops.autocorr import autocorr, autocorr_1d_float
    first = autocorr(c)                      # FIRST use of the float path in this process
    ref = [[float(autocorr_1d_float.py_func(c[i, j].astype("float64"))) for j in range(3)] for i in range(2)]
    out[dt] = dict(got=np.asarray(first, dtype="float64").tolist(), ref=ref)
print(json.dumps(out))
""" % ctx.seed
    r = subprocess.run([sys.executable, "-c", script], capture_output=True, text=True, timeout=900)
    try:
        res = json.loads(r.stdout.strip().split("\n")[-1])
    except Exception:  # noqa: BLE001
        raise core.Infra("autocorr fresh-process worker failed: " + (r.stderr or r.stdout)[-400:])
    for dt, v in res.items():
        ctx.case(("fresh", dt), sample=dict(config="fresh process, float cube with NaN, (y,x,t) kernel first", dtype=dt))
        ctx.count("fresh-process float path")
        got, ref = np.array(v["got"], dtype="float64"), np.array(v["ref"])
        if not np.allclose(got, ref, atol=2e-6, equal_nan=False):
            ctx.fail("autocorr", dict(dtype=dt, config="first compiled use of the float path in a fresh process"), got.tolist(), ref.tolist(),
                     note="float data with NaN gaps: compiled (y,x,t) kernel vs the mean-filled Pearson value of its own source")
    core.acc_dispatch(ctx, ['autocorr'])
    ctx.trusted += ["native model driver (Hdc/Model/Stats.lean at Float; x^-0.5 = libm pow)", "harness/props/c15.py oracle (NumPy mean-filled Pearson)"]


def search(ctx):
    ctx.quick = False
    run(ctx)
