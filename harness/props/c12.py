"""C12  Results do not depend on laziness, chunking, layout or threading."""
import json
import os
import subprocess
import sys
import tempfile

import numpy as np

from .. import core, gen

RULE = ("every accessor operation (whits s/sg/p, whitsvc, whitswcv, whitint, spi, spi groups, croo, lroo, autocorr, mktrend, mean_grp, rolling.sum, "
        "zonal.mean, anom) on a random cube: numpy vs dask x chunkings of y/x (1-pixel, ragged, single chunk) x schedulers (synchronous, threads "
        "1/4/16) x dimension orders (time first / last / middle): values, dims, coords, dtype must coincide; pixel permutation permutes results; a "
        "chunked time axis must raise or give the eager result; ws2doptvplc_tyx bit-identical for 1, 2, 4, 16 Numba threads; N threads racing on "
        "the first call of lazily compiled kernels in fresh subprocesses (quick: 3 kernels x 8 threads, thorough: all kernels x 2..16). Effect "
        "summaries of lazycompile and the prange loop are regenerated from the source and the generic Lean theorems are re-instantiated by decide. "
        "Non-trivial = distinct (operation, configuration).")
LEVEL_NOTE = ("lazy_init_safe, lazy_cache_monotone (every N, every interleaving of the generated wrapper program), prange_schedule_independent / "
              "prange_threads_independent (every merge of row action lists) and map_perm / map_chunks / map_pixel_local are proved; instances by decide on the "
              "GENERATED summaries. dask graph construction, schedulers, Numba's threading layer and the thread-safety of Numba's own compilation are runtime "
              "facts the model cannot exhibit: validated by the sampled configurations only (partial).")

RACE_SCRIPT = r'''
import sys, threading, json, warnings
warnings.filterwarnings("ignore")
import numpy as np
name, nthreads = sys.argv[1], int(sys.argv[2])
rng = np.random.default_rng(7)
y = (np.sin(np.arange(36) / 5) * 3000 + 4000 + rng.normal(0, 200, 36)).round()
y[[3, 17]] = -3000
def call():
    import importlib
    from hdc.algo import ops
    stats, zonal, ac = (importlib.import_module("hdc.algo.ops." + m) for m in ("stats", "zonal", "autocorr"))
    sr = np.arange(-2, 2.2, 0.5)
    if name == "ws2dgu": return ops.ws2dgu(y, 10.0, -3000.0).tolist()
    if name == "ws2dpgu": return ops.ws2dpgu(y, 10.0, -3000.0, 0.9).tolist()
    if name == "ws2doptv": b, l = ops.ws2doptv(y, -3000.0, sr); return b.tolist() + [float(l)]
    if name == "ws2doptvp": b, l = ops.ws2doptvp(y, -3000.0, 0.9, sr); return b.tolist() + [float(l)]
    if name == "ws2doptvplc": b, l = ops.ws2doptvplc(y.astype("int16"), -3000.0, 0.9, 0.7); return b.tolist() + [float(l)]
    if name == "ws2dwcv": b, l = ops.ws2dwcv(y, -3000.0, sr, True); return b.tolist() + [float(l)]
    if name == "ws2dwcvp": b, l = ops.ws2dwcvp(y, -3000.0, 0.9, sr, True); return b.tolist() + [float(l)]
    if name == "ws2doptvplc_tyx":
        from hdc.algo.ops.ws2doptvplc import ws2doptvplc_tyx
        z, l = ws2doptvplc_tyx(np.repeat(y.astype("int16"), 6).reshape(36, 3, 2), 0.9, -3000); return z.ravel().tolist() + l.ravel().tolist()
    if name == "lroo": return int(ops.lroo((y > 4000).astype("uint8")))
    if name == "tinterpolate":
        t = np.zeros(36 * 5); t[::5] = 1; lab = (np.arange(36 * 5) // 10).astype("int32")
        return ops.tinterpolate(y.astype("int16"), t, lab, np.zeros(18, dtype="u1")).tolist()
    if name == "do_mean": return zonal.do_mean(y.reshape(1, 6, 6), (np.arange(36) % 3).reshape(6, 6), 3, -3000.0, -1).tolist()
    if name == "autocorr": return ac.autocorr(y.astype("int16").reshape(1, 1, -1), -3000).tolist()
    if name == "autocorr_tyx": return ac.autocorr_tyx(y.astype("int16").reshape(-1, 1, 1), -3000).tolist()
    if name == "gammastd_grp": return stats.gammastd_grp(np.abs(y).astype("float32"), (np.arange(36) % 2).astype("int16"), 2, -9999.0, np.array([[0, 18], [0, 18]], dtype="int16")).tolist()
    if name == "mann_kendall": return [float(v) for v in stats._mann_kendall_trend_gu(y.astype("float32"))]
    if name == "mann_kendall_nd": return [float(v) for v in stats._mann_kendall_trend_gu_nd(y.astype("float32"), -3000.0)]
    if name == "mean_grp": return stats.mean_grp(y.astype("float32"), (np.arange(36) % 3).astype("int16"), 3, -3000.0).tolist()
    if name == "rolling_sum": return stats.rolling_sum(y.astype("float32"), 3.0, -3000.0).tolist()
    raise SystemExit("unknown " + name)
import hdc.algo.ops  # import before the race: only the first CALL is raced
barrier = threading.Barrier(nthreads)
results, errors = [None] * nthreads, []
def worker(i):
    try:
        barrier.wait()
        results[i] = call()
    except BaseException as e:
        errors.append(repr(e))
ts = [threading.Thread(target=worker, args=(i,)) for i in range(nthreads)]
[t.start() for t in ts]; [t.join() for t in ts]
ref = call()
print(json.dumps(dict(errors=errors, agree=all(json.dumps(r) == json.dumps(ref) for r in results), ref=ref if not isinstance(ref, list) else ref[:6])))
'''

KERNELS = ["ws2dgu", "ws2dpgu", "ws2doptv", "ws2doptvp", "ws2doptvplc", "ws2dwcv", "ws2dwcvp", "ws2doptvplc_tyx", "lroo", "tinterpolate", "do_mean",
           "autocorr", "autocorr_tyx", "gammastd_grp", "mann_kendall", "mann_kendall_nd", "mean_grp", "rolling_sum"]


def make_cube(rng, nt=12, ny=3, nx=4):
    nd = -3000
    cube = np.zeros((nt, ny, nx), dtype="int16")
    for i in range(ny):
        for j in range(nx):
            yv = gen.series(rng, nt, rng.choice(["ndvi", "rain", "walk"]))
            mk = gen.gaps(rng, nt, min_valid=6)
            cube[:, i, j] = [abs(v) % 9000 + 1 if ok else nd for v, ok in zip(yv, mk)]
    return cube, nd


def operations(nt):
    """name -> function(DataArray with dims incl. time,y,x and attrs nodata) -> xarray object"""
    import xarray as xr
    sr = np.arange(-1.0, 2.5, 0.5)
    tmpl = np.zeros(nt * 5)
    tmpl[::5] = 1
    labels = (np.arange(nt * 5) // 10).astype("int32")
    groups = [i % 3 for i in range(nt)]
    return {
        "whits_s": lambda d: d.hdc.whit.whits(nodata=-3000, s=10.0),
        "whits_sp": lambda d: d.hdc.whit.whits(nodata=-3000, s=10.0, p=0.9),
        "whits_sg": lambda d: d.hdc.whit.whits(nodata=-3000, sg=xr.DataArray(np.linspace(-1, 2, d.sizes["y"] * d.sizes["x"]).reshape(d.sizes["y"], d.sizes["x"]), dims=("y", "x"))),
        "whitsvc": lambda d: d.hdc.whit.whitsvc(nodata=-3000, srange=sr),
        "whitsvc_p": lambda d: d.hdc.whit.whitsvc(nodata=-3000, srange=sr, p=0.9),
        "whitsvc_lc": lambda d: d.hdc.whit.whitsvc(nodata=-3000, p=0.9, lc=xr.DataArray(np.linspace(-1, 1, d.sizes["y"] * d.sizes["x"]).reshape(d.sizes["y"], d.sizes["x"]), dims=("y", "x"))),
        "whitswcv": lambda d: d.hdc.whit.whitswcv(nodata=-3000, srange=sr),
        "whitswcv_p": lambda d: d.hdc.whit.whitswcv(nodata=-3000, srange=sr, p=0.9, robust=False),
        "whitint": lambda d: d.hdc.whit.whitint(labels, tmpl),
        "spi": lambda d: d.hdc.algo.spi(nodata=-3000),
        "spi_grp": lambda d: d.hdc.algo.spi(nodata=-3000, groups=groups),
        "croo": lambda d: (d > 4000).astype("int16").hdc.algo.croo(),
        "lroo": lambda d: (d > 4000).astype("uint8").hdc.algo.lroo(),
        "autocorr": lambda d: d.hdc.algo.autocorr(),
        "mktrend": lambda d: d.hdc.algo.mktrend(),
        "mean_grp": lambda d: d.hdc.algo.mean_grp(groups),
        "rolling": lambda d: d.hdc.rolling.sum(3),
        "anom": lambda d: d.isel(time=0).hdc.anom.ratio(d.isel(time=1), offset=1),
    }


def same(a, b):
    """values, dims, coords, dtype of two xarray objects (Dataset or DataArray)"""
    import xarray as xr
    if isinstance(a, xr.Dataset):
        return isinstance(b, xr.Dataset) and set(a.data_vars) == set(b.data_vars) and all(same(a[k], b[k]) for k in a.data_vars)
    a, b = a.compute(), b.compute()
    if set(a.dims) != set(b.dims):
        return False
    b = b.transpose(*a.dims)
    if a.dtype != b.dtype or a.shape != b.shape:
        return False
    if not np.array_equal(np.asarray(a), np.asarray(b), equal_nan=a.dtype.kind == "f"):
        return False
    if set(a.coords) != set(b.coords):          # including non-dimension coordinates (spatial_ref, 2-d lon / lat ...)
        return False
    for c in a.coords:
        ca, cb = a[c], b[c]
        if set(ca.dims) != set(cb.dims):
            return False
        if not np.array_equal(np.asarray(ca), np.asarray(cb.transpose(*ca.dims))):
            return False
    return True


def run(ctx: core.Ctx):
    import dask
    import dask.array as da_
    import numba
    import xarray as xr
    import hdc.algo  # noqa: F401

    rng = ctx.rng
    nt = 12
    cube, nd = make_cube(rng, nt)
    t = np.datetime64("2000-01-01") + (np.arange(nt) * 10).astype("timedelta64[D]")
    yy2, xx2 = np.meshgrid(np.arange(cube.shape[1]) * 1.5, np.arange(cube.shape[2]) * 2.0, indexing="ij")
    coords = {"time": t, "y": np.arange(cube.shape[1]) * 1.5, "x": np.arange(cube.shape[2]) * 2.0,
              # time-independent non-dimension coordinates, as geospatial cubes carry them
              "spatial_ref": 4326, "lon": (("y", "x"), xx2 + 30.0), "lat": (("y", "x"), 10.0 - yy2)}
    base = xr.DataArray(cube.copy(), dims=("time", "y", "x"), coords=coords, attrs={"nodata": nd})
    ops_ = operations(nt)
    chunkings = [{"y": 1, "x": 1}, {"y": (2, 1), "x": (1, 3)}, {"y": -1, "x": -1}]
    scheds = [("synchronous", None), ("threads", 1), ("threads", 4)] + ([] if ctx.quick else [("threads", 16)])
    orders = [("time", "y", "x"), ("y", "x", "time"), ("y", "time", "x")]
    for name, op in ops_.items():
        try:
            ref = op(base)
        except Exception as e:  # noqa: BLE001
            ctx.fail(name, dict(config="eager numpy"), repr(e), "no exception")
            continue
        ref = ref.compute()
        # neither the cube nor its attributes are touched by an operation, and asking again gives the same answer (no hidden state)
        if not (np.array_equal(np.asarray(base), cube) and base.attrs == {"nodata": nd}):
            ctx.fail(name, dict(config="eager numpy"), "the input cube or its attributes were modified", "inputs are left as they were")
            base = xr.DataArray(cube.copy(), dims=("time", "y", "x"), coords=coords, attrs={"nodata": nd})
        try:
            if not same(ref, op(base).compute()):
                ctx.fail(name, dict(config="eager numpy, second call on the same object"), "differs from the first call", "the same result")
        except Exception as e:  # noqa: BLE001
            ctx.fail(name, dict(config="second call"), repr(e)[:160], "no exception")
        # the same for a float64 cube: there NumPy hands the kernel a VIEW of the caller's memory (no cast copy), so an in-place
        # clean-up inside a gufunc would overwrite the caller's placeholders (operations that refuse float input are skipped)
        f64 = cube.astype("float64")
        basef = xr.DataArray(f64.copy(), dims=("time", "y", "x"), coords=coords, attrs={"nodata": nd})
        try:
            rf = op(basef).compute()
        except Exception:  # noqa: BLE001
            rf = None
        if rf is not None:
            ctx.count("float64 input left unmodified")
            if not np.array_equal(np.asarray(basef), f64):
                ctx.fail(name, dict(config="eager numpy, float64 cube"), "the input cube was modified in place", "inputs are left as they were")
            else:
                try:
                    if not same(rf, op(basef).compute()):
                        ctx.fail(name, dict(config="eager numpy, float64 cube, second call on the same object"), "differs from the first call", "the same result")
                except Exception as e:  # noqa: BLE001
                    ctx.fail(name, dict(config="float64 cube, second call"), repr(e)[:160], "no exception")
        for order in orders:
            dord = base.transpose(*order)
            try:
                r = op(dord)
                ok = same(ref, r)
            except Exception as e:  # noqa: BLE001
                r, ok = repr(e), False
            ctx.case((name, "order", order), sample=dict(op=name, config=f"dims {order}"))
            ctx.count("dimension orders")
            if not ok:
                ctx.fail(name, dict(config="numpy", dims=order), "differs" if not isinstance(r, str) else r, "same values/dims/coords/dtype for every dimension order")
            combos = [(ch, sc) for ch in chunkings for sc in scheds]
            if ctx.quick:
                combos = [combos[i] for i in sorted(rng.sample(range(len(combos)), 3))]
            for ch, (sched, nw) in combos:
                dd = dord.chunk({"time": -1, **ch})
                cfg = dict(scheduler=sched) if nw is None else dict(scheduler=sched, num_workers=nw)
                try:
                    with dask.config.set(**cfg):
                        r = op(dd).compute()
                    ok = same(ref, r)
                except Exception as e:  # noqa: BLE001
                    r, ok = repr(e), False
                ctx.case((name, order, str(ch), sched, nw), sample=None)
                ctx.count("dask configurations")
                if not ok:
                    ctx.fail(name, dict(config="dask", dims=order, chunks=str(ch), scheduler=sched, workers=nw), "differs" if not isinstance(r, str) else r[:200],
                             "identical to the in-memory result")
        # two lazy results of the same operation on DIFFERENT cubes evaluated in one dask graph: each equals its own eager result
        # (a graph key that does not depend on the input would let one replace the other)
        try:
            cube_b = np.where(cube == nd, nd, (cube[::-1] + 17) % 7000).astype(cube.dtype)
            base_b = xr.DataArray(cube_b, dims=("time", "y", "x"), coords=coords, attrs={"nodata": nd})
            ref_b = op(base_b).compute()
            for order in (("time", "y", "x"), ("y", "x", "time")):
                la = op(base.transpose(*order).chunk({"time": -1, "y": 2, "x": 2}))
                lb = op(base_b.transpose(*order).chunk({"time": -1, "y": 2, "x": 2}))
                with dask.config.set(scheduler="synchronous"):
                    ra, rb = dask.compute(la, lb)
                ctx.case((name, "joint", order))
                ctx.count("joint evaluation of two cubes")
                if not (same(ref, ra) and same(ref_b, rb)):
                    ctx.fail(name, dict(config="two lazy results on different cubes computed in one graph", dims=order), "one result is not that of its own cube", "each equals its own in-memory result")
        except Exception as e:  # noqa: BLE001
            ctx.fail(name, dict(config="joint dask.compute of two cubes"), repr(e)[:200], "no exception")
        # chunked time axis: refuse, or compute the same thing
        dd = base.chunk({"time": 5, "y": -1, "x": -1})
        try:
            with dask.config.set(scheduler="synchronous"):
                r = op(dd).compute()
            if not same(ref, r):
                ctx.fail(name, dict(config="time axis chunked"), "computed something else", "an error, or the eager result")
            ctx.count("chunked time: computed correctly")
        except Exception:  # noqa: BLE001
            ctx.count("chunked time: refused")
        ctx.case((name, "timechunk"))
        # pixel permutation
        py, px = list(range(cube.shape[1])), list(range(cube.shape[2]))
        rng.shuffle(py)
        rng.shuffle(px)
        perm = base.isel(y=py, x=px)
        try:
            r = op(perm).compute()
            want = ref.isel(y=py, x=px) if "y" in ref.dims else ref
            if name == "whits_sg" or name == "whitsvc_lc":
                pass    # the per-pixel parameter raster is positional: not a pure pixel map of the data alone
            elif not same(want, r):
                ctx.fail(name, dict(config="pixel permutation", y=py, x=px), "differs", "permuting pixels permutes results")
        except Exception as e:  # noqa: BLE001
            ctx.fail(name, dict(config="pixel permutation"), repr(e), "no exception")
        ctx.case((name, "perm"))
        ctx.count("pixel permutations")

    # zonal mean (numpy vs dask incl. spatial chunks)
    zones = xr.DataArray((np.arange(cube.shape[1] * cube.shape[2]) % 3).reshape(cube.shape[1:]).astype("uint8"), dims=("y", "x"), attrs={"nodata": 255})
    zref = base.hdc.zonal.mean(zones, [0, 1, 2])
    for ch in chunkings:
        zd = base.chunk({"time": 4, **ch}).hdc.zonal.mean(zones.chunk(ch), [0, 1, 2]).compute()
        ctx.case(("zonal", str(ch)))
        ctx.count("zonal dask")
        if not same(zref, zd):
            ctx.fail("zonal.mean", dict(chunks=str(ch)), "differs", "identical to the in-memory result")

    zones2 = xr.DataArray(((np.arange(cube.shape[1] * cube.shape[2]) + 1) % 3).reshape(cube.shape[1:]).astype("uint8"), dims=("y", "x"), attrs={"nodata": 255})
    zref2 = base.hdc.zonal.mean(zones2, [0, 1, 2])
    lazy_a = base.chunk({"time": 4}).hdc.zonal.mean(zones, [0, 1, 2], name="zonal")
    lazy_b = base.chunk({"time": 4}).hdc.zonal.mean(zones2, [0, 1, 2], name="zonal")
    ra, rb = dask.compute(lazy_a, lazy_b)
    ctx.case(("zonal-joint",))
    ctx.count("zonal joint evaluation")
    if not (same(zref, ra) and same(zref2, rb)):
        ctx.fail("zonal.mean", dict(config="two named lazy results with different zone rasters evaluated in one dask graph"), "one result replaced the other", "each equals its own in-memory result")

    # prange kernel: bit-identical for every thread count
    from hdc.algo.ops.ws2doptvplc import ws2doptvplc_tyx
    big, _ = make_cube(rng, 24, 9, 7)
    numba.set_num_threads(1)
    z1, l1 = ws2doptvplc_tyx(big, 0.9, nd)
    maxt = numba.config.NUMBA_NUM_THREADS
    for k in [2, 4, 16]:
        k = min(k, maxt)
        numba.set_num_threads(k)
        zk, lk = ws2doptvplc_tyx(big, 0.9, nd)
        ctx.case(("prange", k), sample=dict(kernel="ws2doptvplc_tyx", threads=k))
        ctx.count("prange thread counts")
        if not (np.array_equal(z1, zk) and np.array_equal(l1, lk)):
            ctx.fail("ws2doptvplc_tyx", dict(threads=k), "differs from 1 thread", "bit-identical results for every thread count")
    numba.set_num_threads(maxt)

    # first-call race in fresh subprocesses
    with tempfile.NamedTemporaryFile("w", suffix=".py", delete=False) as f:
        f.write(RACE_SCRIPT)
        script = f.name
    try:
        if ctx.quick:
            plan = [(k, 8) for k in rng.sample(KERNELS, 3)]
        else:
            plan = [(k, n) for k in KERNELS for n in (2, 16)]
        procs = []
        env = dict(os.environ, NUMBA_NUM_THREADS="2")
        for k, n in plan:
            procs.append((k, n, subprocess.Popen([sys.executable, script, k, str(n)], stdout=subprocess.PIPE, stderr=subprocess.PIPE, text=True, env=env)))
            if len(procs) >= 8:
                _drain(ctx, procs)
                procs = []
        _drain(ctx, procs)
    finally:
        os.unlink(script)
    ctx.trusted += ["harness/summarise_effects.py (AST -> effect summary)", "harness/props/c12.py (configuration sampling)"]


def _drain(ctx, procs):
    for k, n, p in procs:
        try:
            out, err = p.communicate(timeout=900)
        except subprocess.TimeoutExpired:
            p.kill()
            ctx.fail(k, dict(threads=n, config="first-call race"), "timeout (hang)", "concurrent first use neither fails nor hangs")
            continue
        ctx.case(("race", k, n), sample=dict(kernel=k, racing_threads=n))
        ctx.count("first-call races")
        try:
            res = json.loads(out.strip().split("\n")[-1])
        except Exception:  # noqa: BLE001
            ctx.fail(k, dict(threads=n, config="first-call race"), (err or out)[-300:], "concurrent first use neither fails nor changes results")
            continue
        if res["errors"] or not res["agree"]:
            ctx.fail(k, dict(threads=n, config="first-call race"), res, "concurrent first use neither fails nor changes results")


def search(ctx):
    ctx.quick = False
    run(ctx)
