"""C07  SPI equals the gamma-MLE / zero-mixture / normal-quantile definition."""
import numpy as np

from .. import core, spi

RULE = ("non-negative series of length 3..400 (quick 3..120), int16 and float64 (float32 to single-precision accuracy), gamma shapes 0.05..500, "
        "scales 0.1..1e4, share of zeros 0..0.89, ties, nodata placements, calibration sub-windows with >= 2 steps. Correspondence: compiled "
        "gammastd_yxt vs the Lean model at Float, bit level, with digamma / gammainc / ndtri answered by SciPy's Python-level ufuncs "
        "(interactive oracle; brentq is run by the model's own brentStep). Oracle: independent SciPy evaluation of the definition (root of "
        "log a - psi(a) = s by scipy.optimize.brentq on [1e-6,1e9]); |SPI| <= 7 judged, one unit tolerated at rounding ties. Non-trivial = "
        "distinct pixel inside the claim (p0 <= 0.9, >= 2 distinct positive values in the window).")
LEVEL_NOTE = ("gammastd_refines_spec (loop/counter model = declarative SpiSpec), gammafit_window, gammafit_scale_of_root, brentq bracketing invariants are proved "
              "for the Lean model with log, digamma, gammainc, ndtri and the root finder as parameters. NOT proved: that +-40% of Thom's estimate brackets "
              "the MLE root, and the accuracy of the special functions (real analysis): sampled against SciPy.")


def run(ctx: core.Ctx):
    rng = ctx.rng
    dlg = core.Dialogue()
    try:
        for k in range(ctx.budget(120, 1200)):
            n = rng.choice([3, 4, 5, 8, 12, 24, 36, 72, 120] + ([] if ctx.quick else [255, 400]))
            dt = rng.choice(["int16", "float64", "float64", "float32"])
            x = spi.rain_series(rng, n, dt)
            nd = -9999.0
            if rng.random() < 0.5:
                for i in rng.sample(range(n), rng.randint(0, max(0, n // 4))):
                    x[i] = nd
            if rng.random() < 0.2:   # ties
                x = np.where(x != nd, np.round(x, 0), x)
            if rng.random() < 0.5 or n < 4:
                cs, ce = 0, n
            else:
                cs = rng.randrange(0, n - 2)
                ce = rng.randrange(cs + 2, n + 1)
            xa = x.astype(dt)
            real = spi.real_spi(xa, nd, cs, ce)
            xf = xa.astype("float64")
            key = (xa.tobytes(), dt, cs, ce)
            inp = dict(x=[float(v) for v in xf] if n <= 40 else dict(n=n, head=[float(v) for v in xf[:12]]), dtype=dt, nodata=nd, cal=[cs, ce])
            ref, info = spi.scipy_spi(xf, nd, cs, ce)
            inside = ref is not None
            ctx.case(key, nontrivial=inside, sample=dict(n=n, dtype=dt, cal=[cs, ce], head=[float(v) for v in xf[:8]], spi=real[:8].tolist()))
            ctx.count(dt)
            ctx.count("inside claim" if inside else "outside claim")
            if dt != "float32":
                mod = spi.model_spi(dlg, xf, nd, cs, ce)
                if mod is not None and mod["nan_path"]:
                    ctx.count("NaN path: outside the model")
                elif mod is None or not np.array_equal(mod["cells"].astype(np.int64), real):
                    ctx.disagree("F", "gammastd_yxt", inp, None if mod is None else mod["cells"][:10].tolist(), real[:10].tolist())
            if not inside:
                continue
            judged = ~np.isnan(ref) & (np.abs(ref) <= 7000)
            if dt == "float32":
                # interval oracle: the float32 loop takes log(x) in single precision (error <= half an ulp of float32 at |log x| per term,
                # hence the same bound on their mean); s = log(mean) - mean(log) is known to +-eps only, and the index is evaluated at both ends
                eps = 0.75 * float(np.spacing(np.float32(max(info["maxlog"], 1e-3))))
                lo_r, _ = spi.scipy_spi(xf, nd, cs, ce, ds=-eps)
                hi_r, _ = spi.scipy_spi(xf, nd, cs, ce, ds=+eps)
                if lo_r is None or hi_r is None:
                    ctx.count("float32: s not resolved in single precision (out of claim)")
                    continue
                with np.errstate(all="ignore"):
                    spread = np.nanmax(np.abs(np.stack([lo_r - ref, hi_r - ref])), axis=0)
                tol = 0.5 + 1e-3 + 1.5 * np.nan_to_num(spread, nan=np.inf) + 1e-6 * np.abs(ref)
            else:
                tol = 0.5 + 1e-4 + 1e-7 * np.abs(ref)
            valid = (xf != nd) & (xf >= 0)
            if (real[valid] == nd).all() and valid.any():
                ctx.fail("gammastd_yxt", inp, "pixel returned as nodata", dict(alpha=info["alpha"], p0=info["p0"]),
                         note="a pixel inside the claim must be fitted (root of the MLE equation bracketed)")
                continue
            bad = judged & (np.abs(real - ref) > tol)
            if bad.any():
                i = int(np.argmax(bad))
                ctx.fail("gammastd_yxt", dict(inp, cell=i, value=float(xf[i])), int(real[i]), float(ref[i]),
                         note="SPI = round(1000 * ndtri(p0 + (1 - p0) * gammainc(alpha, x / beta))) with the gamma MLE of the positive window values")
            if (real[~valid] != nd).any():
                ctx.fail("gammastd_yxt", inp, real.tolist(), "nodata at nodata / negative cells")
        # grouped kernel, int16 and float32 input, low-variability groups (large shape): per group it must give exactly what the
        # ungrouped kernel gives on the group's sub-series (int16 -> float64 arithmetic in both)
        from hdc.algo.ops.stats import gammastd_grp
        for k in range(ctx.budget(12, 120)):
            ng = rng.choice([1, 2, 3, 6])
            per = rng.choice([12, 24, 36])
            n = ng * per
            groups = np.array([i % ng for i in range(n)], dtype="int16")
            level = rng.choice([300.0, 2000.0, 9000.0])
            cv = rng.choice([0.03, 0.05, 0.1, 0.5])
            vals = np.clip(np.round([rng.gauss(level, level * cv) for _ in range(n)]), 1, 32000)
            for dt in ("int16", "float32"):
                xg = vals.astype(dt)
                cal = np.array([[0, per]] * ng, dtype="int16")
                out = gammastd_grp(xg, groups, float(ng), -9999.0, cal).astype(np.int64)
                want = np.full(n, -9999, dtype=np.int64)
                for g in range(ng):
                    want[groups == g] = spi.real_spi(xg[groups == g], -9999.0, 0, per)
                ctx.case(("grp", xg.tobytes(), ng, dt), sample=dict(kernel="gammastd_grp", dtype=dt, groups=ng, level=level, cv=cv))
                ctx.count(f"grouped/{dt}")
                if not np.array_equal(out, want):
                    i = int(np.argmax(out != want))
                    ctx.fail("gammastd_grp", dict(x=xg.tolist(), groups=int(ng), dtype=dt, cell=i, value=float(xg[i])), int(out[i]), int(want[i]),
                             note="grouped SPI of a group = ungrouped SPI of its sub-series (same arithmetic precision for the same input dtype)")
        # accessor: the calibration window handed over as dates (strings or timestamps) on axes that are not stamped at midnight; a date
        # string is the instant 00:00 of that day, both ends inclusive - the fit must use exactly those steps
        import pandas as pd
        import xarray as xr
        import hdc.algo  # noqa: F401
        for k in range(ctx.budget(10, 60)):
            n = rng.choice([12, 18, 36])
            hour = rng.choice([0, 12, 6, 23])
            times = pd.date_range("2000-01-01", periods=n, freq="10D") + pd.Timedelta(hours=hour)
            x = np.clip(np.round(spi.rain_series(rng, n, "float64") + 1), 1, 30000).astype("int16")
            bi, ei = rng.randrange(0, n // 2), rng.randrange(n // 2 + 2, n)
            for style in ("string", "timestamp"):
                if style == "string":
                    begin, end = str(times[bi].date()), str(times[ei].date())
                else:
                    begin, end = times[bi], times[ei]
                tb, te = pd.Timestamp(begin), pd.Timestamp(end)
                idx = [i for i, t in enumerate(times) if tb <= t <= te]
                cs, ce = idx[0], idx[-1] + 1
                da = xr.DataArray(x.reshape(n, 1, 1), dims=("time", "y", "x"), coords={"time": times}, attrs={"nodata": -9999})
                try:
                    got = np.asarray(da.hdc.algo.spi(calibration_begin=begin, calibration_end=end).transpose("time", "y", "x")).reshape(-1).astype(np.int64)
                except Exception as e:  # noqa: BLE001
                    if ce - cs >= 2:
                        ctx.fail("spi accessor", dict(x=x.tolist(), hour=hour, begin=str(begin), end=str(end)), repr(e)[:160], "no exception")
                    continue
                ref, info = spi.scipy_spi(x.astype("float64"), -9999.0, cs, ce)
                ctx.case(("acc-window", x.tobytes(), hour, bi, ei, style), nontrivial=ref is not None, sample=dict(accessor="spi", hour=hour, begin=str(begin), end=str(end), window=[cs, ce]))
                ctx.count("accessor windows")
                if ref is None:
                    continue
                judged = ~np.isnan(ref) & (np.abs(ref) <= 7000)
                bad = judged & (np.abs(got - ref) > 0.5 + 1e-4 + 1e-7 * np.abs(ref))
                if bad.any():
                    i = int(np.argmax(bad))
                    ctx.fail("spi accessor", dict(x=x.tolist(), stamps_at_hour=hour, calibration_begin=str(begin), calibration_end=str(end), window=[cs, ce], cell=i),
                             int(got[i]), float(ref[i]), note="gamma fit on exactly the steps with begin <= t <= end (a date string is 00:00 of that day)")
        # grouped accessor against the definition: every group is fitted on ITS OWN steps inside the window (a window that does not start
        # at the beginning of a cycle cuts the groups at different positions)
        for k in range(ctx.budget(6, 40)):
            ng = rng.choice([2, 3, 4])
            n = ng * rng.choice([8, 10, 12]) + rng.choice([0, 1, 2])
            times = pd.date_range("2000-01-01", periods=n, freq="10D")
            x = np.clip(np.round(spi.rain_series(rng, n, "float64") + 1), 1, 30000).astype("int16")
            gids = [(i + rng.choice([0])) % ng for i in range(n)]
            bi = rng.randrange(1, ng + 2)
            ei = rng.randrange(n - ng - 2, n - 1)
            da = xr.DataArray(x.reshape(n, 1, 1), dims=("time", "y", "x"), coords={"time": times}, attrs={"nodata": -9999})
            try:
                got = np.asarray(da.hdc.algo.spi(groups=gids, calibration_begin=times[bi], calibration_end=times[ei]).transpose("time", "y", "x")).reshape(-1).astype(np.int64)
            except Exception as e:  # noqa: BLE001
                ctx.fail("spi accessor (groups)", dict(x=x.tolist(), groups=gids, begin=str(times[bi]), end=str(times[ei])), repr(e)[:160], "no exception")
                continue
            ctx.case(("acc-grp", x.tobytes(), ng, bi, ei), sample=dict(accessor="spi(groups)", groups=ng, begin=bi, end=ei))
            ctx.count("accessor, grouped windows")
            for g in range(ng):
                pos = [i for i in range(n) if gids[i] == g]
                inside = [j for j, i in enumerate(pos) if bi <= i <= ei]
                ref, _ = spi.scipy_spi(x[pos].astype("float64"), -9999.0, inside[0], inside[-1] + 1)
                if ref is None:
                    continue
                judged = ~np.isnan(ref) & (np.abs(ref) <= 7000)
                bad = judged & (np.abs(got[pos] - ref) > 0.5 + 1e-4 + 1e-7 * np.abs(ref))
                if bad.any():
                    j = int(np.argmax(bad))
                    ctx.fail("spi accessor (groups)", dict(x=x.tolist(), groups=gids, group=g, calibration_begin=str(times[bi]), calibration_end=str(times[ei]), window_of_group=[inside[0], inside[-1] + 1]),
                             int(got[pos][j]), float(ref[j]), note="per group: gamma fit on the group's own steps inside the calibration window")
                    break
    finally:
        ctx.notes["oracle_queries"] = dlg.queries
        dlg.close()
    core.acc_dispatch(ctx, ['linspace'])
    ctx.trusted += ["native model driver (Hdc/Model/Stats.lean at Float)", "SciPy special functions (digamma, gammainc, ndtri) as oracle for the model's parameters",
                    "harness/spi.py scipy_spi (independent evaluation of the definition)"]


def search(ctx):
    ctx.quick = False
    run(ctx)
