"""C03  Fixed-lambda smoothers return the rounded PLS / expectile curve."""
from fractions import Fraction

import numpy as np

from .. import core, gen, smooth

RULE = ("ws2dgu / ws2dpgu on structured series (lengths 4..72 for the exact side, to 400 at Float), lambda in 10^[-3,5], p in (0,1), data "
        "containing exact zeros, plus long series with extreme p and low-amplitude series (|y| <= 5) with stiff curves: compiled band vs (a) Lean model at Float bit for bit, (b) half-even rounding of the EXACT rational curve "
        "computed by the Lean model at Rat (the curve theorem gu_normal_eq / ws2d_normal_eq is about), one unit tolerated only where the exact "
        "curve is within 1e-6 of a half-integer; whits accessor with s, sg (incl. -inf cells), p, three dimension orders vs per-pixel kernel "
        "calls. Non-trivial = distinct (variant, series, mask, lambda, p) with >= 2 valid cells and lambda != 0.")
LEVEL_NOTE = ("gu: the band is the rounding of the unique PLS solution (theorems gu_normal_eq, gu_is_pls_minimiser, roundHalfEvenRat_spec); pgu: every "
              "re-weighting pass solves the weighted normal equations and an early stop is a fixed point of the expectile equations "
              "(expectile_normal_eq, expectile_fixed_point). Float rounding is not proved; it is sampled against the exact rational curve.")


def run(ctx: core.Ctx):
    import xarray as xr
    import hdc.algo  # noqa: F401

    rng = ctx.rng
    flines, qlines, refs = [], [], []
    for variant in ("gu", "pgu"):
        for k in range(ctx.budget(60, 500)):
            n = rng.choice([4, 5, 6, 8, 10, 16, 24, 36] + ([] if ctx.quick else [72]))
            kind = rng.choice([None, None, "rain", "sign", "smallint"])     # rain / sign / smallint contain exact zeros
            y, m, prm = smooth.make_case(rng, variant, n=n, kind=kind, min_ok=2)
            nd = gen.placeholder(rng, [v for v, ok in zip(y, m) if ok])
            # rational lambda / p that are exactly representable as floats where possible
            lam = prm["lam"]
            if rng.random() < 0.1:
                lam = 0.0
            lam = float(Fraction(lam).limit_denominator(1 << 20))
            prm["lam"] = lam
            if "p" in prm:
                prm["p"] = float(Fraction(prm["p"]).limit_denominator(64))
            arr = smooth.encode(y, m, nd)
            band, _ = smooth.call(variant, arr, nd, prm)
            flines.append(smooth.line(variant, arr, nd, prm))
            qprm = {k2: Fraction(v) for k2, v in prm.items()}
            qlines.append(smooth.line(variant, [Fraction(int(v)) for v in arr], Fraction(int(nd)), qprm, mode="Q"))
            refs.append((variant, y, m, nd, prm, arr, band))
            ctx.case((variant, tuple(arr), nd, lam, prm.get("p")), nontrivial=lam != 0 and sum(m) >= 2,
                     sample=dict(variant=variant, y=[int(v) for v in arr[:12]], nodata=nd, lam=lam, p=prm.get("p")))
            ctx.count(variant)
    # long series with extreme envelope values: the re-weighting is still moving after 10 passes (Float model only)
    xlines, xrefs = [], []
    for k in range(ctx.budget(12, 80)):
        n = rng.choice([72, 120, 200, 300])
        y, m, prm = smooth.make_case(rng, "pgu", n=n, kind=rng.choice(["ndvi", "walk", "sign"]), min_ok=2)
        prm["p"] = rng.choice([0.999, 0.9999, 0.99999, 0.001, 0.0001])
        prm["lam"] = rng.choice([1.0, 10.0, 100.0])
        nd = gen.placeholder(rng, [v for v, ok in zip(y, m) if ok])
        arr = smooth.encode(y, m, nd)
        band, _ = smooth.call("pgu", arr, nd, prm)
        xlines.append(smooth.line("pgu", arr, nd, prm))
        xrefs.append((arr, nd, prm, band))
        ctx.case(("pgu-extreme", tuple(arr), nd, prm["lam"], prm["p"]), sample=dict(variant="pgu", n=n, p=prm["p"], lam=prm["lam"]))
        ctx.count("pgu extreme p")
    # low-amplitude series (|y| <= 5) with a stiff curve: late passes move the curve by less than one unit, so the stop criterion
    # (no change of the curve at all) and the starting curve (zero) decide single cells of the band
    for k in range(ctx.budget(240, 2000)):
        n = rng.choice([5, 6, 8, 10, 12, 16])
        amp = rng.choice([1, 2, 3, 5])
        y = [rng.randint(-amp, amp) for _ in range(n)]
        m = [True] * n if k % 3 else gen.gaps(rng, n, min_valid=3)
        prm = dict(lam=float(rng.choice([10, 30, 100, 300, 1000, 10000])), p=rng.choice([0.1, 0.9, 0.05, 0.95, 0.3, 0.7]))
        nd = -3000
        arr = smooth.encode(y, m, nd)
        band, _ = smooth.call("pgu", arr, nd, prm)
        xlines.append(smooth.line("pgu", arr, nd, prm))
        xrefs.append((arr, nd, prm, band))
        ctx.case(("pgu-lowamp", tuple(arr), prm["lam"], prm["p"]), sample=dict(variant="pgu", y=[int(v) for v in arr], p=prm["p"], lam=prm["lam"]))
        ctx.count("pgu low amplitude")
    for (arr, nd, prm, band), a in zip(xrefs, ctx.driver.ask(xlines)):
        mm = smooth.parse_answer(a)
        if mm[0] == "curve" and smooth.in_int16(mm[1]) and not np.array_equal(np.array(mm[2]), band.astype(float)):
            ok, _ = smooth.band_matches(band, mm[1])
            if not ok:
                ctx.disagree("F", "pgu", dict(variant="pgu", y=[int(v) for v in arr], nodata=nd, params=prm), mm[2][:8], band[:8].tolist(),
                             note="asymmetric smoother: at most 10 re-weighting passes from the zero curve, then the fit with the last weights")
                ctx.fail("pgu", dict(y=[int(v) for v in arr], nodata=nd, params=prm), band.tolist(), [int(v) for v in mm[2]],
                         note="band differs from the curve reached by at most 10 re-weighting passes started from the zero curve (Lean model, bit-identical to the kernel on the unchanged tree)")
    fans = ctx.driver.ask(flines)
    qans = ctx.driver.ask(qlines, timeout=1800)
    tie_tol = 0
    for (variant, y, m, nd, prm, arr, band), fa, qa in zip(refs, fans, qans):
        inp = dict(variant=variant, y=[int(v) for v in arr], nodata=nd, params=prm)
        fm, qm = smooth.parse_answer(fa), smooth.parse_answer(qa, "Q")
        if fm[0] == "pass" or qm[0] == "pass":
            ctx.count("unchanged")
            if fm[0] != qm[0]:
                ctx.disagree("E/F", variant, inp, fa[:60], qa[:60])
            if not np.array_equal(band, arr.astype(np.int64)):
                ctx.fail(variant, inp, band.tolist(), arr.astype(int).tolist(), note="lambda = 0 (or < 2 valid): input returned unchanged")
            continue
        curve_q = [float(v) for v in qm[1]]
        if not smooth.in_int16(curve_q):
            ctx.count("out-of-claim(int16 range)")
            continue
        if not np.array_equal(np.array(fm[2]), band.astype(float)):
            ctx.disagree("F", variant, inp, fm[2][:8], band[:8].tolist())
        want = np.array([int(v) for v in qm[2]])
        if not np.array_equal(want, band):
            # exact curve vs float execution: tolerate only rounding ties of the exact curve
            frac = np.array([abs((v - (v.numerator // v.denominator)) - Fraction(1, 2)) for v in qm[1]], dtype=object)
            d = want != band
            tie = np.array([bool(f < Fraction(1, 10 ** 6)) for f in frac])
            if np.all(~d | ((np.abs(want - band) == 1) & tie)):
                tie_tol += 1
            elif variant == "pgu" and np.array_equal(np.array(fm[2]), band.astype(float)):
                # asymmetric: a float-vs-exact difference in a `y > z` decision changes the weights; not a property failure
                ctx.count("pgu float/exact branch divergence")
            else:
                ctx.fail(variant, inp, band.tolist(), want.tolist(), note="band must be the half-even rounding of the exact PLS / expectile curve")
    ctx.notes["rounding_ties_tolerated"] = tie_tol

    # a missing cell may be marked by the nodata value, NaN or +-inf (float cubes): the curve is that of the valid cells in each case
    for k in range(ctx.budget(24, 150)):
        n = rng.choice([8, 12, 24])
        y, m, prm = smooth.make_case(rng, "pgu", n=n, min_ok=3)
        if all(m):
            m[rng.randrange(1, n - 1)] = False
        for variant in ("gu", "pgu"):
            base = smooth.call(variant, smooth.encode(y, m, -3000), -3000.0, prm)[0]
            for bad, nm in ((float("nan"), "NaN"), (float("inf"), "+inf"), (float("-inf"), "-inf")):
                arr = np.array([float(v) if ok else bad for v, ok in zip(y, m)], dtype="float64")
                got = smooth.call(variant, arr, -3000.0, prm)[0]
                ctx.case(("gapcode", variant, tuple(y), tuple(m), nm), sample=dict(variant=variant, placeholder=nm))
                ctx.count("gap codings")
                if not np.array_equal(got, base):
                    ctx.fail(variant, dict(y=y, mask=[int(b) for b in m], params=prm, placeholder=nm), got.tolist(), base.tolist(),
                             note="unit weight on valid cells: cells marked NaN / inf are missing exactly like cells equal to nodata")

    from .. import strided
    strided.probe(ctx, "a non-contiguous view of an argument gives exactly the result of its contiguous copy (the kernel reads the cells it was given)", only=['ws2dgu', 'ws2dpgu'])
    from .. import accessor_args
    accessor_args.nodata_precedence(ctx, ['whits', 'whits_p'])
    # accessor: whits with s / sg / p and the three dimension orders
    from hdc.algo.ops import ws2dgu, ws2dpgu
    for k in range(ctx.budget(8, 60)):
        nt, ny, nx = rng.choice([6, 12, 36]), (3 if k == 0 else rng.choice([2, 3])), 3
        nd = -3000
        cube = np.zeros((nt, ny, nx), dtype="int16")
        for i in range(ny):
            for j in range(nx):
                yv = gen.series(rng, nt)
                mk = gen.gaps(rng, nt, min_valid=rng.choice([0, 2]))
                cube[:, i, j] = [v if ok and v != nd else nd for v, ok in zip(yv, mk)]
        t = np.arange(nt).astype("datetime64[D]")
        da = xr.DataArray(cube, dims=("time", "y", "x"), coords={"time": t})
        p = rng.choice([None, 0.9, 0.2])
        mode = "sg" if k % 2 == 0 else "s"
        if mode == "s":
            s = gen.lam(rng)
            lam_px = np.full((ny, nx), s)
            kw = dict(s=s)
        else:
            sgv = np.array([[rng.choice([-np.inf, -1.0, 0.5, 2.0, 3.3]) for _ in range(nx)] for _ in range(ny)])
            lam_px = 10 ** sgv
            sgd = xr.DataArray(sgv, dims=("y", "x"))
            form = ["xy", "yx", "float32"][(k // 2) % 3]
            if form == "xy":
                sgd = sgd.transpose("x", "y")          # named dims: must be matched by name, not by position
            elif form == "float32":
                sgd = sgd.astype("float32")
                lam_px = 10 ** sgd.values.astype("float32")
            kw = dict(sg=sgd)
        for order in (("time", "y", "x"), ("y", "x", "time"), ("y", "time", "x")):
            try:
                res = da.transpose(*order).hdc.whit.whits(nodata=nd, p=p, **kw)
                res = res.transpose("time", "y", "x")
            except Exception as e:  # noqa: BLE001
                ctx.fail("whits", dict(mode=mode, p=p, dims=order, sg_dims=(list(kw["sg"].dims) if "sg" in kw else None)), repr(e)[:200], "no exception")
                continue
            ctx.case(("whits", cube.tobytes(), mode, p, order), sample=dict(accessor="whits", mode=mode, p=p, dims=order))
            ctx.count("whits/" + mode)
            for i in range(ny):
                for j in range(nx):
                    yy = cube[:, i, j].astype("float64")
                    want = ws2dgu(yy, lam_px[i, j], float(nd)) if p is None else ws2dpgu(yy, lam_px[i, j], float(nd), p)
                    got = np.asarray(res)[:, i, j]
                    if not np.array_equal(got, want) or (lam_px[i, j] == 0 and not np.array_equal(got, cube[:, i, j])):
                        ctx.fail("whits", dict(series=cube[:, i, j].tolist(), lam=float(lam_px[i, j]), p=p, dims=order, mode=mode),
                                 got.tolist(), np.asarray(want).tolist(), note="accessor result per pixel = kernel result; lambda 0 returns the input")
            if res.dtype != np.int16:
                ctx.fail("whits", dict(dims=order), str(res.dtype), "int16")
    core.acc_dispatch(ctx, ['whits'])
    ctx.trusted += ["native model driver (Hdc/Model/Smooth.lean at Rat and Float)", "harness/props/c03.py oracle"]


def search(ctx):
    ctx.quick = False
    run(ctx)
