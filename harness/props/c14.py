"""C14  No kernel reads or writes outside its arrays on in-contract input."""
import json
import os
import subprocess
import sys
import types

import numpy as np

from .. import core

RULE = ("level E: the SOURCE of ws2d / tinterpolate / rolling_sum / do_mean / ws2doptv (py_func / __wrapped__) executed with index-logging arrays; the "
        "set of integer indices it evaluates per array must equal the Lean trace model (ws2dTrace n for n = 2..40, tinterp scatter / run traces, "
        "zonalTrace, rollingTrace, vcurveTrace) and every logged index must be within -len..len-1; level F: every compiled kernel in fresh "
        "subprocesses with NUMBA_BOUNDSCHECK=1 on boundary-sized inputs (minimum lengths, single pixel / group / zone, window == length, all "
        "missing, one valid, srange of 2) and random in-contract inputs: any IndexError is a violation; every gufunc is called twice on output "
        "buffers prefilled with different garbage: a cell that differs was never written. Non-trivial = distinct (kernel, shape).")
LEVEL_NOTE = ("ws2d_in_bounds / ws2d_all_written (every n >= 2, incl. the wrap-around reads at n = 2, 3), tinterp_*_in_bounds / _all_written, zonal_in_bounds, "
              "rolling_in_bounds, vcurve_in_bounds, smoothers_call_ws2d_in_contract are proved about the Lean index traces; the traces are tied to the source by the "
              "logged index sets and to the compiled code by the bounds-checked runs. Numba's own code generation is trusted.")

LOG = []


class LArr(np.ndarray):
    """1-d ndarray that logs every integer index used on it"""

    def __new__(cls, data, name):
        obj = np.asarray(data).view(cls)
        obj._name = name
        return obj

    def __array_finalize__(self, obj):
        self._name = getattr(obj, "_name", None)

    def _log(self, idx, write):
        if self.ndim == 1 and isinstance(idx, (int, np.integer)) and self._name:
            LOG.append((self._name, int(idx), self.shape[0], write))

    def __getitem__(self, idx):
        self._log(idx, False)
        r = super().__getitem__(idx)
        return r.view(np.ndarray) if isinstance(r, np.ndarray) else r

    def __setitem__(self, idx, val):
        self._log(idx, True)
        super().__setitem__(idx, val)

    def __iter__(self):
        return iter(np.asarray(self))       # `for tt in temp` iterates, it does not index

    def copy(self, *a, **k):
        r = np.asarray(self).copy().view(LArr)
        r._name = NAMES.pop(0) if NAMES else None
        return r


NAMES = []


def rebuild(f, extra):
    return types.FunctionType(f.__code__, {**f.__globals__, **extra}, f.__name__, f.__defaults__, f.__closure__)


def parse_trace(a):
    out = []
    body = a.split()[1][1:-1]
    for tok in body.split(","):
        if tok:
            arr, idx, ln, w = tok.split(":")
            out.append((arr, int(idx), int(ln), w == "1"))
    return out


def idxset(tr, arrays=None):
    s = {}
    for arr, idx, ln, w in tr:
        if arrays is None or arr in arrays:
            s.setdefault(arr, set()).add(idx)
    return s


def check_log(ctx, kernel, inp, log, model, arrays, superset_ok=()):
    bad = [(a, i, ln) for a, i, ln, w in log if not (-ln <= i < ln)]
    if bad:
        ctx.fail(kernel, inp, dict(out_of_bounds=bad[:5]), "every index within -len..len-1", note="the source indexed outside an array (negative-wrap semantics)")
    got, want = idxset(log, arrays), idxset(model, arrays)
    for arr in arrays:
        g, w = got.get(arr, set()), want.get(arr, set())
        if arr in superset_ok:
            ok = w <= g
        else:
            ok = g == w
        if not ok:
            ctx.disagree("E", kernel, dict(inp, array=arr), sorted(w)[:12], sorted(g)[:12], note="index set evaluated by the source vs Lean trace model")
            return


def run(ctx: core.Ctx):
    global NAMES
    from hdc.algo.ops import stats
    from hdc.algo.ops.tinterpolate import tinterpolate
    from hdc.algo.ops.ws2d import ws2d
    from hdc.algo.ops.ws2doptv import ws2doptv
    from hdc.algo.ops.zonal import do_mean

    rng = ctx.rng
    # ---- ws2d
    def lzeros(n, dtype=None):
        return LArr(np.zeros(n), "z")
    f = rebuild(ws2d.py_func, {"zeros": lzeros})
    ns = list(range(2, 41))
    ans = ctx.driver.ask([f"trace ws2d {n}" for n in ns])
    for n, a in zip(ns, ans):
        LOG.clear()
        NAMES = ["d", "c", "e"]
        y, w = LArr(np.arange(n, dtype="float64") + 1, "y"), LArr(np.ones(n), "w")
        try:
            with np.errstate(all="ignore"):
                f(y, 10.0, w)
        except IndexError as e:
            ctx.fail("ws2d", dict(n=n), repr(e), "no index outside the array bounds for n >= 2", note="the source itself raises IndexError under the interpreter")
            continue
        ctx.case(("ws2d", n), sample=dict(kernel="ws2d", n=n, accesses=len(LOG)))
        ctx.count("ws2d source traces")
        check_log(ctx, "ws2d", dict(n=n), list(LOG), parse_trace(a), ["y", "w", "z", "d", "c", "e"])
        written = {i % n for a_, i, ln, wr in LOG if a_ == "z" and wr}
        if written != set(range(n)):
            ctx.fail("ws2d", dict(n=n), sorted(written), "every output cell written")

    # ---- tinterpolate
    tw = tinterpolate.__wrapped__
    lines, refs = [], []
    for k in range(ctx.budget(40, 300)):
        nobs = rng.choice([1, 2, 3, 5, 9, 20])
        step = rng.choice([1, 2, 5, 10])
        ndays = max(4, (nobs - 1) * step + rng.randint(1, 6))
        tmpl = np.zeros(ndays)
        for i in range(nobs):
            tmpl[min(ndays - 1, i * step)] = 1
        nobs = int(tmpl.sum())
        per = rng.choice([1, 3, 10, ndays])
        labels = (np.arange(ndays) // per).astype("int32")
        nruns = int(1 + np.count_nonzero(np.diff(labels)))
        x = np.arange(nobs, dtype="int16") * 7 + 3
        LOG.clear()
        NAMES = ["temp", "w"]
        g = rebuild(tw, {"ws2d": lambda yy, l, ww: LArr(ws2d(np.asarray(yy, dtype="float64"), l, np.asarray(ww, dtype="float64")), "z")})
        out = LArr(np.zeros(nruns, dtype="int16"), "out")
        g(LArr(x, "x"), LArr(tmpl, None), LArr(labels, "labels"), np.zeros(nruns, dtype="u1"), out)
        log = list(LOG)
        inp = dict(nobs=nobs, days=ndays, period=per)
        ctx.case(("tinterp", nobs, ndays, per, step), sample=dict(kernel="tinterpolate", **inp))
        ctx.count("tinterpolate source traces")
        lines += [f"trace tscatter {nobs} {core.iarr(tmpl.astype(int))}", f"trace truns {core.iarr(labels)} {nruns}"]
        refs.append((inp, log, nruns))
    ans = ctx.driver.ask(lines)
    for i, (inp, log, nruns) in enumerate(refs):
        model = parse_trace(ans[2 * i]) + parse_trace(ans[2 * i + 1])
        check_log(ctx, "tinterpolate", inp, log, model, ["x", "temp", "labels", "z", "out"])
        if {i_ for a_, i_, ln, wr in log if a_ == "out" and wr} != set(range(nruns)):
            ctx.fail("tinterpolate", inp, "unwritten output cell", "every output element is written")

    # ---- rolling_sum
    rw = stats.rolling_sum.__wrapped__
    lines, refs = [], []
    for n in range(1, 12):
        for wdw in range(1, n + 1):
            LOG.clear()
            xx = LArr(np.arange(n, dtype="float32"), "xx")
            yy = LArr(np.zeros(n, dtype="float32"), "yy")
            rw(xx, wdw, -9999.0, yy)
            lines.append(f"trace rolling {n} {wdw}")
            refs.append((dict(n=n, window=wdw), list(LOG)))
            ctx.case(("rolling", n, wdw))
            ctx.count("rolling_sum source traces")
    for (inp, log), a in zip(refs, ctx.driver.ask(lines)):
        check_log(ctx, "rolling_sum", inp, log, parse_trace(a), ["xx", "yy"])

    # ---- do_mean
    dm = do_mean.__wrapped__
    lines, refs = [], []
    for k in range(ctx.budget(30, 200)):
        r, c, nz = rng.randint(1, 5), rng.randint(1, 5), rng.randint(1, 4)
        pix = np.array([rng.choice([-9999, rng.randint(0, 50)]) for _ in range(r * c)], dtype="int16").reshape(1, r, c)
        zones = np.array([rng.choice([255, rng.randrange(nz)]) for _ in range(r * c)], dtype="int64").reshape(r, c)
        LOG.clear()
        names = ["result", "sums", "counts"]

        class NP:
            nan = np.nan
            float32, float64, int64 = np.float32, np.float64, np.int64

            @staticmethod
            def zeros(shape, dtype=None):
                nm = names.pop(0)
                arr = np.zeros(shape, dtype=dtype)
                return LArr(arr, nm) if arr.ndim == 1 else arr
        rebuild(dm, {"np": NP})(pix, zones, nz, -9999, 255, np.float32)
        lines.append(f"trace zonal {core.iarr(pix.ravel())} {core.iarr(zones.ravel())} {nz} -9999 255")
        refs.append((dict(zones=zones.tolist(), num_zones=nz), [e for e in LOG if e[3]]))
        ctx.case(("zonal", pix.tobytes(), zones.tobytes(), nz))
        ctx.count("do_mean source traces")
    for (inp, log), a in zip(refs, ctx.driver.ask(lines)):
        check_log(ctx, "do_mean", inp, log, parse_trace(a), ["sums", "counts"])

    # ---- V-curve grid indexing (ws2doptv source)
    ov = ws2doptv.__wrapped__
    lines, refs = [], []
    for m_, nl in [(2, 2), (3, 2), (5, 2), (5, 3), (8, 6), (12, 16)]:
        LOG.clear()
        names = ["w", "fits", "pens", "z", "diff1", "lamids", "v"]

        class NP2:
            @staticmethod
            def zeros(shape, dtype=None):
                nm = names.pop(0) if names else None
                return LArr(np.zeros(shape), nm)

            @staticmethod
            def round(z, d, out):
                np.asarray(out)[...] = np.rint(np.asarray(z))
        y = np.arange(m_, dtype="float64") ** 2 + 1
        llas = LArr(np.arange(nl) * 0.5 - 1, "llas")
        out, lopt = np.zeros(m_), np.zeros(1)
        with np.errstate(all="ignore"):
            try:
                rebuild(ov, {"np": NP2})(y, -3000.0, llas, out, lopt)
            except (ValueError, ZeroDivisionError):
                pass        # math.log(0) raises in the interpreter (exact fit); indices up to that point are still compared as a subset
        lines.append(f"trace vcurve {m_} {nl}")
        refs.append((dict(m=m_, nl=nl), list(LOG)))
        ctx.case(("vcurve", m_, nl))
        ctx.count("ws2doptv source traces")
    for (inp, log), a in zip(refs, ctx.driver.ask(lines)):
        bad = [(a_, i, ln) for a_, i, ln, w in log if not (-ln <= i < ln)]
        if bad:
            ctx.fail("ws2doptv", inp, dict(out_of_bounds=bad[:5]), "every index within bounds")
        model = idxset(parse_trace(a))
        got = idxset(log)
        for arr in ("llas", "fits", "pens", "v", "lamids", "diff1"):
            if arr in got and not got[arr] <= model.get(arr, set()):
                ctx.disagree("E", "ws2doptv", dict(inp, array=arr), sorted(model.get(arr, set())), sorted(got[arr]))

    # ---- level F: bounds-checked compiled kernels in fresh subprocesses
    env = dict(os.environ, NUMBA_BOUNDSCHECK="1", NUMBA_NUM_THREADS="2", NUMBA_DISABLE_PERFORMANCE_WARNINGS="1")
    worker = str(core.ROOT / "harness" / "boundscheck_worker.py")
    groups = ["smooth1", "smooth2", "smooth3", "stats", "raster"]
    procs = [(g, subprocess.Popen([sys.executable, worker, g, str(ctx.seed), str(ctx.budget(6, 60))], stdout=subprocess.PIPE, stderr=subprocess.PIPE, text=True, env=env, cwd=str(core.ROOT)))
             for g in groups]
    for g, p in procs:
        try:
            out, err = p.communicate(timeout=1700)
        except subprocess.TimeoutExpired:
            p.kill()
            raise core.Infra(f"boundscheck worker {g} timed out")
        try:
            res = json.loads(out.strip().split("\n")[-1])
        except Exception:  # noqa: BLE001
            raise core.Infra(f"boundscheck worker {g} failed: {(err or out)[-600:]}")
        ctx.evaluations += res["cases"]
        ctx.count(f"boundscheck/{g}", res["cases"])
        ctx.nontrivial.update(hash((g, i)) for i in range(res["cases"]))
        for fl in res["failures"]:
            ctx.fail(fl["kernel"], fl["input"], fl["error"], "no index outside the array bounds (NUMBA_BOUNDSCHECK=1)")
        for u in res["unwritten"]:
            ctx.fail(u["kernel"], u["input"], dict(first=u["first"], second=u["second"]), "every output element is written (repeated calls on fresh buffers agree)")
    ctx.samples.append(dict(level="F", groups=groups, env="NUMBA_BOUNDSCHECK=1"))

    from .. import strided
    strided.probe(ctx, "a kernel given a non-contiguous view must not read the cells between / beside the view's elements (memory outside its argument)")
    # ---- whole-cube kernels: repeated calls on the same in-contract cube agree with each other and with one call per image row
    # (a scratch array shared between rows / iterations, or an element left unwritten, shows as a difference)
    from hdc.algo.ops.autocorr import autocorr_tyx
    from hdc.algo.ops.stats import mann_kendall_trend_yxt
    from hdc.algo.ops.ws2doptvplc import ws2doptvplc_tyx
    nt, ny, nx = 24, 64, 24
    tt = np.arange(nt)[:, None, None]
    cube = (3000 + 2000 * np.sin(2 * np.pi * (tt / 12.0 + np.arange(ny)[None, :, None] / 7.0)) + np.array(
        [[[rng.randint(-600, 600) for _ in range(nx)] for _ in range(ny)] for _ in range(nt)])).astype("int16")
    for _ in range(nt * ny * nx // 10):
        cube[rng.randrange(nt), rng.randrange(ny), rng.randrange(nx)] = -3000
    yxt = np.ascontiguousarray(np.moveaxis(cube, 0, -1)).astype("float64")
    whole = {
        "ws2doptvplc_tyx": (lambda c: ws2doptvplc_tyx(c, 0.9, -3000), cube, 1),
        "autocorr_tyx": (lambda c: (autocorr_tyx(c, -3000),), cube, 1),
        "mann_kendall_trend_yxt": (lambda c: (mann_kendall_trend_yxt(c),), yxt, 0),
    }
    for name, (fn, arr, rowaxis) in whole.items():
        def rows(a):
            return [np.take(a, [r], axis=rowaxis) for r in range(ny)]
        ref = [fn(np.ascontiguousarray(r)) for r in rows(arr)]
        ref = [np.concatenate([np.asarray(x[k]) for x in ref], axis=(rowaxis if np.asarray(ref[0][k]).ndim == arr.ndim else 0)) for k in range(len(ref[0]))]
        for rep in range(ctx.budget(4, 16)):
            got = fn(arr)
            ctx.case(("whole-cube", name, rep), sample=dict(kernel=name, shape=list(arr.shape), call=rep))
            ctx.count("whole-cube repeated calls")
            bad = [k for k in range(len(ref)) if not np.array_equal(np.asarray(got[k]), ref[k], equal_nan=True)]
            if bad:
                k = bad[0]
                d = np.argwhere(~((np.asarray(got[k]) == ref[k]) | (np.isnan(np.asarray(got[k], dtype="float64")) & np.isnan(ref[k].astype("float64")))))
                ctx.fail(name, dict(shape=list(arr.shape), call=rep, output=k, cells_differing=int(len(d)), first=[int(v) for v in d[0]]),
                         "differs from the row-by-row result", "repeated calls deterministic; a pixel's result does not depend on the other rows in the call")
                break
    ctx.trusted += ["native model driver (Hdc/Model/Bounds.lean traces)", "harness index-logging ndarray", "Numba's NUMBA_BOUNDSCHECK instrumentation"]


def search(ctx):
    ctx.quick = False
    run(ctx)
