"""C04  V-curve selection is optimal on the grid and self-consistent."""
import math

import numpy as np

from .. import core, gen, smooth

RULE = ("ws2doptv / ws2doptvp / ws2doptvplc (gufunc and _tyx) on structured series with >= 2 valid cells, uniformly spaced ascending sranges "
        "(3..40 entries, lambda within 1e-4..1e8), p in (0,1) or none, lc in [-1,1] or NaN. Correspondence: compiled kernel vs Lean model at "
        "Float (band, lambda, bit level). Oracle on the real code: reported lambda is a log10-midpoint of consecutive grid entries; the "
        "V-curve recomputed from the real compiled ws2d core is minimal there up to a measured margin (1e-9 of the curve's spread); band == "
        "real ws2dgu / ws2dpgu at the reported lambda; sgrid == float32(log10 lambda); lc grids. Non-trivial = distinct (variant, series, "
        "mask, grid, p) with a non-constant V-curve.")
LEVEL_NOTE = ("argminFirst_spec / vselect_midpoint: the model selects the first strict minimum of the V-curve and reports the log10-midpoint; "
              "optv_self_consistent / optvp_self_consistent: the returned curve is the fixed-lambda (asymmetric) smoother's curve at the reported "
              "lambda (the warm start of the sweep does not leak). log/sqrt/pow are parameters of the model; floating-point ties are outside the theorems "
              "and handled by the measured margin.")


def vcurve_sym(y, w, sr):
    from hdc.algo.ops.ws2d import ws2d
    fits, pens = [], []
    for l in sr:
        z = ws2d(y, 10.0 ** l, w)
        fits.append(np.log(np.sum((w * (y - z)) ** 2)))
        pens.append(np.log(np.sum(np.diff(z, 2) ** 2)))
    return _v(fits, pens, sr)


def _v(fits, pens, sr):
    fits, pens = np.array(fits), np.array(pens)
    step = sr[1] - sr[0]
    with np.errstate(all="ignore"):
        return np.sqrt(np.diff(fits) ** 2 + np.diff(pens) ** 2) / (math.log(10) * step)


def vcurve_asym(y, w, p, sr):
    from hdc.algo.ops.ws2d import ws2d
    z = np.zeros_like(y)
    fits, pens = [], []
    for l in sr:
        lam = 10.0 ** l
        for _ in range(10):
            ww = w * np.where(y > z, p, 1 - p)
            zn = ws2d(y, lam, ww)
            if np.sum(np.abs(zn - z)) == 0.0:
                break
            z = zn
        with np.errstate(all="ignore"):
            fits.append(np.log(np.sum((w * (y - z)) ** 2)))
            pens.append(np.log(np.sum(np.diff(z, 2) ** 2)))
    return _v(fits, pens, sr)


def check_selection(ctx, variant, inp, y, w, p, sr, lopt):
    sr = np.asarray(sr, dtype="float64")
    mids = 10.0 ** ((sr[:-1] + sr[1:]) / 2)
    k = int(np.argmin(np.abs(np.log10(mids) - math.log10(lopt)))) if lopt > 0 else -1
    if k < 0 or not abs(mids[k] - lopt) <= 1e-12 * lopt:
        ctx.fail(variant, inp, dict(lopt=lopt), dict(midpoints=mids.tolist()), note="reported lambda must be the log10-midpoint of two consecutive srange entries")
        return
    with np.errstate(all="ignore"):
        v = vcurve_sym(y, w, sr) if p is None else vcurve_asym(y, w, p, sr)
    fin = np.isfinite(v)
    if not fin.all() or len(v) < 2:
        ctx.count("vcurve has non-finite entries (log 0): minimality not judged")
        return
    spread = float(v.max() - v.min())
    margin = 1e-9 * max(spread, abs(float(v.min()))) + 1e-300
    ctx.count("vcurve judged")
    if not v[k] <= v.min() + margin:
        ctx.fail(variant, inp, dict(lopt=lopt, k=k, v_k=float(v[k])), dict(v_min=float(v.min()), argmin=int(np.argmin(v)), margin=margin),
                 note="reported lambda must minimise the V-curve on the grid up to floating-point ties")


def run(ctx: core.Ctx):
    import xarray as xr
    import hdc.algo  # noqa: F401
    from hdc.algo import ops
    from hdc.algo.ops.autocorr import autocorr_1d

    rng = ctx.rng
    lines, refs = [], []
    # corpus first: selection-sensitive series (two nearly equal lowest V-curve values)
    import json
    corpus = json.loads((core.ROOT / "corpus" / "selection_sensitive.json").read_text())
    for variant in ("optv", "optvp"):
        for c in corpus[variant]:
            nd = -3000.0
            arr = smooth.encode(c["y"], [bool(b) for b in c["mask"]], nd)
            prm = dict(sr=c["sr"]) if variant == "optv" else dict(sr=c["sr"], p=c["p"])
            band, lopt = smooth.call(variant, arr, nd, prm)
            lines.append(smooth.line(variant, arr, nd, prm))
            refs.append((variant, arr, nd, prm, band, lopt, [bool(b) for b in c["mask"]]))
            ctx.case(("corpus", variant, tuple(c["y"])), sample=None)
            ctx.count("corpus/" + variant)
    for variant in ("optv", "optvp", "optvplc"):
        for k in range(ctx.budget(40, 400)):
            n = rng.choice([5, 6, 8, 10, 16, 24, 36, 36] + ([] if ctx.quick else [72, 144, 200]))
            y, m, prm = smooth.make_case(rng, variant, n=n, min_ok=2)
            if variant == "optvplc" and rng.random() < 0.15:
                prm["lc"] = float("nan")
            nd = gen.placeholder(rng, [v for v, ok in zip(y, m) if ok])
            arr = smooth.encode(y, m, nd)
            band, lopt = smooth.call(variant, arr, nd, prm)
            lines.append(smooth.line(variant, arr, nd, prm))
            refs.append((variant, arr, nd, prm, band, lopt, m))
            ctx.case((variant, tuple(arr), nd, str(prm)), nontrivial=len(set(arr)) > 2,
                     sample=dict(variant=variant, y=[int(v) for v in arr[:10]], nodata=nd, params={a: (b if not isinstance(b, list) else [b[0], b[-1], len(b)]) for a, b in prm.items()}))
            ctx.count(variant)
    # recorded known finding, replayed on every run: lc = NaN in the gufunc
    arr = np.array([10, 21, 16, 9, 3, 2, 5, 13, 12, 12], dtype="float64")
    prm = dict(p=0.9, lc=float("nan"))
    band, lopt = smooth.call("optvplc", arr, 0.0, prm)
    lines.append(smooth.line("optvplc", arr, 0.0, prm))
    refs.append(("optvplc", arr, 0.0, prm, band, lopt, [bool(v != 0) for v in arr]))
    for (variant, arr, nd, prm, band, lopt, m), a in zip(refs, ctx.driver.ask(lines)):
        inp = dict(variant=variant, y=[int(v) for v in arr], nodata=nd, params=prm)
        model = smooth.parse_answer(a)
        p = prm.get("p")
        w = np.array([1.0 if ok else 0.0 for ok in m])
        if model[0] != "curve":
            ctx.disagree("F", variant, inp, a[:40], dict(lopt=lopt))
            continue
        if not smooth.in_int16(model[1]):
            ctx.count("out-of-claim(int16 range)")
            continue
        if variant == "optvplc" and prm["lc"] != prm["lc"]:
            # property: "0..3.0 elsewhere" (NaN included); the gufunc uses a third grid -1..1 (recorded finding)
            b2, l2 = ops.ws2doptvp(arr, float(nd), p, smooth.GRID_LO)
            if lopt != float(l2) or not np.array_equal(band, np.asarray(b2)):
                ctx.fail("ws2doptvplc", dict(inp, lc="nan"), dict(lopt=lopt), dict(lopt=float(l2), grid="0..3.0 step 0.2"),
                         signature="ws2doptvplc:lc=nan", note="lag-1 correlation NaN must use the 0..3.0 grid ('elsewhere')")
        if not np.array_equal(np.array(model[2]), band.astype(float)) or model[3] != lopt:
            ctx.disagree("F", variant, inp, dict(band=model[2][:8], lopt=model[3]), dict(band=band[:8].tolist(), lopt=lopt))
        # oracle
        if variant == "optvplc":
            lc = prm["lc"]
            if lc == lc:
                grid = smooth.GRID_HI if lc > 0.5 else smooth.GRID_LO
                b2, l2 = ops.ws2doptvp(arr, float(nd), p, grid)
                if lopt != float(l2) or not np.array_equal(band, np.asarray(b2)):
                    ctx.fail("ws2doptvplc", inp, dict(lopt=lopt, band=band.tolist()), dict(lopt=float(l2), band=np.asarray(b2).tolist()),
                             note="grid -2..1.0 where lc > 0.5, 0..3.0 elsewhere")
                sr = grid
            else:
                sr = smooth.GRID_NAN
        else:
            sr = prm["sr"]
        ycl = np.where(w > 0, arr, 0.0)
        check_selection(ctx, variant, inp, arr, w, p, sr, lopt)
        fixed = ops.ws2dgu(arr, lopt, float(nd)) if p is None else ops.ws2dpgu(arr, lopt, float(nd), p)
        if not np.array_equal(np.asarray(fixed), band):
            ctx.fail(variant, inp, band.tolist(), np.asarray(fixed).tolist(), note="band must equal the fixed-lambda smoother at the reported lambda")
        del ycl

    from .. import strided
    strided.probe(ctx, "a non-contiguous view of an argument gives exactly the result of its contiguous copy (the kernel reads the cells it was given)", only=['ws2doptv', 'ws2doptvp', 'ws2doptvplc'])
    from .. import accessor_args
    accessor_args.nodata_precedence(ctx, ['whitsvc', 'whitsvc_p'])
    # _tyx variant and the accessor (sgrid float32 = log10 lopt; naming)
    for k in range(ctx.budget(4, 30)):
        nt, ny, nx = rng.choice([8, 12, 36]), 2, 2
        nd = -3000
        cube = np.zeros((nt, ny, nx), dtype="int16")
        for i in range(ny):
            for j in range(nx):
                yv = gen.series(rng, nt)
                mk = gen.gaps(rng, nt, min_valid=rng.choice([0, 2, 2]))
                cube[:, i, j] = [v if ok and v != nd else nd for v, ok in zip(yv, mk)]
        p = rng.choice([0.9, 0.5, 0.1])
        from hdc.algo.ops.ws2doptvplc import ws2doptvplc_tyx
        zz, lopts = ws2doptvplc_tyx(cube, p, nd)
        for i in range(ny):
            for j in range(nx):
                yy = cube[:, i, j]
                ctx.case(("tyx", yy.tobytes(), p))
                ctx.count("optvplc_tyx")
                if (yy != nd).sum() > 1:
                    lc = autocorr_1d(yy, nd)
                    grid = smooth.GRID_HI if lc > 0.5 else smooth.GRID_LO
                    b2, l2 = ops.ws2doptvp(yy.astype("float64"), float(nd), p, grid)
                    if lopts[i, j] != float(l2) or not np.array_equal(zz[:, i, j], np.asarray(b2)):
                        ctx.fail("ws2doptvplc_tyx", dict(y=yy.tolist(), p=p, lc=float(lc)), dict(lopt=float(lopts[i, j]), band=zz[:, i, j].tolist()),
                                 dict(lopt=float(l2), band=np.asarray(b2).tolist()))
        t = np.arange(nt).astype("datetime64[D]")
        da = xr.DataArray(cube, dims=("time", "y", "x"), coords={"time": t})
        # lag-1 correlation raster given by the user: float64 values around the 0.5 threshold decide the grid
        lcv = np.array([[np.nextafter(0.5, 1), 0.5], [0.50000002, rng.choice([0.9, -0.3, 0.4999999])]])
        # the raster is matched to the pixels by dimension NAME: given as (y, x) or (x, y), to a cube in either spatial order
        lcd = xr.DataArray(lcv, dims=("y", "x"))
        form = ["yx", "xy", "cube-xy", "yx"][k % 4]
        try:
            if form == "xy":
                dsl = da.hdc.whit.whitsvc(nodata=nd, lc=lcd.transpose("x", "y"), p=p)
            elif form == "cube-xy":
                dsl = da.transpose("time", "x", "y").hdc.whit.whitsvc(nodata=nd, lc=lcd, p=p)
            else:
                dsl = da.hdc.whit.whitsvc(nodata=nd, lc=lcd, p=p)
            dsl = dsl.transpose(..., "y", "x")
        except Exception as e:  # noqa: BLE001
            ctx.fail("whitsvc(lc=...)", dict(form=form, p=p), repr(e)[:200], "no exception")
            continue
        ctx.count("whitsvc lc form " + form)
        # a raster that is given decides the grid, whatever else is passed along with it
        if k % 2 == 0:
            try:
                both = da.hdc.whit.whitsvc(nodata=nd, lc=lcd, srange=np.arange(-2.0, 4.0, 0.4), p=p).transpose(..., "y", "x")
                plain = da.hdc.whit.whitsvc(nodata=nd, lc=lcd, p=p).transpose(..., "y", "x")
                ctx.case(("whitsvc-lc+srange", cube.tobytes(), p))
                ctx.count("whitsvc lc and srange together")
                if not (np.array_equal(both["band"].values, plain["band"].values) and np.array_equal(both["sgrid"].values, plain["sgrid"].values, equal_nan=True)):
                    ctx.fail("whitsvc(lc=..., srange=...)", dict(p=p, lc=lcv.tolist()), dict(sgrid=both["sgrid"].values.tolist()), dict(sgrid=plain["sgrid"].values.tolist()),
                             note="when an autocorrelation raster is given the grid is -2..1.0 where lc > 0.5 and 0..3.0 elsewhere")
            except Exception as e:  # noqa: BLE001
                ctx.fail("whitsvc(lc=..., srange=...)", dict(p=p), repr(e)[:200], "no exception")
        for i in range(ny):
            for j in range(nx):
                yy = cube[:, i, j].astype("float64")
                grid = smooth.GRID_HI if lcv[i, j] > 0.5 else smooth.GRID_LO
                b2, l2 = ops.ws2doptvp(yy, float(nd), p, grid)
                with np.errstate(all="ignore"):
                    sg = np.float32(np.log10(l2))
                got_sg = dsl["sgrid"].values[i, j]
                ctx.case(("whitsvc-lc", yy.tobytes(), float(lcv[i, j]), p))
                ctx.count("whitsvc lc raster")
                if not (np.array_equal(dsl["band"].transpose("time", ...).values[:, i, j], np.asarray(b2)) and ((got_sg == sg) or (np.isnan(got_sg) and np.isnan(sg)))):
                    ctx.fail("whitsvc(lc=...)", dict(y=yy.tolist(), lc=float(lcv[i, j]), p=p), dict(sgrid=float(got_sg)), dict(sgrid=float(sg), grid="-2..1.0" if lcv[i, j] > 0.5 else "0..3.0"),
                             note="grid -2..1.0 where the lag-1 correlation exceeds 0.5 (as given, in float64), 0..3.0 elsewhere")
        sr = np.array(gen.srange(rng))
        if len(sr) < 3:
            sr = np.arange(-1, 1.5, 0.5)
        for pp in (None, p):
            ds = da.hdc.whit.whitsvc(nodata=nd, srange=sr, p=pp)
            ctx.case(("whitsvc", cube.tobytes(), pp, sr.tobytes()), sample=dict(accessor="whitsvc", p=pp, srange=[float(sr[0]), float(sr[-1]), len(sr)]))
            ctx.count("whitsvc")
            for i in range(ny):
                for j in range(nx):
                    yy = cube[:, i, j].astype("float64")
                    b2, l2 = (ops.ws2doptv(yy, float(nd), sr) if pp is None else ops.ws2doptvp(yy, float(nd), pp, sr))
                    with np.errstate(all="ignore"):
                        sg = np.float32(np.log10(l2))
                    got_sg = ds["sgrid"].values[i, j]
                    okb = np.array_equal(ds["band"].transpose("time", ...).values[:, i, j], np.asarray(b2))
                    oks = (got_sg == sg) or (np.isnan(got_sg) and np.isnan(sg))
                    if not (okb and oks and ds["sgrid"].dtype == np.float32):
                        ctx.fail("whitsvc", dict(y=yy.tolist(), p=pp, srange=sr.tolist()), dict(sgrid=float(got_sg)), dict(sgrid=float(sg)),
                                 note="sgrid = float32(log10(lopt)); band = kernel band")
    core.acc_dispatch(ctx, ['whitsvc'])
    ctx.trusted += ["native model driver (Hdc/Model/Smooth.lean at Float)", "harness/props/c04.py oracle (V-curve recomputed with the compiled ws2d core)"]


def search(ctx):
    ctx.quick = False
    run(ctx)
