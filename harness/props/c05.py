"""C05  GCV selection is optimal on the grid; robust mode never degenerates."""
import math

import numpy as np

from .. import core, gen, smooth

RULE = ("ws2dwcv / ws2dwcvp, robust False and True, on structured series with >= 5 valid cells and sranges of 2..40 entries (lambda within "
        "1e-4..1e8). Correspondence: compiled kernel vs Lean model at Float (band, lambda; bit level). Oracle on the real code: lambda in "
        "10**srange; non-robust: GCV score recomputed with the compiled ws2d core is minimal there up to a measured margin and band == real "
        "ws2dgu / ws2dpgu at that lambda; robust: band finite and non-zero on the constant / exactly linear / flat-with-spikes / more-than-half-"
        "equal-residual families, independent of the placeholder; whitswcv accessor defaults. Non-trivial = distinct (variant, series, mask, "
        "grid, p, robust).")
LEVEL_NOTE = ("gcvSweep_spec: first minimum of the score over the grid; wcv_self_consistent: curve = fixed-lambda curve at the reported lambda; "
              "wcv_sameObs: robust and non-robust results depend on valid cells only; robustStep_range: robust weights lie in [0,1] and vanish on "
              "missing cells; robustStep_mad_zero: a zero MAD keeps the weights. That at least two cells keep positive robust weight when MAD > 0 "
              "is not proved (sampled: the oracle demands a finite, non-degenerate band).")


def gcv_scores(y, w, sr):
    from hdc.algo.ops.ws2d import ws2d
    m = len(y)
    de = -2 + 2 * np.cos(np.arange(m) * np.pi / m)
    de[0] = 1e-15
    out = []
    for l in sr:
        s = 10.0 ** l
        z = ws2d(y, s, w)
        gamma = w / (w + s * ((-1 * de) ** 2))
        trh = gamma.sum()
        wsse = (((w ** 0.5) * (y - z)) ** 2).sum()
        out.append(wsse / (w.sum() * (1 - trh / w.sum()) ** 2))
    return np.array(out)


FAMILIES = ("const", "linear", "spikes", "halfequal")


def family_series(rng, fam, n):
    if fam == "const":
        return [rng.choice([512, 0, 7, -300, 9000])] * n
    if fam == "linear":
        a, b = rng.randint(-2000, 2000), rng.choice([-9, -1, 1, 8, 25])
        return [a + b * i for i in range(n)]
    if fam == "spikes":
        base = rng.randint(100, 5000)
        y = [base] * n
        for _ in range(max(1, n // 8)):
            y[rng.randrange(n)] = base + rng.choice([-1, 1]) * rng.randint(200, 3000)
        return y
    base = rng.randint(100, 3000)          # more than half of the cells equal, the rest noisy
    return [base if (i % 5) < 3 else base + rng.randint(-400, 400) for i in range(n)]


def run(ctx: core.Ctx):
    import xarray as xr
    import hdc.algo  # noqa: F401
    from hdc.algo import ops

    rng = ctx.rng
    lines, refs = [], []
    import json
    corpus = json.loads((core.ROOT / "corpus" / "selection_sensitive.json").read_text())
    for variant in ("wcv", "wcvp"):
        for c in corpus["wcv"]:
            nd = -3000.0
            m = [bool(b) for b in c["mask"]]
            arr = smooth.encode(c["y"], m, nd)
            prm = dict(sr=c["sr"]) if variant == "wcv" else dict(sr=c["sr"], p=c["p"])
            band, lopt = smooth.call(variant, arr, nd, prm)
            lines.append(smooth.line(variant, arr, nd, prm))
            refs.append((variant, arr, nd, prm, band, lopt, m, None))
            ctx.case(("corpus", variant, tuple(c["y"])), sample=None)
            ctx.count("corpus/" + variant)
    for variant in ("wcv", "wcvp", "wcvr", "wcvpr"):
        for k in range(ctx.budget(36, 360)):
            n = rng.choice([5, 6, 8, 10, 16, 24, 36] + ([] if ctx.quick else [72, 144, 200]))
            fam = rng.choice([None, None, None] + list(FAMILIES))
            y, m, prm = smooth.make_case(rng, variant, n=n, min_ok=5)
            if fam:
                y = family_series(rng, fam, n)
            elif variant.endswith("r") and rng.random() < 0.5:
                y = [v + rng.randint(-30, 30) - (rng.randint(500, 3000) if rng.random() < 0.12 else 0) for v in y]   # downward spikes
            nd = gen.placeholder(rng, [v for v, ok in zip(y, m) if ok])
            arr = smooth.encode(y, m, nd)
            band, lopt = smooth.call(variant, arr, nd, prm)
            lines.append(smooth.line(variant, arr, nd, prm))
            refs.append((variant, arr, nd, prm, band, lopt, m, fam))
            ctx.case((variant, tuple(arr), nd, str(prm)), sample=dict(variant=variant, family=fam or "mixed", y=[int(v) for v in arr[:10]], nodata=nd,
                                                                    params={a: (b if not isinstance(b, list) else [b[0], b[-1], len(b)]) for a, b in prm.items()}))
            ctx.count(variant)
            if fam:
                ctx.count("family:" + fam)
    for (variant, arr, nd, prm, band, lopt, m, fam), a in zip(refs, ctx.driver.ask(lines)):
        inp = dict(variant=variant, y=[int(v) for v in arr], nodata=nd, params=prm, family=fam)
        robust = variant.endswith("r")
        p = prm.get("p")
        model = smooth.parse_answer(a)
        w = np.array([1.0 if ok else 0.0 for ok in m])
        if model[0] != "curve":
            ctx.disagree("F", variant, inp, a[:40], dict(lopt=lopt))
            continue
        if not smooth.in_int16(model[1]):
            ctx.count("out-of-claim(int16 range)")
            continue
        if not np.array_equal(np.array(model[2]), band.astype(float)) or model[3] != lopt:
            ctx.disagree("F", variant, inp, dict(band=model[2][:8], lopt=model[3]), dict(band=band[:8].tolist(), lopt=lopt))
        sr = np.asarray(prm["sr"], dtype="float64")
        grid = 10 ** sr
        k = int(np.argmin(np.abs(grid - lopt)))
        if not abs(grid[k] - lopt) <= 1e-12 * abs(lopt):
            ctx.fail(variant, inp, dict(lopt=lopt), dict(grid=grid.tolist()), note="reported lambda must be drawn from 10**srange")
            continue
        ycl = np.where(w > 0, arr, 0.0)
        if not robust:
            sc = gcv_scores(ycl, w, sr)
            if np.all(np.isfinite(sc)):
                margin = 1e-9 * max(float(sc.max() - sc.min()), abs(float(sc.min()))) + 1e-300
                ctx.count("gcv judged")
                if not sc[k] <= sc.min() + margin:
                    ctx.fail(variant, inp, dict(lopt=lopt, score=float(sc[k])), dict(min_score=float(sc.min()), argmin=float(grid[int(np.argmin(sc))])),
                             note="non-robust: reported lambda minimises the GCV score on the grid up to floating-point ties")
            fixed = ops.ws2dgu(arr, lopt, float(nd)) if p is None else ops.ws2dpgu(arr, lopt, float(nd), p)
            if not np.array_equal(np.asarray(fixed), band):
                ctx.fail(variant, inp, band.tolist(), np.asarray(fixed).tolist(), note="band must equal the fixed-lambda smoother at the reported lambda")
        else:
            valid_vals = arr[w > 0]
            # "zeroed" = the degenerate outcome (NaN weights -> a curve of NaN stored as zeros).  A low-amplitude series (valid cells
            # within +-3, say) can legitimately round to zero everywhere: only amplitudes for which no PLS curve through the valid cells
            # rounds to zero at every cell are judged (the mean of the valid cells, which every Whittaker curve of weights in [0,1]
            # brackets with its extremes, is at least 1 away from 0 on both ... conservatively: the valid cells do not straddle 0)
            zeroed = np.all(band == 0) and (valid_vals.min() >= 1 or valid_vals.max() <= -1)
            if zeroed:
                ctx.fail(variant, inp, band.tolist(), "a finite Whittaker curve through the valid cells, not zeros",
                         note="robust mode must not degenerate (NaN weights / singular system -> zeros)")
            if fam in ("const", "linear") and p is None:
                line_ok = np.all(np.abs(band[w > 0] - valid_vals) <= 1)
                if not line_ok:
                    ctx.fail(variant, inp, band.tolist(), arr.tolist(), note="constant / exactly linear series are returned (smoothed), not altered")
            # placeholder independence on the real code
            nd2 = float(valid_vals.max() + 1234) if nd < valid_vals.min() else float(valid_vals.min() - 1234)
            for ph, ndarg in ((nd2, nd2), (float("nan"), float(valid_vals.max() + 7)), (float("inf"), float(valid_vals.max() + 7)), (float("-inf"), float(valid_vals.max() + 7))):
                if ph == ph and abs(ph) != float("inf") and not -32768 <= ph <= 32767:
                    continue
                if not (w == 0).any():
                    break
                arr2 = np.where(w > 0, arr, ph)
                b2, l2 = smooth.call(variant, arr2, ndarg, prm)
                if not np.array_equal(b2, band) or l2 != lopt:
                    ctx.fail(variant, dict(inp, placeholder_b=ph), dict(band=band.tolist(), lopt=lopt), dict(band=b2.tolist(), lopt=l2),
                             note="robust result must not depend on the nodata placeholder (finite, NaN or infinite)")
                    break

    from .. import accessor_args
    accessor_args.nodata_precedence(ctx, ['whitswcv', 'whitswcv_p'])
    # accessor defaults (srange arange(-1.8,4.2,.2), robust=True)
    for k in range(ctx.budget(3, 20)):
        nt = rng.choice([12, 36])
        nd = -3000
        cube = np.zeros((nt, 2, 2), dtype="int16")
        for i in range(2):
            for j in range(2):
                yv = gen.series(rng, nt)
                mk = gen.gaps(rng, nt, min_valid=rng.choice([0, 5, 5]))
                cube[:, i, j] = [v if ok and v != nd else nd for v, ok in zip(yv, mk)]
        t = np.arange(nt).astype("datetime64[D]")
        da = xr.DataArray(cube, dims=("time", "y", "x"), coords={"time": t})
        for pp in (None, 0.9, 0.5, rng.choice([0.2, 0.8])):
            ds = da.hdc.whit.whitswcv(nodata=nd, p=pp)
            sr = np.arange(-1.8, 4.2, 0.2)
            ctx.case(("whitswcv", cube.tobytes(), pp), sample=dict(accessor="whitswcv", p=pp))
            ctx.count("whitswcv")
            for i in range(2):
                for j in range(2):
                    yy = cube[:, i, j].astype("float64")
                    b2, l2 = ops.ws2dwcv(yy, float(nd), sr, True) if pp is None else ops.ws2dwcvp(yy, float(nd), pp, sr, True)
                    with np.errstate(all="ignore"):
                        sg = np.float32(np.log10(l2))
                    got = ds["sgrid"].values[i, j]
                    if not np.array_equal(ds["band"].transpose("time", ...).values[:, i, j], np.asarray(b2)) or not (got == sg or (np.isnan(got) and np.isnan(sg))):
                        ctx.fail("whitswcv", dict(y=yy.tolist(), p=pp), dict(sgrid=float(got)), dict(sgrid=float(sg)))
    core.acc_dispatch(ctx, ['whitswcv'])
    ctx.trusted += ["native model driver (Hdc/Model/Smooth.lean at Float)", "harness/props/c05.py oracle (GCV score recomputed with the compiled ws2d core)"]


def search(ctx):
    ctx.quick = False
    run(ctx)
