"""C10  Mann-Kendall trend follows its definition and symmetries."""
import itertools
import math

import numpy as np

from .. import core, gen

RULE = ("exhaustive: every rank pattern (weak ordering) of lengths 2..L (quick 6: 5,316 patterns; thorough 7: 52,608) through the compiled "
        "mk_score / mk_variance_s / mk_z_score / mk_p_value / mk_sens_slope / mann_kendall_trend_1d and both gufunc wrappers, compared with "
        "the Lean model (S, tau, 18 Var, Z, slope; bit level for S, Var, tau) and an independent O(n^2) oracle (+ math.erfc for p); random series "
        "to length 200 over int16 and float32 with heavy ties; symmetries on the real code (strictly increasing maps, negation, reversal, "
        "slope scaling); critical-value boundary: for every length 8..200 x 5 tie structures the two attainable scores bracketing z_crit, both signs; all-nodata pixel; mktrend accessor. Non-trivial = distinct pattern with n >= 3.")
LEVEL_NOTE = ("mkS_def, mkTau_def, mkVar18_def, mkZ_spec, mkP_flag(_iff_lt_alpha), slopesFrom_spec / median_spec and the invariance theorems are proved "
              "for the Lean model; erf, sqrt and the critical value are parameters (hypotheses StrictMono erf etc. are named in the theorems); their "
              "float values are sampled against math.erfc / the SciPy quantile.")

ZCRIT = 1.959963984540054


def weak_orderings(n):
    """all sequences over 0..k-1 (k<=n) using every value 0..k-1: rank patterns of length n"""
    for k in range(1, n + 1):
        for seq in itertools.product(range(k), repeat=n):
            if len(set(seq)) == k:
                yield seq


def oracle(x):
    n = len(x)
    s = 0
    slopes = []
    for i in range(n - 1):
        for j in range(i + 1, n):
            s += (x[j] > x[i]) - (x[j] < x[i])
            slopes.append((float(x[j]) - float(x[i])) / (j - i))
    tau = s / (n * (n - 1) / 2)
    ties = {}
    for v in x:
        ties[v] = ties.get(v, 0) + 1
    var = (n * (n - 1) * (2 * n + 5) - sum(t * (t - 1) * (2 * t + 5) for t in ties.values())) / 18
    z = 0.0 if s == 0 else ((s - 1) / math.sqrt(var) if s > 0 else (s + 1) / math.sqrt(var))
    p = math.erfc(abs(z) / math.sqrt(2))
    slope = float(np.median(slopes))
    trend = 0 if not p < 0.05 else (1 if z > 0 else (-1 if z < 0 else 0))
    return dict(s=s, tau=tau, var=var, z=z, p=p, slope=slope, trend=trend)


def boundary_series(n, groups):
    """integer series of length n with the given tie-group sizes whose MK score is the smallest one with Z > z_crit ('hi')
    and the next lower attainable one ('lo'); built from the sorted arrangement by adjacent swaps (each lowers S by 2)."""
    vals, v = [], 0
    for g in groups:
        vals += [v] * g
        v += 1
    while len(vals) < n:
        vals.append(v)
        v += 1
    vals.sort()
    smax = n * (n - 1) // 2 - sum(g * (g - 1) // 2 for g in groups)
    var = (n * (n - 1) * (2 * n + 5) - sum(g * (g - 1) * (2 * g + 5) for g in groups)) / 18
    s_hi = None
    for sc in range(smax % 2 or 2, smax + 1, 2):
        if (sc - 1) / math.sqrt(var) > ZCRIT:
            s_hi = sc
            break
    if s_hi is None:
        return
    for which, target in (("hi", s_hi), ("lo", s_hi - 2)):
        if target < 1:
            continue
        x = list(vals)
        need = (smax - target) // 2
        for end in range(n):
            if need == 0:
                break
            for j in range(n - 1, end, -1):
                if need == 0:
                    break
                if x[j - 1] < x[j]:
                    x[j - 1], x[j] = x[j], x[j - 1]
                    need -= 1
        yield which, x


def run(ctx: core.Ctx):
    from hdc.algo.ops import stats
    import xarray as xr
    import hdc.algo  # noqa: F401

    rng = ctx.rng
    L = 6 if ctx.quick else 7
    series = []
    for n in range(2, L + 1):
        series += [list(s) for s in weak_orderings(n)]
    ctx.count("exhaustive rank patterns", len(series))
    for _ in range(ctx.budget(150, 1500)):
        n = rng.choice([8, 10, 12, 20, 36, 60, 100, 200])
        kind = rng.choice(["ties", "rain", "ndvi", "walk", "const-ish", "near-ties", "near-ties", "wide", "wide"])
        if kind == "wide":
            x = [rng.randint(-32000, 32000) for _ in range(n)]     # pairwise differences exceed the int16 range
            series.append(x)
            continue
        if kind == "near-ties":
            # float32-representable values, some exactly tied, some distinct but within 1e-5 relative of each other
            base = float(np.float32(rng.choice([1200.0, 3.5, 25000.0])))
            ulp = float(np.spacing(np.float32(base)))
            pool = [base + k * ulp for k in range(0, 6)] + [base * rng.uniform(0.2, 3) for _ in range(4)]
            x = [float(np.float32(rng.choice(pool))) for _ in range(n)]
        elif kind == "ties":
            x = [rng.randint(0, rng.choice([1, 2, 5])) for _ in range(n)]
        elif kind == "const-ish":
            x = [5] * n
            x[rng.randrange(n)] = rng.choice([4, 6])
        else:
            x = gen.series(rng, n, kind)
        series.append(x)
    series += [[7] * n for n in (2, 3, 5, 12, 60, 200)] + [[-3.5] * 9]
    lines = [f"mk F {core.farr(x)}" for x in series]
    answers = ctx.driver.ask(lines)
    gu_in16 = {}
    for x, a in zip(series, answers):
        n = len(x)
        ctx.case(tuple(x), nontrivial=n >= 3, sample=dict(x=x[:16], n=n))
        xa = np.array(x, dtype="float64")
        s, tau = stats.mk_score(xa)
        vs = stats.mk_variance_s(xa)
        z = stats.mk_z_score(s, vs) if vs > 0 else None
        slope, _ = stats.mk_sens_slope(xa)
        t = a.split()
        ms, mtau, mv18, mz, mslope = int(t[1]), core.h2f(t[2]), int(t[3]), core.h2f(t[4]), core.h2f(t[5])
        inp = dict(x=x)
        if ms != s or mtau != tau or abs(mv18 / 18 - vs) > 1e-12 * max(1, vs) or (z is not None and abs(mz - z) > 1e-12 * max(1, abs(z))) or abs(mslope - slope) > 1e-12 * max(1, abs(slope)):
            ctx.disagree("F", "mk", inp, dict(s=ms, tau=mtau, var18=mv18, z=mz, slope=mslope), dict(s=int(s), tau=float(tau), var=float(vs), z=z, slope=float(slope)))
        o = oracle(x)
        if vs <= 0:
            # a pixel that is constant over time: S = 0, hence Z = 0 (the variance is not needed), p = 1, slope 0, no trend
            ctx.count("constant series")
            for dt in ("int16", "float32"):
                if dt == "int16" and any(float(v) != int(v) for v in x):
                    continue
                g = stats._mann_kendall_trend_gu(np.array(x, dtype=dt))
                g2 = stats._mann_kendall_trend_gu_nd(np.array(x, dtype=dt), -9999.0)
                for gg, nm in ((g, "_mann_kendall_trend_gu"), (g2, "_mann_kendall_trend_gu_nd")):
                    if not (gg[0] == 0 and gg[1] == 1 and gg[2] == 0 and gg[3] == 0):
                        ctx.fail(nm, dict(x=x, dtype=dt), dict(tau=float(gg[0]), p=float(gg[1]), slope=float(gg[2]), trend=int(gg[3])),
                                 dict(tau=0, p=1, slope=0, trend=0), note="constant series: S = 0 gives Z = 0, p = 1, no trend (never NaN)")
            continue
        tau1, p1, slope1, trend1 = stats.mann_kendall_trend_1d(xa)
        p, h = stats.mk_p_value(z)
        ok = (s == o["s"] and abs(tau1 - o["tau"]) <= 1e-12 and abs(vs - o["var"]) <= 1e-9 * o["var"] and abs(z - o["z"]) <= 1e-9 * max(1, abs(o["z"]))
              and abs(p1 - o["p"]) <= 1e-9 and abs(slope1 - o["slope"]) <= 1e-9 * max(1, abs(o["slope"])))
        near = abs(o["p"] - 0.05) < 1e-9
        if not ok or (not near and trend1 != o["trend"]) or (not near and bool(h) != (o["p"] < 0.05)):
            ctx.fail("mann_kendall_trend_1d", inp, dict(s=int(s), tau=float(tau1), var=float(vs), z=float(z), p=float(p1), slope=float(slope1), trend=int(trend1)), o,
                     note="tau-a, tie-corrected variance, continuity-corrected Z, two-sided normal p, Sen slope, flag = sign(Z) iff p < 0.05")
        gu_in16.setdefault(n, []).append((x, o))
    # gufunc wrappers, both dtypes, batched per length
    for n, all_items in gu_in16.items():
        for dt in ("int16", "float32"):
            items = all_items
            if dt == "int16":      # only integer-valued series can be handed to the int16 signature
                items = [it for it in all_items if all(float(v) == int(v) for v in it[0])]
            if n > 12 and ctx.quick and len(items) > 80:
                items = items[:80]
            if not items:
                continue
            arr = np.array([it[0] for it in items], dtype=dt)
            tau, p, slope, trend = stats._mann_kendall_trend_gu(arr)
            tau2, p2, slope2, trend2 = stats._mann_kendall_trend_gu_nd(arr, -9999.0)
            for k, (x, o) in enumerate(items):
                near = abs(o["p"] - 0.05) < 1e-6
                good = (abs(tau[k] - o["tau"]) <= 1e-6 and abs(p[k] - o["p"]) <= 1e-6 and abs(slope[k] - o["slope"]) <= 1e-6 * max(1, abs(o["slope"]))
                        and (near or trend[k] == o["trend"]) and tau2[k] == tau[k] and p2[k] == p[k] and slope2[k] == slope[k] and trend2[k] == trend[k])
                if not good:
                    ctx.fail("_mann_kendall_trend_gu", dict(x=x, dtype=dt), dict(tau=float(tau[k]), p=float(p[k]), slope=float(slope[k]), trend=int(trend[k])), o)
            ctx.count(f"gufunc/{dt}", len(items))
    # critical-value boundary: for every length 8..200 and four tie structures, the two attainable scores that bracket the 5 % critical
    # value (smallest S with Z > z_crit: flag must be sign(S); the next lower one: flag must be 0), both signs, 1-D kernel and both gufuncs
    nb = 0
    for n in range(8, 201):
        for groups in ((), (2,), (2, 2), (3, 3, 3, 3, 3), (10, 4)):
            if sum(groups) > n - 2:
                continue
            for which, x in boundary_series(n, groups):
                xa = np.array(x, dtype="float64")
                sgn = np.sign(xa[None, :] - xa[:, None])
                s_ref = int(np.triu(sgn, 1).sum())
                ties = np.unique(xa, return_counts=True)[1]
                var = (n * (n - 1) * (2 * n + 5) - int(sum(t * (t - 1) * (2 * t + 5) for t in ties))) / 18
                z_ref = (s_ref - 1) / math.sqrt(var)
                if abs(z_ref - ZCRIT) < 1e-9:
                    continue
                want = 1 if z_ref > ZCRIT else 0
                nb += 1
                ctx.case(("boundary", n, groups, which), sample=dict(n=n, tie_groups=list(groups), S=s_ref, Z=z_ref, flag=want))
                for sign in (1, -1):
                    ya = sign * xa
                    _, p1, _, tr = stats.mann_kendall_trend_1d(ya)
                    g16 = stats._mann_kendall_trend_gu(ya.astype("int16"))
                    g32 = stats._mann_kendall_trend_gu_nd(ya.astype("float32"), -9999.0)
                    got = dict(trend_1d=int(tr), p_1d=float(p1), trend_gu_int16=int(g16[3]), trend_gu_nd_float32=int(g32[3]))
                    if not (tr == sign * want and g16[3] == sign * want and g32[3] == sign * want and (p1 < 0.05) == bool(want)):
                        ctx.fail("mann_kendall_trend (critical value)", dict(x=[int(v) for v in ya], n=n, tie_groups=list(groups), S=sign * s_ref, Z=sign * z_ref), got,
                                 dict(trend=sign * want, p_below_alpha=bool(want)), note="flag = sign(Z) exactly when p < 0.05, i.e. |Z| > 1.959963984540054")
    ctx.count("critical-value boundary series", nb)
    # mk_p_value itself around the critical value (the flag and the returned p must tell the same story)
    for zz in (1.9, 1.9599, 1.95996, 1.959963, 1.9599639, 1.95996399, 1.95997, 1.95999, 1.96, 1.9600001, 1.97, 2.5, 0.0, 1.0):
        for sign in (1, -1):
            pz, hz = stats.mk_p_value(sign * zz)
            ctx.case(("mk_p_value", sign * zz))
            if bool(hz) != (pz < 0.05) or bool(hz) != (zz > ZCRIT):
                ctx.fail("mk_p_value", dict(z=sign * zz), dict(p=float(pz), h=int(hz)), dict(h=int(zz > ZCRIT)), note="h = 1 exactly when the returned p is below 0.05")
    from .. import strided
    strided.probe(ctx, "a non-contiguous view of an argument gives exactly the result of its contiguous copy (the kernel reads the cells it was given)", only=['_mann_kendall_trend_gu', '_mann_kendall_trend_gu_nd'])
    # all-nodata pixel
    for dt in ("int16", "float32"):
        r = stats._mann_kendall_trend_gu_nd(np.full(7, -9999, dtype=dt), -9999.0)
        if not (r[0] == -9999 and r[1] == -9999 and r[2] == -9999 and r[3] == -2):
            ctx.fail("_mann_kendall_trend_gu_nd", dict(x="all nodata", dtype=dt), [float(v) for v in r], [-9999, -9999, -9999, -2])
    # symmetries on the real code
    for _ in range(ctx.budget(80, 600)):
        n = rng.choice([5, 8, 12, 30])
        x = [rng.randint(-20, 20) for _ in range(n)] if rng.random() < .5 else gen.series(rng, n)
        xa = np.array(x, dtype="float64")
        if len(set(x)) < 2:
            continue
        base = stats.mann_kendall_trend_1d(xa)
        ctx.case(("sym", tuple(x)))
        ctx.count("symmetry")
        for name, ya, want in (
            ("3x+7", 3 * xa + 7, (base[0], base[1], None, base[3])),
            ("cube", xa ** 3, (base[0], base[1], None, base[3])),
            ("negation", -xa, (-base[0], base[1], -base[2], -base[3])),
            ("reversal", xa[::-1].copy(), (-base[0], base[1], -base[2], -base[3])),
            ("scale 2.5", 2.5 * xa, (base[0], base[1], 2.5 * base[2], base[3])),
        ):
            got = stats.mann_kendall_trend_1d(ya)
            for g, w in zip(got, want):
                if w is not None and abs(g - w) > 1e-9 * max(1, abs(w)):
                    ctx.fail("mann_kendall_trend_1d", dict(x=x, transformation=name), [float(v) for v in got], [None if v is None else float(v) for v in want],
                             note="tau, p, flag invariant under strictly increasing maps, sign flip under negation / reversal; slope scales linearly")
                    break
    # accessor
    nt = 12
    cube = np.array([[[rng.randint(0, 50) for _ in range(3)] for _ in range(2)] for _ in range(nt)], dtype="int16")
    cube[:, 0, 0] = -9999
    t = np.arange(nt).astype("datetime64[D]")
    da = xr.DataArray(cube, dims=("time", "y", "x"), coords={"time": t}, attrs={"nodata": -9999})
    ds = da.hdc.algo.mktrend()
    ctx.case(("accessor", cube.tobytes()), sample=dict(accessor="mktrend", shape=list(cube.shape)))
    for i in range(2):
        for j in range(3):
            x = cube[:, i, j]
            if (x == -9999).all():
                good = ds.tau.values[i, j] == -9999 and ds.trend.values[i, j] == -2
            else:
                o = oracle(x.tolist())
                good = abs(ds.tau.values[i, j] - o["tau"]) < 1e-6 and abs(ds.pvalue.values[i, j] - o["p"]) < 1e-6 and abs(ds.slope.values[i, j] - o["slope"]) < 1e-5
            if not good:
                ctx.fail("mktrend", dict(x=x.tolist()), dict(tau=float(ds.tau.values[i, j])), "oracle values")
    # accessor with the falsy-but-valid marker 0: an all-zero pixel under attrs nodata = 0 is an all-nodata pixel (flag -2), not a constant series
    cube0 = np.array([[[rng.randint(1, 50) for _ in range(3)] for _ in range(2)] for _ in range(nt)], dtype="int16")
    cube0[:, 0, 0] = 0
    d0 = xr.DataArray(cube0, dims=("time", "y", "x"), coords={"time": t}, attrs={"nodata": 0}).hdc.algo.mktrend()
    ctx.case(("accessor-nodata0", cube0.tobytes()), sample=dict(accessor="mktrend", nodata_attribute=0))
    ctx.count("accessor with nodata attribute 0")
    if int(d0.trend.values[0, 0]) != -2:
        ctx.fail("mktrend", dict(x="12 x 0", nodata_attribute=0), dict(trend=int(d0.trend.values[0, 0]), tau=float(d0.tau.values[0, 0])), dict(trend=-2),
                 note="a pixel whose cells all equal the nodata attribute (here 0) is flagged -2")
    o01 = oracle(cube0[:, 0, 1].tolist())
    if abs(d0.tau.values[0, 1] - o01["tau"]) > 1e-6 or abs(d0.pvalue.values[0, 1] - o01["p"]) > 1e-6:
        ctx.fail("mktrend", dict(x=cube0[:, 0, 1].tolist(), nodata_attribute=0), dict(tau=float(d0.tau.values[0, 1])), "oracle values")
    # accessor: the series is the pixel's values in the order in which they are laid out along `time`; a cube whose time axis is stored
    # in descending order is the reversed series (tau, slope and flag change sign), and the stored order is what the result refers to
    rev = da.isel(time=slice(None, None, -1))
    dr = rev.hdc.algo.mktrend()
    ctx.case(("accessor-reversed", cube.tobytes()))
    for i in range(2):
        for j in range(3):
            if (cube[:, i, j] == -9999).all():
                continue
            o = oracle(cube[::-1, i, j].tolist())
            good = (abs(dr.tau.values[i, j] - o["tau"]) < 1e-6 and abs(dr.slope.values[i, j] - o["slope"]) < 1e-5 and abs(dr.pvalue.values[i, j] - o["p"]) < 1e-6
                    and (abs(o["p"] - 0.05) < 1e-6 or dr.trend.values[i, j] == o["trend"]))
            if not good:
                ctx.fail("mktrend", dict(x=cube[::-1, i, j].tolist(), time_axis="stored in descending order"),
                         dict(tau=float(dr.tau.values[i, j]), slope=float(dr.slope.values[i, j]), trend=int(dr.trend.values[i, j])), o,
                         note="time reversal flips the sign of tau, slope and flag")
    # accessor on cubes WITHOUT a nodata attribute: every value is data, also the extreme values of the dtype (a constant pixel gives
    # S = 0: tau 0, p 1, slope 0, no trend - it is not an "all nodata" pixel, there is no nodata)
    for dt, lo in (("int16", -32768), ("int16", 32767), ("float32", float(np.finfo("float32").min)), ("float32", 0.0)):
        c2 = np.array([[[rng.randint(0, 50) for _ in range(2)] for _ in range(2)] for _ in range(nt)]).astype(dt)
        c2[:, 0, 0] = lo
        c2[:, 1, 1] = np.array([lo if i % 3 == 0 else 5 + i for i in range(nt)]).astype(dt)
        d2 = xr.DataArray(c2, dims=("time", "y", "x"), coords={"time": t})
        r2 = d2.hdc.algo.mktrend()
        ctx.case(("accessor-noattr", dt, lo), sample=dict(accessor="mktrend", nodata_attribute=None, dtype=dt, constant_pixel=lo))
        ctx.count("accessor without nodata attribute")
        got = (float(r2.tau.values[0, 0]), float(r2.pvalue.values[0, 0]), float(r2.slope.values[0, 0]), int(r2.trend.values[0, 0]))
        if got != (0.0, 1.0, 0.0, 0):
            ctx.fail("mktrend", dict(x=f"{nt} x {lo}", dtype=dt, nodata_attribute=None), got, (0, 1, 0, 0), note="a constant series: S = 0, p = 1, no trend")
        o = oracle(c2[:, 1, 1].astype("float64").tolist())
        if not (abs(r2.tau.values[1, 1] - o["tau"]) < 1e-6 and abs(r2.pvalue.values[1, 1] - o["p"]) < 1e-6):
            ctx.fail("mktrend", dict(x=c2[:, 1, 1].tolist(), dtype=dt, nodata_attribute=None), dict(tau=float(r2.tau.values[1, 1]), p=float(r2.pvalue.values[1, 1])), o)
    core.acc_dispatch(ctx, ['mktrend'])
    ctx.trusted += ["native model driver (Hdc/Model/Stats.lean at Float)", "harness/props/c10.py oracle (O(n^2) definition, math.erfc)"]


def search(ctx):
    ctx.quick = False
    run(ctx)
