"""C17  Rolling sum and grouped mean reduce exactly the valid cells."""
import itertools

import numpy as np

from .. import core

RULE = ("rolling_sum: every series over {nodata} U {-2..2} up to length L (quick 6, thorough 8) x every window 1..len through the "
        "compiled gufunc (all three input dtypes), model compared on lengths <= 6; mean_grp: every series up to length 5 x every "
        "labeling with groups 0..k-1 (all four dtypes); random longer series; accessor level incl. dask. Non-trivial = distinct "
        "(series, window/labeling) with at least one valid and one nodata cell or length > 1.")
LEVEL_NOTE = ("Theorems are about the Lean model (over Z) of rolling_sum / mean_grp as repaired; float32 accumulation of the "
              "real kernel is exact on the enumerated small integers and is sampled, not proved, for large values.")

ND_CHOICES = (-9999, 0, 7, 3)     # 3 and 7 are reachable as sums of valid cells


def roll_expect(arr, w, nd):
    """(all_valid_sum, n_valid, sum_valid) per complete window, vectorised over a batch (rows)."""
    valid = arr != nd
    vals = np.where(valid, arr, 0).astype(np.int64)
    cs = np.concatenate([np.zeros((arr.shape[0], 1), np.int64), np.cumsum(vals, axis=1)], axis=1)
    cv = np.concatenate([np.zeros((arr.shape[0], 1), np.int64), np.cumsum(valid, axis=1)], axis=1)
    s = cs[:, w:] - cs[:, :-w]
    c = cv[:, w:] - cv[:, :-w]
    return s, c


def run(ctx: core.Ctx):
    from hdc.algo.ops.stats import mean_grp, rolling_sum
    import xarray as xr
    import hdc.algo  # noqa: F401

    rng = ctx.rng
    L = 6 if ctx.quick else 8
    lines, refs = [], []
    for nd in ND_CHOICES:
        alphabet = [nd] + [v for v in (-2, -1, 0, 1, 2) if v != nd]
        for n in range(1, L + 1):
            batch = np.array(list(itertools.product(alphabet, repeat=n)), dtype=np.int64)
            for dt in (("int16", "float32", "int64") if n <= 5 else ("int16",)):
                x = batch.astype(dt)
                for w in range(1, n + 1):
                    out = rolling_sum(x, float(w), float(nd))
                    s, c = roll_expect(batch, w, nd)
                    got = out[:, w - 1:]
                    head = out[:, : w - 1]
                    full = c == w
                    none = c == 0
                    ok = np.where(full, got == s, np.where(none, got == nd, (got == nd) | (got == s)))
                    ok_head = head == nd
                    ctx.evaluations += batch.shape[0]
                    ctx.count(f"rolling n={n}", batch.shape[0])
                    if dt == "int16":
                        mixed = ((c > 0) & (c < w)).any(axis=1) | (n > 1)
                        for row in np.nonzero(mixed)[0][:0]:
                            pass
                        ctx.nontrivial.update(hash(("roll", nd, n, w, i)) for i in np.nonzero(mixed)[0])
                    if not ok.all() or not ok_head.all():
                        bad = np.argwhere(~ok)
                        i, j = (bad[0] if len(bad) else (np.argwhere(~ok_head)[0][0], -1))
                        ctx.fail("rolling_sum", dict(xx=batch[i].tolist(), window=w, nodata=nd, dtype=dt),
                                 out[i].tolist(), dict(sum_valid=s[i].tolist(), n_valid=c[i].tolist()),
                                 note="complete window: all valid -> sum, all nodata -> nodata, mixed -> nodata or sum of valid; "
                                      "first window-1 positions nodata")
                    if dt == "int16" and n <= 6 and (ctx.quick is False or n <= 5):
                        for i in range(batch.shape[0]):
                            lines.append(f"rolling {core.iarr(batch[i])} {w} {nd}")
                            refs.append((batch[i].tolist(), w, nd, out[i].tolist()))
    if len(ctx.samples) < 3:
        ctx.samples.append(dict(kernel="rolling_sum", xx=[1, -9999, 5, 7, 2], window=2, nodata=-9999))
    for (xx, w, nd, got), a in zip(refs, ctx.driver.ask(lines)):
        model = core.parse_arr(a.split()[1], int)
        if [int(v) for v in got] != model:
            ctx.disagree("F", "rolling_sum", dict(xx=xx, window=w, nodata=nd), model, got)
    ctx.count("rolling model-compared", len(lines))

    # random longer series, large values
    for _ in range(ctx.budget(60, 600)):
        n = rng.choice([9, 36, 100, 400])
        nd = rng.choice([-9999, 0, 32767, 2147483647, -2147483647, 999999999, -99999999])
        dt = rng.choice(["int16", "float32", "int64"]) if abs(nd) <= 32767 else "int64"
        x = np.array([nd if rng.random() < 0.3 else rng.randint(-3000, 3000) for _ in range(n)], dtype=np.int64)
        x[x == nd] = nd
        w = rng.choice([1, 2, 3, n // 2, n - 1, n])
        w = max(1, w)
        out = rolling_sum(x.astype(dt), float(w), float(nd))
        s, c = roll_expect(x[None, :], w, nd)
        got = out[w - 1:]
        ndf = np.float32(nd)           # the float32 output can only echo the sentinel rounded to float32
        ok = np.where(c[0] == w, got == s[0], np.where(c[0] == 0, got == ndf, (got == ndf) | (got == s[0])))
        ctx.case(("rollrand", tuple(x), w, nd, dt), sample=None)
        if not ok.all() or not (out[: w - 1] == ndf).all():
            ctx.fail("rolling_sum", dict(xx=x.tolist(), window=w, nodata=nd, dtype=dt), out.tolist(),
                     dict(sum_valid=s[0].tolist(), n_valid=c[0].tolist()))
        a = ctx.driver.ask([f"rolling {core.iarr(x)} {w} {nd}"])[0]
        if [float(np.float32(v)) for v in core.parse_arr(a.split()[1], int)] != [float(v) for v in out]:
            ctx.disagree("F", "rolling_sum", dict(xx=x.tolist(), window=w, nodata=nd, dtype=dt), a, out.tolist())

    # values beyond the range in which float32 adds integers exactly: recorded finding (the output type of the kernel is float32);
    # what is returned must still be the float32 accumulation of the valid cells in window order - anything else is a violation
    for _ in range(ctx.budget(30, 300)):
        n = rng.choice([3, 9, 36, 2200])
        dt = rng.choice(["int64", "int32", "int16", "float32"])
        big = {"int16": 30000, "int32": 2 ** 30, "int64": 2 ** 40, "float32": 2 ** 26}[dt]
        nd = -9999
        x = np.array([nd if rng.random() < 0.1 else rng.choice([big, big - 1, 1, 7, rng.randint(0, 3000)]) for _ in range(n)], dtype=np.int64)
        w = rng.choice([1, 2, n // 2, n]) if n < 2000 else rng.choice([1500, 2000])
        w = max(1, w)
        out = rolling_sum(x.astype(dt), float(w), float(nd))
        ctx.case(("rollbig", tuple(x[:40]), w, dt, n), sample=dict(kernel="rolling_sum", dtype=dt, window=w, max_value=int(big)))
        ctx.count("rolling_sum beyond 2^24")
        for ii in range(w - 1, n):
            win = x[ii - w + 1: ii + 1]
            valid = win[win != nd]
            exact = int(valid.sum())
            acc = np.float32(0)
            for v in valid:
                acc = np.float32(acc + np.float32(v)) if dt == "float32" else np.float32(np.float64(acc) + np.float64(v))
            want = np.float32(nd) if len(valid) == 0 else acc
            if out[ii] != want:
                ctx.fail("rolling_sum", dict(xx=x[max(0, ii - w + 1): ii + 1][:30].tolist(), window=w, dtype=dt, position=ii), float(out[ii]), float(want),
                         note="the float32 accumulation of the window's valid cells (or nodata)")
                break
            if len(valid) and float(out[ii]) != float(exact):
                bound_ok = w * int(np.abs(valid).max()) <= 2 ** 24
                ctx.fail("rolling_sum", dict(window=w, dtype=dt, position=ii, exact_sum=exact), float(out[ii]), exact,
                         signature=None if bound_ok else "rolling_sum:float32-exactness", note="exact sum of the window's cells")
                break

    # ---- mean_grp
    lines, refs = [], []
    Lg = 4 if ctx.quick else 5
    for nd in (-9999, 0, 1, 4):      # 1 and 4 are reachable as partial sums of the valid cells (-2+3, 1+3): the sentinel is data-independent
        alphabet = [nd] + [v for v in (-2, 0, 1, 3) if v != nd]
        for n in range(1, Lg + 1):
            labelings = [lab for k in range(1, n + 1) for lab in itertools.product(range(k), repeat=n) if set(lab) == set(range(k))]
            batch = np.array(list(itertools.product(alphabet, repeat=n)), dtype=np.int64)
            for lab in labelings:
                k = max(lab) + 1
                g = np.array(lab, dtype="int16")
                for dt in (("int16", "float32", "int32", "int64") if n <= 3 else ("int16",)):
                    out = mean_grp(batch.astype(dt), g, float(k), float(nd))
                    valid = batch != nd
                    exp = np.empty(batch.shape, dtype=np.float64)
                    for grp in range(k):
                        sel = g == grp
                        cnt = valid[:, sel].sum(axis=1)
                        sm = np.where(valid[:, sel], batch[:, sel], 0).sum(axis=1)
                        e = np.where(cnt > 0, sm / np.maximum(cnt, 1), nd)
                        exp[:, sel] = e[:, None]
                    ctx.evaluations += batch.shape[0]
                    ctx.count(f"mean_grp n={n}", batch.shape[0])
                    if dt == "int16":
                        ctx.nontrivial.update(hash(("grp", nd, lab, i)) for i in range(batch.shape[0]) if n > 1)
                    ok = np.abs(out.astype(np.float64) - exp) <= 1e-6 * np.maximum(1, np.abs(exp))
                    if not ok.all():
                        i = np.argwhere(~ok)[0][0]
                        ctx.fail("mean_grp", dict(xx=batch[i].tolist(), groups=list(lab), nodata=nd, dtype=dt),
                                 out[i].tolist(), exp[i].tolist(), note="mean of the non-nodata cells of the group, nodata if none")
                    if dt == "int16" and n <= 4:
                        for i in range(batch.shape[0]):
                            lines.append(f"meangrp {core.iarr(batch[i])} {core.iarr(lab)} {k} {nd}")
                            refs.append((batch[i].tolist(), lab, nd, out[i].tolist()))
    ctx.samples.append(dict(kernel="mean_grp", xx=[1, -9999, 3, 3], groups=[0, 0, 1, 1], nodata=-9999))
    for (xx, lab, nd, got), a in zip(refs, ctx.driver.ask(lines)):
        cells = a.split()[1][1:-1].split(",")
        for c, gv in zip(cells, got):
            if c == "u":
                ctx.disagree("F", "mean_grp", dict(xx=xx, groups=lab, nodata=nd), "unwritten", gv)
                break
            mv = float(nd) if c == "nd" else int(c.split(":")[0]) / int(c.split(":")[1])
            if abs(mv - gv) > 1e-6 * max(1, abs(mv)):
                ctx.disagree("F", "mean_grp", dict(xx=xx, groups=list(lab), nodata=nd), a, got)
                break

    # ---- mean_grp accumulates in 64 bits whatever the input dtype: groups whose sum of valid cells leaves the range in which
    # float32 adds exactly (2^24) must still give the correctly rounded mean (theorems GenKMeanGrpB: exact up to 2^53)
    for k in range(ctx.budget(40, 300)):
        nd = rng.choice([-9999, 0, 255])
        big = rng.choice([2 ** 24, 2 ** 24 + 8, 3 * 2 ** 23, 2 ** 25])
        ncell = rng.choice([4, 5, 8, 16])
        cells = [big] + [rng.choice([1, 1, 2, 3]) for _ in range(ncell - 1)]
        rng.shuffle(cells)
        xx = []
        for v in cells:
            xx.append(v)
            if rng.random() < 0.3:
                xx.append(nd)
        xx += [5, 3, 7, 12]
        groups = [0] * (len(xx) - 4) + [1, 1, 1, 1]
        for dt in ("float32", "int32", "int64"):
            arr = np.array(xx, dtype=dt)
            out = mean_grp(arr, np.array(groups, dtype="int16"), 2.0, float(nd))
            vals = [v for v in xx[:-4] if v != nd]
            want0 = np.float32(np.float64(sum(vals)) / len(vals))
            v1 = [v for v in xx[-4:] if v != nd]
            want1 = np.float32(np.float64(sum(v1)) / len(v1)) if v1 else np.float32(nd)
            ctx.case(("grp-wide", tuple(xx), nd, dt), sample=dict(kernel="mean_grp", xx=xx[:8], dtype=dt, nodata=nd))
            ctx.count("mean_grp wide sums")
            if not (np.all(out[:-4] == want0) and np.all(out[-4:] == want1)):
                ctx.fail("mean_grp", dict(xx=xx, groups=groups, nodata=nd, dtype=dt), out.tolist(), dict(group0=float(want0), group1=float(want1)),
                         note="mean of the valid cells of the group (64-bit accumulation: exact sum, one rounding of the quotient)")

    from .. import strided
    strided.probe(ctx, "a non-contiguous view of an argument gives exactly the result of its contiguous copy (the kernel reads the cells it was given)", only=['rolling_sum', 'mean_grp'])
    from .. import accessor_args
    accessor_args.nodata_precedence(ctx, ['rolling.sum', 'mean_grp'])
    # ---- accessor level, histories: the nodata attribute is read at each call (a corrected attribute on the SAME object takes effect)
    for nd_first, nd_then in ((0, -9999), (-9999, 0), (255, -9999)):
        series = np.array([4, nd_then, nd_first, 7, 3, nd_then, nd_then, 1, 9, nd_first], dtype="int16")
        cube_h = series.reshape(-1, 1, 1)
        tt = np.arange(len(series)).astype("datetime64[D]")
        obj = xr.DataArray(cube_h, dims=("time", "y", "x"), coords={"time": tt}, attrs={"nodata": nd_first})
        grp_h = [i % 2 for i in range(len(series))]
        _ = obj.hdc.rolling.sum(2), obj.hdc.algo.mean_grp(grp_h)          # first use with the first attribute
        obj.attrs["nodata"] = nd_then
        fresh = xr.DataArray(cube_h.copy(), dims=("time", "y", "x"), coords={"time": tt}, attrs={"nodata": nd_then})
        ctx.case(("history", nd_first, nd_then), sample=dict(accessor="rolling.sum / mean_grp", history=f"call, attrs['nodata'] {nd_first} -> {nd_then}, call"))
        ctx.count("accessor histories")
        for nm, a, b in (("rolling.sum", obj.hdc.rolling.sum(2), fresh.hdc.rolling.sum(2)), ("mean_grp", obj.hdc.algo.mean_grp(grp_h), fresh.hdc.algo.mean_grp(grp_h))):
            if not np.array_equal(np.asarray(a), np.asarray(b), equal_nan=True):
                ctx.fail(nm + " accessor", dict(series=series.tolist(), history=f"call with nodata attribute {nd_first}, attribute changed to {nd_then}, call again"),
                         np.asarray(a).ravel().tolist(), np.asarray(b).ravel().tolist(), note="the result depends on the array and its current nodata, not on earlier calls")

    # ---- accessor level (R): eager and dask, window dropped positions
    import dask.array as da_
    for _ in range(ctx.budget(6, 40)):
        nt = rng.choice([5, 12, 36])
        nd = -9999
        data = np.array([[[nd if rng.random() < 0.25 else rng.randint(0, 500) for _ in range(3)] for _ in range(2)] for _ in range(nt)], dtype="int16")
        w = rng.randint(1, nt)
        t = np.arange(nt).astype("datetime64[D]")
        da = xr.DataArray(data, dims=("time", "y", "x"), coords={"time": t}, attrs={"nodata": nd})
        r1 = da.hdc.rolling.sum(w)
        r2 = xr.DataArray(da_.from_array(data, chunks=(nt, 1, 2)), dims=("time", "y", "x"), coords={"time": t}, attrs={"nodata": nd}).hdc.rolling.sum(w).compute()
        a1 = np.asarray(r1.transpose("time", ...))
        ctx.case(("rollacc", data.tobytes(), w))
        if a1.shape[0] != nt - (w - 1) or not np.array_equal(a1, np.asarray(r2.transpose("time", ...))):
            ctx.fail("rolling.sum accessor", dict(shape=list(data.shape), window=w), list(a1.shape), f"{nt - w + 1} steps, dask == eager")
        flat = data.reshape(nt, -1).T.astype(np.int64)
        s, c = roll_expect(flat, w, nd)
        got = a1.reshape(a1.shape[0], -1).T
        ok = np.where(c == w, got == s, np.where(c == 0, got == nd, (got == nd) | (got == s)))
        if not ok.all():
            i, j = np.argwhere(~ok)[0]
            ctx.fail("rolling.sum accessor", dict(series=flat[i].tolist(), window=w, nodata=nd), got[i].tolist(), s[i].tolist())
    for _ in range(ctx.budget(6, 40)):
        nt = rng.choice([6, 12])
        grp = [i % 3 for i in range(nt)]
        for nd_arg, nd_attr in ((0, -9999), (0, None), (-9999, 0), (None, 0), (None, -9999), (255, -9999)):
            nd_eff = nd_arg if nd_arg is not None else nd_attr
            data = np.array([[[nd_eff if rng.random() < 0.3 else rng.randint(1, 50) for _ in range(2)] for _ in range(2)] for _ in range(nt)], dtype="int16")
            tt = np.arange(nt).astype("datetime64[D]")
            attrs = {} if nd_attr is None else {"nodata": nd_attr}
            da = xr.DataArray(data, dims=("time", "y", "x"), coords={"time": tt}, attrs=attrs)
            try:
                res = np.asarray((da.hdc.algo.mean_grp(grp) if nd_arg is None else da.hdc.algo.mean_grp(grp, nodata=nd_arg)).transpose("time", ...))
            except Exception as e:  # noqa: BLE001
                ctx.fail("mean_grp accessor", dict(nodata_arg=nd_arg, nodata_attr=nd_attr), repr(e), "no exception: a nodata value is available")
                continue
            ctx.case(("mgacc", data.tobytes(), nd_arg, nd_attr))
            ctx.count("mean_grp accessor")
            for yy in range(2):
                for xx_ in range(2):
                    s_ = data[:, yy, xx_].astype(np.int64)
                    for g in range(3):
                        sel = np.array(grp) == g
                        v = s_[sel][s_[sel] != nd_eff]
                        want = float(nd_eff) if v.size == 0 else float(v.mean())
                        got = res[sel, yy, xx_]
                        if not np.allclose(got, want, rtol=1e-6):
                            ctx.fail("mean_grp accessor", dict(series=s_.tolist(), groups=grp, nodata_arg=nd_arg, nodata_attr=nd_attr, group=g), got.tolist(), want,
                                     note="mean of the cells that are not nodata (the explicit nodata argument takes precedence over the attribute, also when it is 0)")
    core.acc_dispatch(ctx, ['rollsum', 'meangrp'])
    ctx.trusted += ["native model driver (Hdc/Model/Discrete.lean)", "harness/props/c17.py oracle (NumPy cumulative sums)"]


def search(ctx):
    ctx.quick = False
    run(ctx)
