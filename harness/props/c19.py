"""C19  Iterative aggregation yields exactly the complete trailing windows."""
import numpy as np

from .. import core

RULE = ("exhaustive: axis lengths 1..L (quick 7, thorough 12) x n in 1..len+1 x begin/end in {absent} U every label on the axis, "
        "for sum/mean/full on a time dimension and on a non-time dimension, cubes with NaNs; off-axis labels with method "
        "None/nearest/ffill/bfill. Non-trivial = distinct (len, n, begin, end, op, dim) with at least one window.")
LEVEL_NOTE = ("Theorems are about the Lean model of the index loop of _iteragg; pandas Index.get_indexer is an external function "
              "(its result, -1 for an unlocatable label, is the model's input). The reductions are NumPy's nansum/nanmean.")


def run(ctx: core.Ctx):
    import pandas as pd
    import xarray as xr
    import hdc.algo  # noqa: F401

    rng = ctx.rng
    L = 7 if ctx.quick else 12
    lines, refs = [], []
    for size in range(1, L + 1):
        times = pd.date_range("2000-01-01", periods=size, freq="10D")
        vals = np.arange(size * 2 * 2, dtype="float64").reshape(size, 2, 2) + 1
        vals[rng.randrange(size), 0, 0] = np.nan
        da_t = xr.DataArray(vals, dims=("time", "y", "x"), coords={"time": times})
        lev = np.arange(size) * 5 + 3
        da_l = xr.DataArray(vals, dims=("lev", "y", "x"), coords={"lev": lev})
        dep = np.arange(size) - (size // 2)            # labels ..., -1, 0, 1, ...: a label equal to 0 is a label like any other
        da_d = xr.DataArray(vals, dims=("depth", "y", "x"), coords={"depth": dep})
        ep = pd.date_range("1970-01-01", periods=size, freq="10D")       # axis starting at the epoch
        da_e = xr.DataArray(vals, dims=("time", "y", "x"), coords={"time": ep})
        for dim, da, labels in (("time", da_t, list(times)), ("lev", da_l, list(lev)), ("depth", da_d, [int(v) for v in dep]), ("time", da_e, list(ep))):
            if dim in ("lev", "depth") and ctx.quick and size > 5:
                continue
            if dim == "time" and da is da_e and (ctx.quick and size > 4):
                continue
            for n in range(1, size + 2):
                for bi in [None] + list(range(size)):
                    for ei in [None] + list(range(size)):
                        ops = ("sum", "mean", "full") if (size <= 4 or (bi is None and ei is None)) else (rng.choice(["sum", "mean", "full"]),)
                        for op in ops:
                            begin = None if bi is None else labels[bi]
                            end = None if ei is None else labels[ei]
                            try:
                                got = list(getattr(da.hdc.iteragg, op)(n, dim=dim, begin=begin, end=end))
                                err = None
                            except ValueError as e:
                                got, err = None, "ValueError"
                            b_ix = size - 1 if bi is None else bi
                            e_ix = 0 if ei is None else ei
                            want = [(l - n + 1, l + 1) for l in range(b_ix, e_ix - 1, -1) if l - n + 1 >= 0]
                            ctx.case((size, dim, n, bi, ei, op), nontrivial=len(want) > 0,
                                     sample=dict(size=size, dim=dim, n=n, begin=str(begin), end=str(end), op=op, windows=want[:4]))
                            ctx.count(f"{op}/{dim}")
                            lines.append(f"iteragg {size} {n} {'none' if bi is None else bi} {'none' if ei is None else ei}")
                            refs.append((size, dim, n, bi, ei, op, got, err))
                            inp = dict(size=size, dim=dim, n=n, begin=str(begin), end=str(end), op=op)
                            if err is not None:
                                ctx.fail("iteragg", inp, err, want, note="located labels must not raise")
                                continue
                            if len(got) != len(want):
                                ctx.fail("iteragg", inp, f"{len(got)} results", want, note="exactly the complete windows whose last step lies between end and begin")
                                continue
                            for g, (jj, ii) in zip(got, want):
                                sl = vals[jj:ii]
                                if op == "full":
                                    okv = np.array_equal(np.asarray(g), sl, equal_nan=True)
                                else:
                                    ref = np.nansum(sl, axis=0) if op == "sum" else np.nanmean(sl, axis=0)
                                    okv = np.allclose(np.asarray(g).squeeze(), ref, equal_nan=True)
                                oka = (g.attrs.get("agg_n") == n and g.attrs.get("agg_start") == str(labels[jj])
                                       and g.attrs.get("agg_stop") == str(labels[ii - 1]))
                                okt = True
                                if op != "full" and dim == "time":
                                    okt = g.time.size == 1 and pd.Timestamp(g.time.values[0]) == labels[ii - 1]
                                if not (okv and oka and okt):
                                    ctx.fail("iteragg", inp, dict(attrs=dict(g.attrs), values_ok=bool(okv), stamp_ok=bool(okt)),
                                             dict(window=[jj, ii]), note="value / attrs / time stamp of a window")
                                    break
    for (size, dim, n, bi, ei, op, got, err), a in zip(refs, ctx.driver.ask(lines)):
        if a.startswith("err"):
            if err is None:
                ctx.disagree("R", "iteragg", dict(size=size, n=n, begin=bi, end=ei), a, "no error")
            continue
        model = [tuple(int(v) for v in p.split(":")) for p in a.split()[1][1:-1].split(",") if p]
        if err is not None or len(model) != len(got):
            ctx.disagree("R", "iteragg", dict(size=size, n=n, begin=bi, end=ei, op=op), model, err or len(got))

    # off-axis labels
    size = 6
    times = pd.date_range("2000-01-01", periods=size, freq="10D")
    da = xr.DataArray(np.arange(size * 4, dtype="float64").reshape(size, 2, 2), dims=("time", "y", "x"), coords={"time": times})
    lev = np.arange(size) * 5 + 3
    dl = xr.DataArray(np.arange(size * 4, dtype="float64").reshape(size, 2, 2), dims=("lev", "y", "x"), coords={"lev": lev})
    offs = [("time", da, pd.Timestamp("2000-01-05"), times), ("time", da, pd.Timestamp("1999-01-01"), times),
            ("time", da, pd.Timestamp("2001-01-01"), times), ("lev", dl, 4, lev), ("lev", dl, -100, lev), ("lev", dl, 1000, lev),
            # labels that are not even of the axis' type: a fractional label on an integer axis lies BETWEEN two steps (or outside)
            ("lev", dl, 10.25, lev), ("lev", dl, 2.5, lev), ("lev", dl, 28.5, lev), ("lev", dl, 3.75, lev), ("lev", dl, -0.5, lev)]
    lines, refs = [], []
    for dim, d, lab, index in offs:
        for which in ("begin", "end"):
            for method in (None, "nearest", "ffill", "bfill"):
                for n in (1, 2):
                    loc = int(pd.Index(index).get_indexer([lab], method=method)[0])
                    kw = {which: lab}
                    try:
                        got = list(d.hdc.iteragg.sum(n, dim=dim, method=method, **kw))
                        err = None
                    except ValueError:
                        got, err = None, "ValueError"
                    ctx.case(("off", dim, str(lab), which, method, n), sample=dict(dim=dim, label=str(lab), arg=which, method=method, located=loc))
                    ctx.count("off-axis")
                    inp = dict(dim=dim, label=str(lab), arg=which, method=method, n=n, get_indexer=loc)
                    if loc < 0:
                        if err is None:
                            ctx.fail("iteragg", inp, f"{len(got)} results, no error", "ValueError",
                                     signature="iteragg:unlocatable", note="a label that cannot be located must raise ValueError")
                    else:
                        b_ix = loc if which == "begin" else size - 1
                        e_ix = loc if which == "end" else 0
                        want = [(l - n + 1, l + 1) for l in range(b_ix, e_ix - 1, -1) if l - n + 1 >= 0]
                        if err is not None or len(got) != len(want):
                            ctx.fail("iteragg", inp, err or len(got), want)
                    b = loc if which == "begin" else "none"
                    e = loc if which == "end" else "none"
                    lines.append(f"iteragg {size} {n} {b} {e}")
                    refs.append((inp, got, err))
    for (inp, got, err), a in zip(refs, ctx.driver.ask(lines)):
        if a.startswith("err") != (err is not None):
            ctx.disagree("R", "iteragg", inp, a, err or f"{len(got)} results")
    # integer cubes of every width: a window sum is the exact sum (it does not wrap in the cube's own narrow type)
    for dt, hi in (("int16", 9000), ("uint8", 200), ("int8", 100), ("int32", 2 ** 30), ("uint16", 60000)):
        for dim in ("time", "lev"):
            sz = 8
            cube = np.array([[[rng.randint(hi // 2, hi) for _ in range(2)] for _ in range(2)] for _ in range(sz)]).astype(dt)
            coords = {"time": pd.date_range("2000-01-01", periods=sz, freq="10D")} if dim == "time" else {"lev": np.arange(sz) * 5 + 3}
            dai = xr.DataArray(cube, dims=(dim, "y", "x"), coords=coords)
            for n in (1, 3, 6):
                got = list(dai.hdc.iteragg.sum(n, dim=dim))
                want = [(l - n + 1, l + 1) for l in range(sz - 1, -1, -1) if l - n + 1 >= 0]
                ctx.case(("int-sum", dt, dim, n), sample=dict(op="sum", dtype=dt, dim=dim, n=n))
                ctx.count("integer cube sums")
                for g, (jj, ii) in zip(got, want):
                    ref = cube[jj:ii].astype(np.int64).sum(axis=0)
                    if not np.array_equal(np.asarray(g).squeeze().astype(np.int64), ref):
                        ctx.fail("iteragg", dict(op="sum", dtype=dt, dim=dim, n=n, window=[jj, ii], values=cube[jj:ii, 0, 0].tolist()),
                                 np.asarray(g).squeeze().tolist(), ref.tolist(), note="each result is the sum of its window")
                        break
    core.acc_dispatch(ctx, ['iteragg'])
    ctx.trusted += ["native model driver (Hdc/Model/Discrete.lean)", "pandas get_indexer (external)", "harness/props/c19.py oracle"]


def search(ctx):
    ctx.quick = False
    run(ctx)
