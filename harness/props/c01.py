"""C01  The Whittaker core returns the exact penalised least-squares solution."""
import itertools
import types
from fractions import Fraction

import numpy as np

from .. import core, gen

RULE = ("level E: ws2d.py_func executed on Fractions (its own bytecode, `zeros` rebound to an exact array) vs the Lean model at Rat, "
        "exact equality, exhaustively for n in 4..9 over every 0/1 weight pattern with >= 2 ones, plus random n <= 120/400 with runs of zero "
        "weight at start / end / interior and lambda = r*10^k; level F: compiled ws2d vs model at Float, bit for bit; oracle: exact "
        "normal-equation residual of the source's result must be 0, compiled result within 1e-6 (relative, max norm) of the exact solution "
        "for lambda in [1e-6, 1e8]. Non-trivial = distinct (y, w, lambda) with n >= 4 and a non-constant y.")
LEVEL_NOTE = ("ws2d_normal_eq / ws2d_unique / ws2d_minimises / pivots_pos are proved for the Lean model over every ordered field; the model is "
              "tied to ws2d.py_func (exact) and to the compiled kernel (bitwise) on the enumerated / sampled inputs. The float64 accuracy clause "
              "is sampled, not proved (no floating-point error analysis).")


def qzeros(n, dtype=None):
    a = np.empty(n, dtype=object)
    a[:] = Fraction(0)
    return a


def exact_ws2d(y, lam, w):
    """Run the SOURCE of ws2d (py_func bytecode) in exact rational arithmetic."""
    from hdc.algo.ops.ws2d import ws2d
    f = ws2d.py_func
    g = types.FunctionType(f.__code__, {**f.__globals__, "zeros": qzeros}, f.__name__, f.__defaults__, f.__closure__)
    ya = np.array([Fraction(v) for v in y], dtype=object)
    wa = np.array([Fraction(v) for v in w], dtype=object)
    return [Fraction(v) for v in g(ya, Fraction(lam), wa)]


def residual(y, lam, w, z):
    """max |((W + lam D'D) z - W y)_i| computed exactly."""
    n = len(y)
    d2 = [z[j] - 2 * z[j + 1] + z[j + 2] for j in range(n - 2)]
    worst = Fraction(0)
    for i in range(n):
        acc = w[i] * z[i] - w[i] * y[i]
        for j, c in ((i, 1), (i - 1, -2), (i - 2, 1)):
            if 0 <= j < n - 2:
                acc += lam * c * d2[j]
        worst = max(worst, abs(acc))
    return worst


def weight_pattern(rng, n):
    kind = rng.choice(["ones", "lead", "trail", "interior", "random", "two", "frac"])
    w = [1] * n
    if kind == "lead":
        for i in range(rng.randint(1, n - 2)):
            w[i] = 0
    elif kind == "trail":
        for i in range(rng.randint(1, n - 2)):
            w[n - 1 - i] = 0
    elif kind == "interior":
        a = rng.randrange(1, n - 1)
        for i in range(a, min(n - 1, a + rng.randint(1, n // 2))):
            w[i] = 0
    elif kind == "random":
        w = [1 if rng.random() < 0.6 else 0 for _ in range(n)]
    elif kind == "two":
        w = [0] * n
        for i in rng.sample(range(n), 2):
            w[i] = 1
    elif kind == "frac":
        w = [rng.choice([0, Fraction(1, 10), Fraction(9, 10), 1, Fraction(1, 2)]) for _ in range(n)]
    if sum(1 for v in w if v > 0) < 2:
        i, j = rng.sample(range(n), 2)
        w[i] = w[j] = 1
    return w


def run(ctx: core.Ctx):
    from hdc.algo.ops.ws2d import ws2d
    rng = ctx.rng
    cases = []
    # exhaustive small
    for n in range(4, (8 if ctx.quick else 10)):
        y = gen.series(rng, n, "smallint")
        for pat in itertools.product((0, 1), repeat=n):
            if sum(pat) < 2:
                continue
            for lam in (Fraction(1, 3), Fraction(10)):
                cases.append((y, lam, list(pat)))
    ctx.count("exhaustive-small", len(cases))
    for _ in range(ctx.budget(120, 1200)):
        n = rng.choice([4, 5, 6, 7, 10, 16, 36, 72, 120] + ([] if ctx.quick else [255, 400]))
        y = gen.series(rng, n)
        k = rng.randint(-6, 8)
        lam = Fraction(rng.choice([1, 2, 3, 5, 7])) * Fraction(10) ** k
        cases.append((y, lam, weight_pattern(rng, n)))
    # recorded known finding (replayed on every run): n=50, two adjacent valid cells, lambda=1e7
    import math
    yk = [int(3000 + 2000 * math.sin(i / 7)) for i in range(50)]
    wk = [1 if i in (16, 17) else 0 for i in range(50)]
    cases.append((yk, Fraction(10) ** 7, wk))
    # level E + oracle (exact)
    lines = [f"ws2d Q {core.qarr(y)} {core.q2s(lam)} {core.qarr(w)}" for y, lam, w in cases]
    answers = ctx.driver.ask(lines)
    flines, fcases = [], []
    for (y, lam, w), a in zip(cases, answers):
        n = len(y)
        key = (tuple(y), lam, tuple(w))
        ctx.case(key, nontrivial=len(set(y)) > 1, sample=dict(n=n, y=y[:12], lam=str(lam), w=[str(v) for v in w[:12]]))
        ctx.count(f"n<={1 << (n - 1).bit_length()}")
        ctx.count(f"lam~1e{len(str(int(lam))) - 1 if lam >= 1 else -len(str(int(1 / lam))) + 1}")
        try:
            z_src = exact_ws2d(y, lam, w)
        except ZeroDivisionError:
            z_src = None
        model = core.parse_arr(a.split()[1], core.parse_q) if a.startswith("ok") else None
        if z_src is None or model is None or z_src != model:
            ctx.disagree("E", "ws2d", dict(y=y, lam=str(lam), w=[str(v) for v in w]), None if model is None else [str(v) for v in model[:6]],
                         None if z_src is None else [str(v) for v in z_src[:6]], note="source on Fractions vs Lean model at Rat")
        wf = [Fraction(v) for v in w]
        if z_src is None:
            ctx.fail("ws2d.py_func", dict(y=y, lam=str(lam), w=[str(v) for v in w]), "ZeroDivisionError", "solution of the normal equations")
            continue
        res = residual([Fraction(v) for v in y], lam, wf, z_src)
        if res != 0:
            ctx.fail("ws2d.py_func", dict(y=y, lam=str(lam), w=[str(v) for v in w]), dict(max_residual=str(res), z=[str(v) for v in z_src[:8]]),
                     "(W + lam D'D) z - W y = 0 exactly", note="exact rational execution of the source must satisfy the normal equations")
        # float side
        lf = float(lam)
        ya, wa = np.array(y, dtype="float64"), np.array([float(v) for v in w], dtype="float64")
        zc = ws2d(ya, lf, wa)
        fcases.append((y, lam, w, zc, z_src))
        flines.append(f"ws2d F {core.farr(ya)} {core.f2h(lf)} {core.farr(wa)}")
    bit_equal = 0
    for (y, lam, w, zc, z_src), a in zip(fcases, ctx.driver.ask(flines)):
        zm = np.array(core.parse_arr(a.split()[1], core.h2f))
        if np.array_equal(zm, zc):
            bit_equal += 1
        elif not np.allclose(zm, zc, rtol=1e-12, atol=1e-9):
            ctx.disagree("F", "ws2d", dict(y=y, lam=str(lam), w=[str(v) for v in w]), zm[:6].tolist(), zc[:6].tolist(), note="compiled kernel vs Lean model at Float")
        # float accuracy clause
        if Fraction(1, 10 ** 6) <= lam <= 10 ** 8 and all(v in (0, 1) for v in w):
            ze = np.array([float(v) for v in z_src])
            scale = max(1.0, float(np.max(np.abs(ze))))
            err = float(np.max(np.abs(zc - ze))) / scale
            ctx.notes["max_float_rel_err"] = max(ctx.notes.get("max_float_rel_err", 0.0), err)
            if not err <= 1e-6:
                idx = [i for i, v in enumerate(w) if v > 0]
                lev = max(idx[0], len(w) - 1 - idx[-1]) / max(1, idx[-1] - idx[0])
                # recorded finding: extrapolation beyond the weighted span in the stiff regime; over 1,200 sampled cases every failure has
                # lambda * leverage^2 >= 2.6e8 (leverage = extrapolated distance / span of the weighted cells)
                # ... and a second regime found by the thorough tier: a long extrapolated tail with a soft curve (lambda around 0.05): the
                # error grows like gap^4 * eps (gap = number of cells beyond the last weighted one): 1.0e-6 .. 1.4e-6 at gap 380 .. 398,
                # 7e-8 at gap 200, 4e-9 at gap 100 (measured for lambda 1e-3 .. 1e4, 2 / 5 / 20 weighted cells)
                gap = max(idx[0], len(w) - 1 - idx[-1])
                sig = "ws2d:float-accuracy:extrapolation" if (lev >= 1 and (float(lam) * lev * lev >= 1e8 or gap >= 330)) else "ws2d:float-accuracy"
                ctx.fail("ws2d", dict(y=y, lam=str(lam), w=[str(v) for v in w], n=len(y), leverage=lev), dict(rel_err=err),
                         "<= 1e-6 relative to the exact solution", signature=sig, note="float64 accuracy clause")
    ctx.notes["float_cases_bit_identical_to_model"] = f"{bit_equal}/{len(fcases)}"
    ctx.trusted += ["native model driver (Hdc/Model/Ws2d.lean at Rat and Float)", "Python fractions.Fraction / NumPy object arrays executing ws2d.py_func's bytecode",
                    "harness/props/c01.py residual oracle"]


def search(ctx):
    ctx.quick = False
    run(ctx)
