"""C08  SPI preserves the ordering of observations and never wraps or crashes."""
import numpy as np

from .. import core, spi

RULE = ("series with extreme outliers relative to the calibration data (ratios 1e6 .. 1e-300), low-variance calibration windows (shape up to 1e4), "
        "negative values, all-nodata / all-negative / all-zero / constant pixels, mixed with ordinary pixels in one cube; ungrouped and grouped "
        "kernels, int16 / float32 / float64. Oracle on the real code: non-decreasing in the observation within a pixel (and group), equal "
        "inputs -> equal outputs, int16 saturation, nodata / negative -> nodata, unfittable -> all nodata, no exception, neighbours unaffected. "
        "Correspondence: compiled kernel vs Lean model at Float (SciPy oracle for the special functions). Non-trivial = distinct pixel with a "
        "fitted result.")
LEVEL_NOTE = ("gammastd_monotone / spi_index_monotone (under Monotone gammainc(a,.), Monotone ndtri, root >= 0), spiScale_range / spiCell_range (saturation, no wrap), "
              "gammastd_total / gammastd_nodata_negative / gammastd_unfittable are proved for the Lean model; monotonicity of SciPy's gammainc / ndtri in "
              "floating point is an assumption, exercised by the oracle.")


def pixel(rng, n):
    kind = rng.choice(["ordinary", "outlier_hi", "outlier_lo", "lowvar", "negatives", "allnd", "allneg", "allzero", "const", "mostlyzero", "inf", "tail_sweep", "lowvar_sweep"])
    nd = -9999.0
    base = spi.rain_series(rng, n, "float64")
    base = np.where(base == 0, 0.0, base + 0.0)
    if kind == "tail_sweep":
        # no zeros; a geometric sweep of tiny and huge observations: the index must stay ordered all the way into saturation
        base = np.where(base <= 0, 1.0, base)
        m = float(np.mean(base))
        tail = list(range(2 * n // 3, n))          # swept cells sit in the last third: outside the window [0, 2n/3) used by a third of the runs
        ks = sorted(rng.sample(range(5, 320, 5), min(len(tail), 12)))
        for i, k in zip(rng.sample(tail, len(ks)), ks):
            base[i] = m * 10.0 ** (-k) if rng.random() < 0.8 else m * 10.0 ** (k / 40.0)
    elif kind == "lowvar_sweep":
        c = rng.choice([100.0, 1000.0])
        base = np.array([c * (1 + rng.gauss(0, 0.01)) for _ in range(n)])
        fs = [0.5 + 0.01 * j for j in range(0, 60)] + [1.2 + 0.05 * j for j in range(10)]
        tail = list(range(2 * n // 3, n))
        for i, f in zip(tail, rng.sample(fs, len(tail))):
            base[i] = c * f
    elif kind == "outlier_hi":
        base[rng.randrange(n)] = max(1.0, float(np.max(base))) * rng.choice([1e2, 1e4, 1e6])
    elif kind == "outlier_lo":
        base[rng.randrange(n)] = rng.choice([1e-300, 1e-30, 1e-6])
    elif kind == "lowvar":
        c = rng.choice([10.0, 1000.0])
        base = np.array([c * (1 + rng.gauss(0, rng.choice([1e-2, 1e-3, 3e-3]))) for _ in range(n)])
        base[rng.randrange(n)] *= rng.choice([0.5, 2.0, 1.2])
    elif kind == "negatives":
        for i in rng.sample(range(n), max(1, n // 4)):
            base[i] = -abs(base[i]) - 1
    elif kind == "allnd":
        base[:] = nd
    elif kind == "allneg":
        base = -np.abs(base) - 1
    elif kind == "allzero":
        base[:] = 0
    elif kind == "const":
        base[:] = 5.0
    elif kind == "mostlyzero":
        base[:] = 0
        base[rng.randrange(n)] = 3.0
    elif kind == "inf":
        base[rng.randrange(n)] = np.inf
    if rng.random() < 0.3 and kind not in ("allnd",):
        for i in rng.sample(range(n), max(1, n // 6)):
            base[i] = nd
    return kind, base, nd


def check_pixel(ctx, name, x, out, nd, inp, groups=None):
    x = np.asarray(x, dtype="float64")
    valid = (x != nd) & (x >= 0)
    if ((out[~valid] != nd)).any():
        ctx.fail(name, inp, out.tolist(), "nodata at nodata / negative cells")
    if (out < -32768).any() or (out > 32767).any():
        ctx.fail(name, inp, out.tolist(), "within int16")
    gs = [None] if groups is None else sorted(set(groups))
    for g in gs:
        sel = valid if g is None else (valid & (np.asarray(groups) == g))
        fitted = sel & (out != nd)
        if not fitted.any():
            continue
        if (sel & (out == nd)).any() and nd not in (out[fitted]):
            # some valid cells fitted and others nodata in the same pixel/group: only legitimate if SPI equals nodata by value
            ctx.fail(name, inp, out.tolist(), "either every valid cell of a pixel/group is fitted or none")
        xs, os_ = x[fitted], out[fitted]
        order = np.argsort(xs, kind="stable")
        xs, os_ = xs[order], os_[order]
        if (np.diff(os_) < 0).any():
            i = int(np.argmax(np.diff(os_) < 0))
            ctx.fail(name, dict(inp, pair=[float(xs[i]), float(xs[i + 1])]), [int(os_[i]), int(os_[i + 1])], "a wetter observation never receives a smaller index (no wrap, no arbitrary value)")
        same = np.diff(xs) == 0
        if (np.diff(os_)[same] != 0).any():
            ctx.fail(name, inp, out.tolist(), "equal observations receive equal indices")


def run(ctx: core.Ctx):
    from hdc.algo.ops.stats import gammastd_grp, gammastd_yxt
    rng = ctx.rng
    dlg = core.Dialogue()
    try:
        for k in range(ctx.budget(40, 400)):
            n = rng.choice([5, 8, 12, 36, 72])
            pixels = [pixel(rng, n) for _ in range(6)]
            nd = -9999.0
            r_ = rng.random()
            if r_ < 0.33:
                cs, ce = 0, n
            elif r_ < 0.66:
                cs, ce = 0, 2 * n // 3
            else:
                cs = rng.randrange(0, n - 2)
                ce = rng.randrange(cs + 2, n + 1)
            for dt in ("float64", rng.choice(["int16", "float32"])):
                cube = np.array([p[1] for p in pixels]).reshape(2, 3, n)
                if dt == "int16":
                    cube = np.clip(np.nan_to_num(cube, posinf=32000), -32000, 32000).round()
                cube = cube.astype(dt)
                try:
                    res = gammastd_yxt(cube, nd, cs, ce)
                except Exception as e:  # noqa: BLE001
                    ctx.fail("gammastd_yxt", dict(cube=cube.tolist(), cal=[cs, ce], dtype=dt), repr(e), "no numeric input makes the computation raise")
                    continue
                for idx, (kind, _, _) in enumerate(pixels):
                    x = cube.reshape(6, n)[idx]
                    out = res.reshape(6, n)[idx].astype(np.int64)
                    inp = dict(kind=kind, x=[float(v) for v in x], cal=[cs, ce], dtype=dt, nodata=nd)
                    ctx.case((kind, x.tobytes(), dt, cs, ce), nontrivial=bool((out != nd).any()),
                             sample=dict(kind=kind, dtype=dt, x=[float(v) for v in x[:8]], spi=out[:8].tolist()))
                    ctx.count(kind)
                    check_pixel(ctx, "gammastd_yxt", x, out, nd, inp)
                    # the pixel alone must give the same result (a bad neighbour does not influence it)
                    alone = spi.real_spi(x, nd, cs, ce)
                    if not np.array_equal(alone, out):
                        ctx.fail("gammastd_yxt", inp, out.tolist(), alone.tolist(), note="result of a pixel must not depend on the other pixels of the cube")
                    if kind in ("allnd", "allneg", "allzero", "mostlyzero") and (out != nd).any() and kind != "mostlyzero":
                        ctx.fail("gammastd_yxt", inp, out.tolist(), "all nodata for an unfittable pixel")
                    if dt == "float64" and np.isfinite(x).all():
                        mod = spi.model_spi(dlg, x, nd, cs, ce)
                        if mod is not None and mod["nan_path"]:
                            ctx.count("NaN path: outside the model")
                        elif mod is None or not np.array_equal(mod["cells"].astype(np.int64), out):
                            ctx.disagree("F", "gammastd_yxt", inp, None if mod is None else mod["cells"].tolist(), out.tolist())
            # grouped kernel: two interleaved groups built from two pixels
            (k1, x1, _), (k2, x2, _) = pixels[0], pixels[1]
            xx = np.empty(2 * n)
            xx[0::2], xx[1::2] = x1, x2
            groups = np.array([0, 1] * n, dtype="int16")
            cal = np.array([[cs, ce], [0, n]], dtype="int16")
            for dt in ("float32", "int16"):
                xg = xx.copy()
                if dt == "int16":
                    xg = np.clip(np.nan_to_num(xg, posinf=32000), -32000, 32000).round()
                xg = xg.astype(dt)
                try:
                    out = gammastd_grp(xg, groups, 2, nd, cal).astype(np.int64)
                except Exception as e:  # noqa: BLE001
                    ctx.fail("gammastd_grp", dict(x=xg.tolist(), dtype=dt), repr(e), "no exception")
                    continue
                ctx.case(("grp", xg.tobytes(), dt, cs, ce))
                ctx.count("grouped")
                check_pixel(ctx, "gammastd_grp", xg, out, nd, dict(kinds=[k1, k2], x=[float(v) for v in xg], dtype=dt, cal=cal.tolist()), groups=groups)
        from .. import accessor_args
        accessor_args.nodata_precedence(ctx, ["spi", "spi_grp"])
        # accessor: cubes of every integer width; an observation beyond the int16 range (rainfall in 1/100 mm, an extreme outlier) is a wet
        # observation like any other: it gets the largest index of its pixel, it never wraps to nodata or to a small value
        import pandas as pd
        import xarray as xr
        import hdc.algo  # noqa: F401
        for k in range(ctx.budget(6, 40)):
            n = rng.choice([12, 24, 36])
            for dt, extremes in (("int32", [40000, 70000, 250000]), ("int64", [33000, 70000]), ("uint16", [40000, 65000]), ("int16", [32000])):
                base = np.clip(np.round([rng.gammavariate(2.0, 150.0) for _ in range(n)]), 0, 30000)
                x = base.astype("int64")
                for e in extremes:
                    x[rng.randrange(n)] = e
                cube = np.stack([x, x[::-1]], axis=1).reshape(n, 1, 2).astype(dt)
                da = xr.DataArray(cube, dims=("time", "y", "x"), coords={"time": pd.date_range("2000-01-01", periods=n, freq="10D")}, attrs={"nodata": 0 if dt == "uint16" else -9999})
                ndv = 0 if dt == "uint16" else -9999
                if dt == "uint16":
                    cube[cube == 0] = 1
                try:
                    res = np.asarray(da.hdc.algo.spi().transpose("time", "y", "x")).astype(np.int64)
                except Exception as e:  # noqa: BLE001
                    ctx.fail("spi accessor", dict(dtype=dt, x=cube[:, 0, 0].tolist()), repr(e)[:160], "no exception")
                    continue
                ctx.case(("acc-wide", cube.tobytes(), dt), sample=dict(accessor="spi", dtype=dt, extremes=extremes))
                ctx.count("accessor, integer widths")
                for j in range(2):
                    check_pixel(ctx, "spi accessor", cube[:, 0, j].astype("float64"), res[:, 0, j], ndv, dict(x=cube[:, 0, j].tolist(), dtype=dt))
    finally:
        ctx.notes["oracle_queries"] = dlg.queries
        dlg.close()
    core.acc_dispatch(ctx, ['spi'])
    ctx.trusted += ["native model driver (Hdc/Model/Stats.lean at Float)", "SciPy special functions as oracle for the model's parameters", "harness/props/c08.py oracle"]


def search(ctx):
    ctx.quick = False
    run(ctx)
