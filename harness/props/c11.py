"""C11  Dekads partition the calendar and behave as an ordered integer line."""
from datetime import date, datetime, timedelta

import numpy as np

from .. import core

RULE = ("translator-tied: lean/Hdc/Gen/Dekad.lean is regenerated from dekad.py before the theorems are re-checked. Correspondence: (a) the hand "
        "model of CPython's date arithmetic (PyDate.ord2ymd / ymd2ord) vs datetime.date on every day 0001-01-01..9999-12-31 (thorough) or every "
        "month boundary of all 9999 years + 50k random days (quick); (b) generated model vs the real Dekad class on every dekad (thorough: 359,964) "
        "in both tiers: year/month/day/idx/yidx/str/start/end/ndays/label round trip. "
        "Oracle on the real class: partition (start <= instant <= end, abutting, ndays sums), round trips, order, hash, arithmetic, intra-day "
        "times; .dekad accessor element-wise. Non-trivial = distinct date / dekad.")
LEVEL_NOTE = ("Theorems are about the GENERATED definitions (every date, every microsecond, every raw integer in range, every offset); CPython's datetime is "
              "modelled by PyDate (validated exhaustively in the thorough tier, and ord2ymd_ymd2ord is proved); str/int parsing is modelled for ASCII digits.")

MAXORD = 3652059


def fmt_dt(dt):
    us = ((dt.hour * 60 + dt.minute) * 60 + dt.second) * 1000000 + dt.microsecond
    return f"{dt.year}-{dt.month}-{dt.day}+{us}"


def real_fields(D, r):
    d = D(r)
    try:
        s = fmt_dt(d.start_date)
    except ValueError:
        s = "err:Hdc.Py.PyErr.valueError"
    try:
        e = fmt_dt(d.end_date)
    except (ValueError, OverflowError) as ex:
        e = "err:Hdc.Py.PyErr." + ("valueError" if isinstance(ex, ValueError) else "overflowError")
    try:
        nd = str(d.ndays)
    except (ValueError, OverflowError) as ex:
        nd = "err:Hdc.Py.PyErr." + ("valueError" if isinstance(ex, ValueError) else "overflowError")
    lab = str(d)
    try:
        back = str(D(lab).raw)
    except (ValueError, AssertionError) as ex:
        back = "err:Hdc.Py.PyErr." + ("valueError" if isinstance(ex, ValueError) else "assertionError")
    return f"ok {d.year} {d.month} {d.day} {d.idx} {d.yidx} {lab} {s} {e} {nd} {back}"


def run(ctx: core.Ctx):
    from hdc.algo.dekad import Dekad
    import pandas as pd
    import xarray as xr
    import hdc.algo  # noqa: F401

    rng = ctx.rng
    # (a) PyDate vs CPython
    if ctx.quick:
        ords = set()
        for y in range(1, 10000):
            for m in range(1, 13):
                o = date(y, m, 1).toordinal()
                ords.update((o, o - 1 if o > 1 else o))
        ords.update(rng.randrange(1, MAXORD + 1) for _ in range(50000))
        ords.update((1, MAXORD))
        ords = sorted(ords)
    else:
        ords = range(1, MAXORD + 1)
    CH = 400000
    buf = []
    nbad = 0

    def flush(buf):
        nonlocal nbad
        ans = ctx.driver.ask([f"ord2ymd {o}" for o in buf])
        for o, a in zip(buf, ans):
            d = date.fromordinal(o)
            if a != f"ok {d.year} {d.month} {d.day}":
                nbad += 1
                if nbad <= 3:
                    ctx.disagree("E", "PyDate.ord2ymd", dict(ordinal=o), a, str(d))
        ans = ctx.driver.ask([f"ymd2ord {date.fromordinal(o).year} {date.fromordinal(o).month} {date.fromordinal(o).day}" for o in buf[:: (1 if not ctx.quick else 3)]])
        for o, a in zip(buf[:: (1 if not ctx.quick else 3)], ans):
            if a != f"ok {o}":
                ctx.disagree("E", "PyDate.ymd2ord", dict(ordinal=o), a, o)
    n_days = 0
    for o in ords:
        buf.append(o)
        if len(buf) >= CH:
            flush(buf)
            n_days += len(buf)
            buf = []
    if buf:
        flush(buf)
        n_days += len(buf)
    ctx.evaluations += n_days
    ctx.count("PyDate days compared with CPython", n_days)
    ctx.notes["pydate_exhaustive"] = not ctx.quick
    ctx.nontrivial.update(hash(("ord", o)) for o in (ords if ctx.quick else range(1, MAXORD + 1, 97)))

    # (b) generated model vs the real class, per dekad
    raws = list(range(36, 360000))          # every dekad 0001-01-d1 .. 9999-12-d3, both tiers
    # the generated model lives in its own executable (rebuilt here from the regenerated Hdc/Gen/Dekad.lean); when the new source cannot
    # be translated or the translation does not compile, the obligations are already broken and the oracle below is the search
    try:
        dk = core.Driver("hdc-driver-dekad", rebuild=True)
    except core.Infra as e:
        dk = None
        ctx.notes["generated_model_driver"] = "not built: " + str(e)[-200:]
    for i in range(0, len(raws) if dk else 0, CH):
        chunk = raws[i:i + CH]
        ans = dk.ask([f"dekadraw {r}" for r in chunk])
        for r, a in zip(chunk, ans):
            want = real_fields(Dekad, r)
            if a != want:
                ctx.disagree("E", "Gen.Dekad", dict(raw=r), a, want)
                if len(ctx.disagreements) > 20:
                    break
    ctx.evaluations += len(raws)
    ctx.count("dekads compared (generated model vs class)", len(raws))
    ctx.nontrivial.update(hash(("raw", r)) for r in raws[:: (1 if ctx.quick else 7)])
    ctx.samples.append(dict(raw=72869, label=str(Dekad(72869)), start=str(Dekad(72869).start_date), end=str(Dekad(72869).end_date), ndays=Dekad(72869).ndays))

    # oracle: the property on the real class
    years = [1, 4, 100, 400, 1900, 2000, 2023, 2024, 9999]
    days = []
    for y in years:
        o0, o1 = date(y, 1, 1).toordinal(), date(y, 12, 31).toordinal()
        days += list(range(o0, o1 + 1))
    days += [rng.randrange(1, MAXORD + 1) for _ in range(ctx.budget(30000, 300000))]
    month_tot = {}
    for o in days:
        d = date.fromordinal(o)
        dk = Dekad(d)
        ctx.evaluations += 1
        inp = dict(date=str(d))
        want_idx = 1 if d.day <= 10 else (2 if d.day <= 20 else 3)
        if (dk.idx, dk.year, dk.month) != (want_idx, d.year, d.month) or not 1 <= dk.yidx <= 36 or dk.yidx != 3 * (d.month - 1) + want_idx:
            ctx.fail("Dekad", inp, dict(idx=dk.idx, yidx=dk.yidx, year=dk.year, month=dk.month), dict(idx=want_idx), note="days 1-10, 11-20, 21-end; 36 per year")
            continue
        us = rng.choice([0, 1, 86399999999, rng.randrange(86400000000)])
        inst = datetime(d.year, d.month, d.day) + timedelta(microseconds=us)
        if Dekad(inst).raw != dk.raw:
            ctx.fail("Dekad", dict(instant=str(inst)), Dekad(inst).raw, dk.raw, note="intra-day time does not change the dekad")
        last = dk.raw == 359999
        try:
            s, e = dk.start_date, (None if last else dk.end_date)
        except Exception as ex:  # noqa: BLE001
            ctx.fail("Dekad", inp, repr(ex), "start_date / end_date defined")
            continue
        if not s <= inst or (e is not None and not inst <= e):
            ctx.fail("Dekad", dict(instant=str(inst)), [str(s), str(e)], "start_date <= instant <= end_date")
        if e is not None:
            if e + timedelta(microseconds=1) != (dk + 1).start_date:
                ctx.fail("Dekad", inp, str(e), str((dk + 1).start_date), note="consecutive dekads abut without gap or overlap")
            nd = dk.ndays
            mlen = (date(d.year + (d.month == 12), d.month % 12 + 1, 1) - date(d.year, d.month, 1)).days if not (d.year == 9999 and d.month == 12) else 31
            if nd != (10 if want_idx < 3 else mlen - 20):
                ctx.fail("Dekad", inp, nd, (10 if want_idx < 3 else mlen - 20), note="ndays 10 | 10 | month length - 20")
            month_tot.setdefault((d.year, d.month), {})[want_idx] = nd
        # round trips, order, arithmetic
        lab = str(dk)
        try:
            rt = Dekad(lab).raw
        except (ValueError, AssertionError) as ex:
            rt = repr(ex)
        if rt != dk.raw or Dekad(dk.raw).raw != dk.raw or Dekad(s).raw != dk.raw or dk.raw != 36 * d.year + 3 * (d.month - 1) + want_idx - 1:
            ctx.fail("Dekad", inp, dict(label=lab, raw=dk.raw, from_label=rt), "date <-> raw <-> label are mutually inverse")
            continue
        nn = rng.randint(-40, 40)
        if 36 <= dk.raw + nn < 360000:
            d2 = dk + nn
            ok = ((d2 - dk) == nn and (d2 - nn) == dk and (nn + dk) == d2 and hash(Dekad(dk.raw)) == hash(dk)
                  and (d2 > dk) == (nn > 0) and (d2 < dk) == (nn < 0) and (d2 >= dk) == (nn >= 0) and (d2 <= dk) == (nn <= 0) and (d2 == dk) == (nn == 0)
                  and ((d2.start_date > s) == (nn > 0)))
            if not ok:
                ctx.fail("Dekad", dict(inp, n=nn), "arithmetic / order law broken", "(d+n)-d == n, (d+n)-n == d, order follows chronology, equal dekads hash equally")
    for (y, m), parts in month_tot.items():
        if len(parts) == 3:
            mlen = (date(y + (m == 12), m % 12 + 1, 1) - date(y, m, 1)).days if not (y == 9999 and m == 12) else 31
            if sum(parts.values()) != mlen:
                ctx.fail("Dekad", dict(year=y, month=m), parts, mlen, note="ndays of the three dekads sum to the month length")
    ctx.count("dates checked on the real class", len(days))
    ctx.nontrivial.update(hash(("day", o)) for o in days)
    # the last dekad: end_date outside datetime's range
    try:
        Dekad(359999).end_date
        ctx.fail("Dekad", dict(raw=359999), "end_date returned", "ValueError/OverflowError (outside datetime's range) as stated in the property")
    except (ValueError, OverflowError):
        pass

    # accessor element-wise
    stamps = [pd.Timestamp(date.fromordinal(rng.randrange(693596, 740000))) + pd.Timedelta(seconds=rng.randrange(86400)) for _ in range(200)]
    # the instants at which a dekad ends / begins, to the microsecond (and a nanosecond axis): the accessor must not round the time
    for _ in range(60):
        dk0 = Dekad(rng.randrange(36 * 1950, 36 * 2100))
        stamps += [pd.Timestamp(dk0.end_date), pd.Timestamp(dk0.start_date), pd.Timestamp(dk0.end_date) - pd.Timedelta(microseconds=rng.choice([1, 499999, 500000])),
                   pd.Timestamp(dk0.start_date) + pd.Timedelta(microseconds=rng.choice([1, 499999, 500001]))]
    times = pd.DatetimeIndex(stamps).sort_values()
    da = xr.DataArray(np.arange(len(times)), dims=("time",), coords={"time": times})
    acc = da.time.dekad
    cols = dict(idx=acc.idx.values, yidx=acc.yidx.values, ndays=acc.ndays.values, label=acc.label.values, raw=acc.raw.values,
                start=acc.start_date.values, end=acc.end_date.values)
    for i, t in enumerate(times):
        dk = Dekad(t.to_pydatetime())
        ok = (cols["idx"][i] == dk.idx and cols["yidx"][i] == dk.yidx and cols["ndays"][i] == dk.ndays and cols["label"][i] == str(dk) and cols["raw"][i] == dk.raw
              and pd.Timestamp(cols["start"][i]) == pd.Timestamp(dk.start_date) and pd.Timestamp(cols["end"][i]) == pd.Timestamp(dk.end_date))
        ctx.evaluations += 1
        if not ok:
            ctx.fail(".dekad accessor", dict(time=str(t)), {k: str(v[i]) for k, v in cols.items()}, "element-wise equal to the scalar class")
    ctx.count("accessor elements", len(times))
    # nanosecond axes at the two ends of the nanosecond range: the dekads of 1677-09-21.. and 2262-04-11.. start / end outside it
    edge = pd.DatetimeIndex([pd.Timestamp("1677-09-25 12:00"), pd.Timestamp("1677-10-05"), pd.Timestamp("2000-02-29"), pd.Timestamp("2262-04-05"), pd.Timestamp("2262-04-11 06:00")]).as_unit("ns")
    try:
        acc3 = xr.DataArray(np.arange(len(edge)), dims=("time",), coords={"time": edge}).time.dekad
        got3 = dict(start=acc3.start_date.values, end=acc3.end_date.values, raw=acc3.raw.values)
        for i, tt in enumerate(edge):
            dk = Dekad(tt.to_pydatetime())
            ctx.evaluations += 1
            if not (got3["raw"][i] == dk.raw and pd.Timestamp(got3["start"][i]) == pd.Timestamp(dk.start_date) and pd.Timestamp(got3["end"][i]) == pd.Timestamp(dk.end_date)):
                ctx.fail(".dekad accessor", dict(time=str(tt), axis="datetime64[ns]"), dict(start=str(got3["start"][i]), end=str(got3["end"][i])),
                         dict(start=str(dk.start_date), end=str(dk.end_date)), note="element-wise equal to the scalar class")
    except Exception as e:  # noqa: BLE001
        ctx.fail(".dekad accessor", dict(times=[str(v) for v in edge], axis="datetime64[ns]"), repr(e)[:160], "no exception: the scalar class handles these instants")
    ctx.count("accessor elements at the ends of the ns range", len(edge))
    # time axes of other resolutions (NumPy day / second / millisecond arrays, also outside the nanosecond range of pandas)
    for unit in ("D", "s", "ms", "us"):
        days = sorted(rng.sample(range(693596, 740000), 40)) + ([rng.randrange(1, 500000) for _ in range(6)] if unit != "us" else [])
        arr = np.array([np.datetime64(date.fromordinal(o).isoformat(), unit) for o in sorted(set(days))])
        try:
            da2 = xr.DataArray(np.arange(len(arr)), dims=("time",), coords={"time": arr})
            acc2 = da2.time.dekad
            raw2, lab2 = acc2.raw.values, acc2.label.values
        except Exception as e:  # noqa: BLE001
            ctx.count(f"accessor on datetime64[{unit}] axis not supported by xarray/pandas: {type(e).__name__}")
            continue
        for i, v in enumerate(arr):
            d0 = v.astype("datetime64[D]").astype(object)
            dk = Dekad(d0)
            ctx.evaluations += 1
            if not (raw2[i] == dk.raw and lab2[i] == str(dk)):
                ctx.fail(".dekad accessor", dict(time=str(v), axis_dtype=f"datetime64[{unit}]", position=i), dict(raw=int(raw2[i]), label=str(lab2[i])), dict(raw=dk.raw, label=str(dk)),
                         note="element-wise equal to the scalar class, whatever the resolution of the time axis")
                break
        ctx.count(f"accessor elements, datetime64[{unit}] axis", len(arr))
    core.acc_dispatch(ctx, ['period', 'tbinit', 'anom'])
    ctx.trusted += ["harness/translate_dekad.py (AST -> Lean translator)", "Hdc/Model/PyDate.lean (model of CPython datetime, validated against CPython)",
                    "native model driver", "harness/props/c11.py oracle"]


def search(ctx):
    ctx.quick = False
    run(ctx)
