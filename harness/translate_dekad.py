#!/venv/bin/python
"""Translator: /repo/hdc/algo/dekad.py  ->  lean/Hdc/Gen/Dekad.lean

Parses the class `Dekad` with `ast` and emits one Lean definition per method / property over `Int`
(the `_dkd` field), using Hdc.Py for `//`, `%`, `min`, string slicing, `int()` and f-string padding and
Hdc.PyDate for `datetime(...)` / `timedelta(microseconds=...)`.  The supported subset is deliberately small;
anything outside it raises `Unsupported` (exit 1): the C11 check then treats the theorems as broken obligations
and searches the real class for a failing date.

Conventions of the generated code:
  * a Dekad object is its raw integer `raw : Int`;
  * `Dekad(x)` for x a str / date / int becomes `ofStr x` / `ofDate y m d` / `x`;
  * methods that can raise return `Except PyErr _`.
"""
import ast
import hashlib
import os
import sys
from pathlib import Path

REPO = Path(os.environ.get("HDC_REPO", "/repo"))
SRC = REPO / "hdc" / "algo" / "dekad.py"
OUT = Path(__file__).resolve().parent.parent / "lean" / "Hdc" / "Gen" / "Dekad.lean"


class Unsupported(Exception):
    pass


BIN = {ast.Add: "+", ast.Sub: "-", ast.Mult: "*"}
CMP = {ast.Lt: "<", ast.LtE: "≤", ast.Gt: ">", ast.GtE: "≥", ast.Eq: "=", ast.NotEq: "≠"}
INT_PROPS = {"year", "month", "day", "idx", "yidx", "raw"}


class Tr:
    """Expression translator. `env` maps Python local names to Lean terms of type Int (or String)."""

    def __init__(self, env, monadic=False):
        self.env = {"self": "raw", **env}
        self.binds = []          # monadic binds emitted before the expression: (name, lean term)
        self.k = 0
        self.monadic = monadic

    def fresh(self):
        self.k += 1
        return f"t{self.k}"

    def bind(self, term):
        v = self.fresh()
        self.binds.append((v, term))
        return v

    def expr(self, e):
        if isinstance(e, ast.Constant):
            if isinstance(e.value, bool) or not isinstance(e.value, (int, str)):
                raise Unsupported(f"constant {e.value!r}")
            return str(e.value) if isinstance(e.value, int) else '"' + e.value + '"'
        if isinstance(e, ast.Name):
            if e.id in self.env:
                return self.env[e.id]
            raise Unsupported(f"name {e.id}")
        if isinstance(e, ast.Attribute):
            base = e.value
            if isinstance(base, ast.Name) and base.id == "self":
                if e.attr == "_dkd":
                    return "raw"
                if e.attr in INT_PROPS:
                    return f"({e.attr} raw)"
                if e.attr in ("start_date", "end_date"):
                    return self.bind(f"{e.attr} raw")
                raise Unsupported(f"self.{e.attr}")
            if isinstance(base, ast.Name) and base.id in self.env and e.attr in ("year", "month", "day"):
                return f"{self.env[base.id]}_{e.attr}"
            if isinstance(base, ast.Name) and base.id in self.env and e.attr == "_dkd":
                return self.env[base.id]
            if e.attr == "start_date":
                inner = self.expr(base)
                return self.bind(f"start_date {inner}")
            if e.attr == "days":
                inner = self.expr(base)
                return f"(PyDate.TimeDelta.days {inner})"
            raise Unsupported(f"attribute {ast.dump(e)}")
        if isinstance(e, ast.BinOp):
            if isinstance(e.op, ast.FloorDiv):
                return f"(Py.fdiv {self.expr(e.left)} {self.expr(e.right)})"
            if isinstance(e.op, ast.Mod):
                return f"(Py.fmod {self.expr(e.left)} {self.expr(e.right)})"
            if type(e.op) in BIN:
                # typed dispatch for datetime arithmetic
                lk, rk = self.kind(e.left), self.kind(e.right)
                if lk == "dekad" and rk == "int" and isinstance(e.op, ast.Add):
                    return f"(add {self.expr(e.left)} {self.expr(e.right)})"
                if lk == "datetime" and rk == "timedelta":
                    f = "addDelta" if isinstance(e.op, ast.Add) else "subDelta"
                    return self.bind(f"PyDate.DateTime.{f} {self.expr(e.left)} {self.expr(e.right)}")
                if lk == "datetime" and rk == "datetime" and isinstance(e.op, ast.Sub):
                    return f"(PyDate.DateTime.diff {self.expr(e.left)} {self.expr(e.right)})"
                if lk == "timedelta" and rk == "timedelta" and isinstance(e.op, ast.Add):
                    return f"(PyDate.TimeDelta.add {self.expr(e.left)} {self.expr(e.right)})"
                if lk == rk == "int":
                    return f"({self.expr(e.left)} {BIN[type(e.op)]} {self.expr(e.right)})"
                raise Unsupported(f"binop kinds {lk} {rk}")
            raise Unsupported(f"binop {type(e.op).__name__}")
        if isinstance(e, ast.Call):
            fn = e.func
            if isinstance(fn, ast.Name):
                if fn.id == "min" and len(e.args) == 2:
                    return f"(min {self.expr(e.args[0])} {self.expr(e.args[1])})"
                if fn.id == "int" and len(e.args) == 1:
                    return self.bind(f"Py.int {self.expr(e.args[0])}")
                if fn.id == "hash" and len(e.args) == 1:
                    return self.expr(e.args[0])          # hash of an int is a function of the int
                if fn.id == "datetime" and len(e.args) == 3 and not e.keywords:
                    a = " ".join(self.expr(x) for x in e.args)
                    return self.bind(f"PyDate.datetime {a}")
                if fn.id == "timedelta" and not e.args and len(e.keywords) == 1 and e.keywords[0].arg == "microseconds":
                    return f"(PyDate.microseconds {self.expr(e.keywords[0].value)})"
                if fn.id == "Dekad" and len(e.args) == 1:
                    return self.expr(e.args[0])          # Dekad(int): the raw integer itself
                if fn.id == "str" and len(e.args) == 1 and isinstance(e.args[0], ast.Name) and e.args[0].id == "self":
                    return "(str raw)"
            raise Unsupported(f"call {ast.dump(fn)}")
        if isinstance(e, ast.Subscript):
            s = e.slice
            if isinstance(s, ast.Slice) and s.step is None:
                lo = "none" if s.lower is None else f"(some ({self.expr(s.lower)}))"
                hi = "none" if s.upper is None else f"(some ({self.expr(s.upper)}))"
                return f"(Py.slice {self.expr(e.value)} {lo} {hi})"
            if isinstance(s, ast.UnaryOp) and isinstance(s.op, ast.USub) and isinstance(s.operand, ast.Constant):
                k = s.operand.value
                hi = "none" if k == 1 else f"(some (-{k - 1}))"
                return f"(Py.slice {self.expr(e.value)} (some (-{k})) {hi})"
            raise Unsupported("subscript")
        if isinstance(e, ast.UnaryOp) and isinstance(e.op, ast.USub):
            return f"(-{self.expr(e.operand)})"
        if isinstance(e, ast.Compare):
            parts, left = [], e.left
            for op, right in zip(e.ops, e.comparators):
                if type(op) not in CMP:
                    raise Unsupported("compare op")
                parts.append(f"{self.expr(left)} {CMP[type(op)]} {self.expr(right)}")
                left = right
            return "(decide (" + " ∧ ".join(parts) + "))"
        if isinstance(e, ast.JoinedStr):
            out = []
            for v in e.values:
                if isinstance(v, ast.Constant):
                    out.append('"' + v.value + '"')
                elif isinstance(v, ast.FormattedValue):
                    spec = ""
                    if v.format_spec is not None:
                        spec = "".join(x.value for x in v.format_spec.values)
                    if spec == "":
                        w = 0
                    elif spec.startswith("0") and spec.endswith("d") and spec[1:-1].isdigit():
                        w = int(spec[1:-1])
                    else:
                        raise Unsupported(f"format spec {spec}")
                    out.append(f"Py.fmtInt {w} {self.expr(v.value)}")
                else:
                    raise Unsupported("f-string part")
            return "(" + " ++ ".join(out) + ")"
        if isinstance(e, ast.Tuple):
            raise Unsupported("tuple")
        raise Unsupported(type(e).__name__)

    def kind(self, e):
        """coarse static type of an expression: int | dekad | datetime | timedelta"""
        if isinstance(e, ast.Constant):
            return "int"
        if isinstance(e, ast.Name):
            return "dekad" if e.id == "self" else "int"
        if isinstance(e, ast.Attribute):
            if e.attr in ("start_date", "end_date"):
                return "datetime"
            return "int"
        if isinstance(e, ast.Call) and isinstance(e.func, ast.Name):
            return {"datetime": "datetime", "timedelta": "timedelta", "Dekad": "dekad"}.get(e.func.id, "int")
        if isinstance(e, ast.BinOp):
            lk, rk = self.kind(e.left), self.kind(e.right)
            if lk == "datetime" and rk == "timedelta":
                return "datetime"
            if lk == "datetime" and rk == "datetime":
                return "timedelta"
            if lk == "timedelta":
                return "timedelta"
            if lk == "dekad" and rk == "int":
                return "dekad"
            return "int"
        return "int"


def wrap(tr: Tr, term: str, pure=True):
    if not tr.binds:
        return term
    body = "".join(f"  let {v} ← {t}\n" for v, t in tr.binds)
    return "do\n" + body + ("  pure " if pure else "  ") + term


def ret_expr(fn):
    body = [s for s in fn.body if not (isinstance(s, ast.Expr) and isinstance(s.value, ast.Constant))]
    if len(body) == 1 and isinstance(body[0], ast.Return):
        return body[0].value
    raise Unsupported(f"body of {fn.name}")


def translate(src: str) -> str:
    mod = ast.parse(src)
    cls = next((n for n in mod.body if isinstance(n, ast.ClassDef) and n.name == "Dekad"), None)
    if cls is None:
        raise Unsupported("class Dekad not found")
    fns = {}
    for n in cls.body:
        if isinstance(n, ast.FunctionDef):
            if any(isinstance(d, ast.Name) and d.id == "overload" for d in n.decorator_list):
                continue
            fns[n.name] = n
    out = []
    emit = out.append

    # ---- __init__: three branches
    init = fns["__init__"]
    arg = init.args.args[1].arg
    node = next(s for s in init.body if isinstance(s, ast.If))
    branches = []
    while True:
        branches.append((node.test, node.body))
        if len(node.orelse) == 1 and isinstance(node.orelse[0], ast.If):
            node = node.orelse[0]
        else:
            branches.append((None, node.orelse))
            break
    def isinst(test):
        if not (isinstance(test, ast.Call) and isinstance(test.func, ast.Name) and test.func.id == "isinstance"):
            raise Unsupported("constructor dispatch")
        t = test.args[1]
        return {t.id} if isinstance(t, ast.Name) else {x.id for x in t.elts}
    seen = set()
    for test, body in branches:
        kinds = {"int"} if test is None else isinst(test)
        if kinds == {"str"}:
            tr = Tr({arg: arg}, monadic=True)
            lines = []
            for s in body:
                if isinstance(s, ast.Assign) and isinstance(s.targets[0], ast.Tuple):
                    names = [t.id for t in s.targets[0].elts]
                    for nm, val in zip(names, s.value.elts):
                        v = tr.expr(val)
                        tr.env[nm] = v
                elif isinstance(s, ast.Assert):
                    c = tr.expr(s.test)
                    tr.binds.append(("_", f"Py.assert {c}"))
                elif isinstance(s, ast.Assign) and isinstance(s.targets[0], ast.Attribute) and s.targets[0].attr == "_dkd":
                    res = tr.expr(s.value)
                else:
                    raise Unsupported("statement in str branch")
            emit(f"/-- `Dekad(<str>)` -/\ndef ofStr ({arg} : String) : Except PyErr Int := {wrap(tr, res)}\n")
            seen.add("str")
        elif kinds == {"date", "datetime"}:
            env = {}
            res = None
            for s in body:
                if isinstance(s, ast.Assign) and isinstance(s.targets[0], ast.Name):
                    env[s.targets[0].id] = "d"
                elif isinstance(s, ast.Assign) and isinstance(s.targets[0], ast.Attribute) and s.targets[0].attr == "_dkd":
                    tr = Tr({k: "d" for k in env} | {arg: "d"})
                    res = tr.expr(s.value)
                    if tr.binds:
                        raise Unsupported("date branch must be pure")
                else:
                    raise Unsupported("statement in date branch")
            emit(f"/-- `Dekad(<date or datetime>)` from its civil fields -/\ndef ofDate (d_year d_month d_day : Int) : Int := {res}\n")
            seen.add("date")
        elif kinds == {"int"}:
            if not (len(body) == 1 and isinstance(body[0], ast.Assign) and isinstance(body[0].value, ast.Name) and body[0].value.id == arg):
                raise Unsupported("int branch")
            emit("/-- `Dekad(<int>)` -/\ndef ofRaw (raw : Int) : Int := raw\n")
            seen.add("int")
        else:
            raise Unsupported(f"constructor branch {kinds}")
    if seen != {"str", "date", "int"}:
        raise Unsupported(f"constructor branches {seen}")

    # ---- integer properties
    for name in ("year", "month", "day", "idx", "yidx", "raw"):
        tr = Tr({})
        res = tr.expr(ret_expr(fns[name]))
        if tr.binds:
            raise Unsupported(name)
        emit(f"def {name} (raw : Int) : Int := {res}\n")
    tr = Tr({})
    emit(f"/-- `__str__` -/\ndef str (raw : Int) : String := {tr.expr(ret_expr(fns['__str__']))}\n")
    tr = Tr({})
    emit(f"/-- `__hash__` as a function of the raw integer (`hash` of an int) -/\ndef hashKey (raw : Int) : Int := {tr.expr(ret_expr(fns['__hash__']))}\n")

    # ---- arithmetic
    for name, lean in (("__add__", "add"), ("__radd__", "radd")):
        fn = fns[name]
        tr = Tr({fn.args.args[1].arg: "n"})
        emit(f"/-- `{name}` -/\ndef {lean} (raw n : Int) : Int := {tr.expr(ret_expr(fn))}\n")
    sub = fns["__sub__"]
    oth = sub.args.args[1].arg
    st = [s for s in sub.body if not (isinstance(s, ast.Expr) and isinstance(s.value, ast.Constant))]
    if not (len(st) == 2 and isinstance(st[0], ast.If) and isinstance(st[1], ast.Return)):
        raise Unsupported("__sub__")
    tr = Tr({oth: "n"})
    emit(f"/-- `d - n` -/\ndef subInt (raw n : Int) : Int := {tr.expr(st[0].body[0].value)}\n")
    tr = Tr({oth: "other"})
    emit(f"/-- `d2 - d1` -/\ndef subDekad (raw other : Int) : Int := {tr.expr(st[1].value)}\n")

    # ---- comparisons: body is `coerce; return self._dkd <op> other._dkd`
    for name, lean in (("__eq__", "eq"), ("__lt__", "lt"), ("__gt__", "gt"), ("__le__", "le"), ("__ge__", "ge")):
        fn = fns[name]
        rets = [s for s in fn.body if isinstance(s, ast.Return) and isinstance(s.value, ast.Compare)]
        if len(rets) != 1:
            raise Unsupported(name)
        tr = Tr({fn.args.args[1].arg: "other"})
        emit(f"/-- `{name}` on two dekads -/\ndef {lean} (raw other : Int) : Bool := {tr.expr(rets[0].value)}\n")

    # ---- dates
    tr = Tr({}, monadic=True)
    res = tr.expr(ret_expr(fns["start_date"]))
    emit(f"def start_date (raw : Int) : Except PyErr PyDate.DateTime := {wrap(tr, res) if res.startswith('t') and len(tr.binds) > 1 else tr.binds[0][1]}\n")
    tr = Tr({}, monadic=True)
    res = tr.expr(ret_expr(fns["end_date"]))
    emit(f"def end_date (raw : Int) : Except PyErr PyDate.DateTime := {wrap(tr, res)}\n")
    tr = Tr({}, monadic=True)
    res = tr.expr(ret_expr(fns["ndays"]))
    emit(f"def ndays (raw : Int) : Except PyErr Int := {wrap(tr, res)}\n")
    return "".join(out)


HEADER = """import Hdc.Model.PyDate
/-
GENERATED by harness/translate_dekad.py from {src} (sha256 {sha}).  Do not edit.
A `Dekad` object is represented by its raw integer.
-/
namespace Hdc.Gen.Dekad
open Hdc Hdc.Py

"""


def main():
    src = SRC.read_text()
    try:
        body = translate(src)
    except (Unsupported, KeyError, StopIteration, IndexError, AttributeError) as e:
        print(f"translate_dekad: unsupported construct: {e!r}", file=sys.stderr)
        return 1
    text = HEADER.format(src="hdc/algo/dekad.py", sha=hashlib.sha256(src.encode()).hexdigest()[:16]) + body + "\nend Hdc.Gen.Dekad\n"
    OUT.parent.mkdir(parents=True, exist_ok=True)
    if not OUT.exists() or OUT.read_text() != text:
        tmp = OUT.with_suffix(".tmp")
        tmp.write_text(text)
        tmp.replace(OUT)
        print(f"translate_dekad: wrote {OUT}")
    return 0


if __name__ == "__main__":
    sys.exit(main())
