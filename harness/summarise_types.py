#!/venv/bin/python
"""Type-level summaries of the compiled kernels of hdc.algo.ops  ->  lean/Hdc/Gen/Types.lean

The typing is NOT re-implemented here.  Every kernel is compiled by Numba and the tables are read off Numba's own results:

    guvectorize :  gufunc.gufunc_builder.nb_func.overloads[sig]   (one CompileResult per declared loop; the gufunc object is
                   obtained from the `lazycompile` wrapper's closure cells and put back into its cache cell, so the package
                   uses exactly the object that is inspected)
    njit / jit  :  dispatcher.overloads[sig]  (helpers: the signatures Numba compiled while typing the kernels that call them;
                   entry points without declared signature: the documented argument types of ENTRY_SIGS, `dispatcher.compile`)
    per overload:  the typed IR + typemap + calltypes of `cres.type_annotation`, summarised by an observer wrapped around
                   Numba's `annotate_types` pass (the IR exactly as handed to lowering; lowering of parallel=True functions
                   later rewrites that IR in place, and fused array expressions are compiled as scalar kernels only during
                   lowering: a second observer around the lowering pass attributes those to the enclosing function)
    NumPy       :  `ufunc.types` (declared loops in resolution order), `ufunc.resolve_dtypes` on a probe grid

What is written (data only; vocabulary in lean/Hdc/Model/Types.lean, theorems in lean/Hdc/Props/Types.lean):
  * per kernel: the ordered declared loops (dtypes + layouts), NumPy's resolution of the probe grid;
  * per (function, signature) reachable from a kernel: local variables with their inferred types; array stores
    `(array, role, array dtype, value dtype, via)`; arithmetic whose result type is narrower than 64 bit (binops, unary ops,
    library calls, the scalar kernels of fused array expressions); accumulations `x = x (+) e`, `a[i] = a[i] (+) e`;
    explicit / implicit casts (`float64(x)`, `int(x)`, `.astype`, SSA unification, return, coerced call arguments).
Sites are identified by (function, normalised text of the enclosing source statement - `ast.unparse`, header only for
compound statements), never by line number; records are sets, so comments / blank lines / reordering leave the table unchanged.

Processes: one fresh interpreter per kernel / entry signature (spawn, max_tasks_per_child=1, up to --jobs=16 at a time),
each importing hdc.algo from HDC_REPO (first on sys.path) and compiling only its own kernel, so that every kernel is the
FIRST to trigger the compilation of its jit helpers: a helper inherits fastmath / error_model from that first caller, and
the effective flags of every compilation are recorded (`Flags`).  A helper typed by several workers under the same flags
must be typed identically; under different flags it yields one `FnTyping` per flag set.
Numba's on-disk cache is not used (private empty NUMBA_CACHE_DIR; the package does not request caching, and cached
compile results carry no type annotation anyway): every run compiles the current source.

usage:  HDC_REPO=<tree> /venv/bin/python harness/summarise_types.py [--out FILE] [--json FILE] [--jobs N] [--timing]
If the typing of any kernel cannot be obtained:  `FAILED Hdc.Gen.Types: <reason>`, exit 1, and no output file is written.
"""
import ast
import hashlib
import importlib
import inspect
import json
import os
import pkgutil
import re
import sys
import tempfile
import time
from pathlib import Path

T0 = time.time()
REPO = Path(os.environ.get("HDC_REPO", "/repo")).resolve()
HERE = Path(__file__).resolve().parent
OUT = HERE.parent / "lean" / "Hdc" / "Gen" / "Types.lean"
MODULE = "Hdc.Gen.Types"


class Failed(Exception):
    pass


def fail(msg):
    print(f"FAILED {MODULE}: {msg}")
    sys.exit(1)


# ------------------------------------------------------------------------------------------------ environment
# a private, empty cache directory: nothing compiled from another source tree can ever be picked up
# (the package does not use cache=True; the typed IR is not part of Numba's on-disk cache anyway)
os.environ["NUMBA_CACHE_DIR"] = tempfile.mkdtemp(prefix="numba-types-")
os.environ.pop("NUMBA_DISABLE_JIT", None)
sys.path.insert(0, str(REPO))
if any(m == "hdc" or m.startswith("hdc.") for m in sys.modules):
    fail("hdc already imported: need a fresh interpreter")

import numpy as np  # noqa: E402
import numba  # noqa: E402
from numba.core import ir, types  # noqa: E402
from numba.core.analysis import compute_cfg_from_blocks  # noqa: E402
from numba.core.dispatcher import Dispatcher  # noqa: E402
from numba.np.ufunc.gufunc import GUFunc  # noqa: E402

try:
    from numba.parfors.parfor import Parfor  # noqa: E402
except Exception:  # pragma: no cover
    Parfor = ()

# ------------------------------------------------------------------------------------------------ documented entry points
# njit entry points have no declared signature: the argument types they are documented to be called with
# (accessors.py / the tests).  Everything else (gufunc loops, helper signatures) is taken from the package itself.
f32, f64, i16, i32, i64, u8 = types.float32, types.float64, types.int16, types.int32, types.int64, types.uint8


def A(dt, nd, layout="C"):
    return types.Array(dt, nd, layout)


ENTRY_SIGS = {
    "autocorr": [(A(f32, 3), types.Omitted(None)), (A(i16, 3), i64)],
    "autocorr_tyx": [(A(i16, 3), i64), (A(f32, 3), types.none)],
    "do_mean": [
        (A(f32, 3), A(u8, 2), i64, f64, i64, types.Omitted(np.float32)),
        (A(i16, 3), A(i16, 2), i64, i64, i64, types.NumberClass(f64)),
    ],
    "gammastd_yxt": [(A(i16, 3), i64, i64, i64), (A(f32, 3), f64, types.Omitted(None), types.Omitted(None))],
    "mann_kendall_trend_yxt": [(A(i16, 3),), (A(f32, 3),)],
    "ws2doptvplc_tyx": [(A(i16, 3), f64, i64)],
    # helper that no kernel calls (twin of `_ws2doptvp`): typed with the signature its sibling is called with
    "_ws2dwcvp": [(A(f64, 1), A(f64, 1), f64, A(f64, 1), types.boolean)],
}

# ------------------------------------------------------------------------------------------------ dtype vocabulary
DT = {
    "bool": "b", "uint8": "u8", "uint16": "u16", "uint32": "u32", "uint64": "u64",
    "int8": "i8", "int16": "i16", "int32": "i32", "int64": "i64", "float32": "f32", "float64": "f64",
}
NP_GRID = ["bool", "uint8", "uint16", "uint32", "uint64", "int8", "int16", "int32", "int64", "float32", "float64"]


def dt_of_scalar(ty):
    """numba scalar type -> DType constructor name ('other' when not a plain number)"""
    if isinstance(ty, types.Literal):
        ty = ty.literal_type
    if isinstance(ty, types.Optional):
        return "other"
    if isinstance(ty, types.Boolean):
        return "b"
    if isinstance(ty, (types.Integer, types.Float)):
        return DT.get(str(ty), "other")
    return "other"


def ty_of(ty):
    """numba type -> (dtype, ndim, layout)   layout: C F A for arrays, S for scalars, - for anything else"""
    if isinstance(ty, types.Array):
        return (dt_of_scalar(ty.dtype), ty.ndim, ty.layout)
    d = dt_of_scalar(ty)
    if d != "other":
        return (d, 0, "S")
    return ("other", 0, "-")


def is_num(ty):
    return dt_of_scalar(ty) not in ("other",)


def elem_dt(ty):
    """dtype carried by a value: array -> its dtype, number -> its dtype"""
    if isinstance(ty, types.Array):
        return dt_of_scalar(ty.dtype)
    return dt_of_scalar(ty)


WIDE = {"f64", "i64", "u64", "b", "other"}


def is_narrow_result(ty):
    if isinstance(ty, types.Array):
        return dt_of_scalar(ty.dtype) not in WIDE
    if isinstance(ty, types.Literal):
        return False
    return dt_of_scalar(ty) not in WIDE


# ------------------------------------------------------------------------------------------------ source sites
class Sources:
    """(file, line) -> normalised text of the smallest enclosing statement (header only for compound statements)"""

    def __init__(self):
        self.cache = {}

    def _index(self, filename):
        if filename in self.cache:
            return self.cache[filename]
        idx = None
        try:
            p = Path(filename).resolve()
            if str(p).startswith(str(REPO)):
                tree = ast.parse(p.read_text())
                idx = [n for n in ast.walk(tree) if isinstance(n, ast.stmt)]
        except Exception:
            idx = None
        self.cache[filename] = idx
        return idx

    @staticmethod
    def _header(node):
        if isinstance(node, (ast.For, ast.AsyncFor)):
            return f"for {ast.unparse(node.target)} in {ast.unparse(node.iter)}:"
        if isinstance(node, ast.While):
            return f"while {ast.unparse(node.test)}:"
        if isinstance(node, ast.If):
            return f"if {ast.unparse(node.test)}:"
        if isinstance(node, (ast.With, ast.AsyncWith)):
            return "with " + ", ".join(ast.unparse(i) for i in node.items) + ":"
        if isinstance(node, (ast.FunctionDef, ast.AsyncFunctionDef)):
            return f"def {node.name}({ast.unparse(node.args)}):"
        if isinstance(node, ast.Try):
            return "try:"
        return " ".join(ast.unparse(node).split())

    def site(self, loc):
        idx = self._index(loc.filename)
        if idx is None:
            return "<generated>"
        best = None
        for n in idx:
            end = getattr(n, "end_lineno", n.lineno)
            if isinstance(n, (ast.FunctionDef, ast.AsyncFunctionDef)) and n.decorator_list:
                lo = min(d.lineno for d in n.decorator_list)
            else:
                lo = n.lineno
            if lo <= loc.line <= end:
                if best is None or (end - lo) <= best[0]:
                    best = (end - lo, n)
        if best is None:
            return "<generated>"
        return self._header(best[1])


SRC = Sources()


# ------------------------------------------------------------------------------------------------ typed IR walking
def strip_ssa(name):
    return re.sub(r"(\.\d+)+$", "", name.lstrip("$"))


def callee_name(ty):
    if isinstance(ty, types.Dispatcher):
        return "jit:" + ty.dispatcher.py_func.__name__
    if isinstance(ty, types.NumberClass):
        return "cast:" + str(ty.instance_type)
    if isinstance(ty, types.BoundFunction):
        k = ty.typing_key
        return "method:" + (k if isinstance(k, str) else getattr(k, "__name__", str(k)))
    if isinstance(ty, types.Function):
        k = ty.typing_key
        if isinstance(k, np.ufunc):
            return "ufunc:" + k.__name__
        if isinstance(k, str):
            return "fn:" + k
        mod = getattr(k, "__module__", "") or ""
        nm = getattr(k, "__name__", None) or str(k)
        mod = {"numpy": "np", "builtins": "", "math": "math", "_operator": "operator"}.get(mod, mod)
        if mod.startswith("numpy"):
            mod = "np"
        return "fn:" + (mod + "." if mod else "") + nm
    return "?:" + str(ty)[:40]


OUT_POS = {"fn:np.round": 2, "fn:np.around": 2, "fn:np.round_": 2, "fn:np.clip": 3}


class FnSummary:
    def __init__(self, pyname, ta):
        """built inside Numba's `annotate_types` pass, i.e. on the typed IR exactly as it is handed to lowering
        (lowering of `parallel=True` functions later rewrites that IR in place).  Array roles: `p<i>` = view of parameter i,
        `output` = a returned array, `loc` = allocated here and not returned; for gufunc kernels the trailing `p<i>`
        are mapped to `output` afterwards (see `plain`)."""
        self.fn = pyname
        code = ta.func_id.func.__code__
        self.uservars = set(code.co_varnames) | set(code.co_cellvars) | set(code.co_freevars)
        self.tm = ta.typemap
        self.ct = ta.calltypes
        self.blocks = ta.blocks
        self.vars = {}
        self.stores = set()
        self.narrow = set()
        self.accums = set()
        self.casts = set()
        self.callees = []          # (dispatcher, argtypes)
        self.stmts = []            # (stmt, in_loop)
        self.defs = {}             # var name -> list of values (ir.Expr / ir.Var / ir.Const / ir.Arg ...)
        self.arrayexpr_sites = {}
        self.children = []
        self.has_parfor = False
        self._collect(self.blocks, False)
        self._roles()
        self._scan()

    # -- flatten
    def _collect(self, blocks, forced_loop):
        try:
            cfg = compute_cfg_from_blocks(blocks)
            inloop = set()
            for lp in cfg.loops().values():
                inloop |= set(lp.body)
        except Exception:
            inloop = set(blocks)
        for lbl in sorted(blocks):
            il = forced_loop or (lbl in inloop)
            for st in blocks[lbl].body:
                if Parfor and isinstance(st, Parfor):
                    self.has_parfor = True
                    self._collect({-1: st.init_block}, il)
                    self._collect(st.loop_body, True)
                    continue
                self.stmts.append((st, il))
                if isinstance(st, ir.Assign):
                    self.defs.setdefault(st.target.name, []).append(st.value)

    def ty(self, name):
        try:
            return self.tm[name]
        except KeyError:
            raise Failed(f"{self.fn}: Numba's typemap has no type for variable {name}")

    def base(self, name):
        """SSA / parfor-renamed variable -> source-level local name; anything that is not a local of the Python function
        (or of a closure inlined into it) is a temporary and keeps its `$`-name"""
        n = name
        b = strip_ssa(n)
        if b in self.uservars:
            return b
        m = re.match(r"^closure__locals__(_?[A-Za-z]\w*?)__v\d+_([A-Za-z]\w*)$", b)
        if m and not m.group(2).startswith("_v"):
            return "closure." + m.group(2)
        return n if n.startswith("$") else "$" + n

    def is_temp(self, name):
        return self.base(name).startswith("$")

    def resolve(self, v, depth=0):
        """follow copies of temporaries: returns an ir node (Var of a named variable, Expr, Const, Arg, ...)"""
        while isinstance(v, ir.Var) and depth < 50:
            ds = self.defs.get(v.name, [])
            if self.is_temp(v.name) and len(ds) == 1:
                v = ds[0]
                depth += 1
            else:
                return v
        return v

    # -- array roots and roles
    def _roles(self):
        params = []
        for st, _ in self.stmts:
            if isinstance(st, ir.Assign) and isinstance(st.value, ir.Arg):
                params.append((st.value.index, st.target.name))
        params.sort()
        self.params = [n for _, n in params]
        self.role_of_root = {}
        for i, n in enumerate(self.params):
            self.role_of_root[n] = f"p{i}"
        self._root_cache = {}
        self.ret_index = {}
        for st, _ in self.stmts:
            if isinstance(st, ir.Return):
                for i, r in enumerate(self._returned(st.value)):
                    for root in self.roots(r):
                        if root not in self.role_of_root:
                            self.role_of_root[root] = "output"
                            self.ret_index[root] = i

    def _returned(self, v, depth=0):
        v = self.resolve(v)
        if depth > 20:
            return []
        if isinstance(v, ir.Var):
            out = [v.name] if isinstance(self.ty(v.name), types.Array) else []
            for d in self.defs.get(v.name, []):
                if isinstance(d, (ir.Var, ir.Expr)) and not (isinstance(d, ir.Var) and d.name == v.name):
                    if isinstance(d, ir.Expr) and d.op in ("cast", "build_tuple"):
                        out += self._returned_expr(d, depth + 1)
            return out
        if isinstance(v, ir.Expr):
            return self._returned_expr(v, depth + 1)
        return []

    def _returned_expr(self, e, depth):
        if e.op == "cast":
            return self._returned(e.value, depth)
        if e.op == "build_tuple":
            out = []
            for it in e.items:
                out += self._returned(it, depth)
            return out
        return []

    def roots(self, name, seen=None):
        """the allocation(s) / parameter(s) an array variable is a view of"""
        if name in self._root_cache:
            return self._root_cache[name]
        seen = seen or set()
        if name in seen:
            return set()
        seen = seen | {name}
        ds = self.defs.get(name, [])
        out = set()
        for d in ds:
            if isinstance(d, ir.Arg):
                out.add(name)
            elif isinstance(d, ir.Var):
                out |= self.roots(d.name, seen)
            elif isinstance(d, ir.Expr) and d.op in ("getitem", "static_getitem") and isinstance(self.ty(d.value.name), types.Array):
                out |= self.roots(d.value.name, seen)
            elif isinstance(d, ir.Expr) and d.op == "getattr" and d.attr in ("T", "real", "imag") and isinstance(self.ty(d.value.name), types.Array):
                out |= self.roots(d.value.name, seen)
            else:
                out.add(name)
        if not ds:
            out.add(name)
        if len(seen) == 1:
            self._root_cache[name] = out
        return out

    def role(self, name):
        rs = {self.role_of_root.get(r, "loc") for r in self.roots(name)}
        if "output" in rs:
            return "output"
        ps = sorted((r for r in rs if r.startswith("p")), key=lambda r: -int(r[1:]))
        return ps[0] if ps else "loc"

    def arr_label(self, name):
        rs = sorted({(f"ret{self.ret_index[r]}" if r in self.ret_index else self.base(r)) for r in self.roots(name)})
        return "|".join(rs) if rs else self.base(name)

    # -- value classification
    def val_dt(self, v):
        """dtype of a stored / cast value; small integer literals are typed `lit` / `litneg`"""
        r = self.resolve(v)
        lit = None
        if isinstance(r, ir.Const) and isinstance(r.value, int) and not isinstance(r.value, bool):
            lit = r.value
        ty = self.ty(v.name)
        if isinstance(ty, types.IntegerLiteral):
            lit = ty.literal_value
        if lit is not None and not isinstance(ty, types.Array):
            if 0 <= lit <= 127:
                return "lit"
            if -128 <= lit < 0:
                return "litneg"
        return elem_dt(ty)

    def expr_result(self, e):
        sig = self.ct.get(e)
        return None if sig is None else sig.return_type

    # -- the scan proper
    def _scan(self):
        for name, ty in self.tm.items():
            if name.startswith("arg.") or self.is_temp(name):
                continue
            self.vars.setdefault(self.base(name), set()).add(ty_of(ty) + (re.sub(r" at 0x[0-9a-f]+", "", str(ty)),))
        for st, il in self.stmts:
            site = SRC.site(st.loc)
            if isinstance(st, (ir.SetItem, ir.StaticSetItem)):
                self._store(st, site, st.target, st.value, "setitem")
                self._elem_accum(st, site, il)
            elif isinstance(st, ir.Assign):
                self._assign(st, site, il)
            elif isinstance(st, ir.SetAttr):
                raise Failed(f"{self.fn}: attribute store `{site}` is not modelled")

    def _store(self, st, site, target, value, via):
        aty = self.ty(target.name)
        if not isinstance(aty, types.Array):
            self.stores.add((site, self.base(target.name), "loc", "other", self.val_dt(value), via))
            return
        self.stores.add((site, self.arr_label(target.name), self.role(target.name), elem_dt(aty), self.val_dt(value), via))

    def _elem_accum(self, st, site, il):
        e = self.resolve(st.value)
        if not (isinstance(e, ir.Expr) and e.op in ("binop", "inplace_binop")):
            return
        tr = self.roots(st.target.name)
        for side, other in ((e.lhs, e.rhs), (e.rhs, e.lhs)):
            g = self.resolve(side)
            if isinstance(g, ir.Expr) and g.op in ("getitem", "static_getitem") and self.roots(g.value.name) & tr:
                aty = self.ty(st.target.name)
                res = self.expr_result(e)
                self.accums.add((site, self.arr_label(st.target.name) + "[]", elem_dt(aty), elem_dt(res) if res is not None else "other",
                                 tuple(self._feeds(other)), il))
                return

    def _feeds(self, v):
        """result types of the arithmetic that directly computes an accumulated operand"""
        r = self.resolve(v)
        out = []
        if isinstance(r, ir.Expr) and r.op in ("binop", "inplace_binop", "unary"):
            res = self.expr_result(r)
            out.append(elem_dt(res) if res is not None else "other")
            for sub in ([r.lhs, r.rhs] if r.op != "unary" else [r.value]):
                out += self._feeds(sub)
        elif isinstance(r, ir.Expr) and r.op == "call":
            cty = self.ty(r.func.name)
            res = self.expr_result(r)
            if not isinstance(cty, (types.NumberClass,)) and res is not None and is_num(res):
                out.append(elem_dt(res))
        return out

    def _assign(self, st, site, il):
        tgt = st.target.name
        v = st.value
        tty = self.ty(tgt)
        # implicit conversion on assignment (SSA unification)
        if isinstance(v, ir.Var):
            vty = self.ty(v.name)
            a, b = elem_dt(vty), elem_dt(tty)
            if a != b and "other" not in (a, b) and not isinstance(vty, types.Literal) and self.val_dt(v) not in ("lit", "litneg"):
                self.casts.add((site, "unify", a, b))
            elif a != b and "other" not in (a, b):
                self.casts.add((site, "unify", self.val_dt(v), b))
        if not isinstance(v, ir.Expr):
            self._accum(st, site, il)
            return
        e = v
        if e.op == "cast":
            a, b = self.val_dt(e.value), elem_dt(tty)
            if a != b and "other" not in (a, b):
                self.casts.add((site, "return", a, b))
        elif e.op in ("binop", "inplace_binop", "unary"):
            res = self.expr_result(e)
            if res is None:
                raise Failed(f"{self.fn}: untyped arithmetic at `{site}`")
            if is_narrow_result(res):
                ops = [e.lhs, e.rhs] if e.op != "unary" else [e.value]
                fname = e._kws.get("immutable_fn") or e.fn
                self.narrow.add((site, getattr(fname, "__name__", str(fname)), tuple(elem_dt(self.ty(o.name)) for o in ops), elem_dt(res)))
        elif e.op == "call":
            self._call(st, e, site)
        elif e.op == "arrayexpr":
            # fused array expression: Numba compiles it (during lowering) as a scalar kernel of this name, whose own
            # typed IR is observed by the hook and merged into this summary
            self.arrayexpr_sites["__numba_array_expr_%s" % (hex(hash(e)).replace("-", "_"))] = site
        self._accum(st, site, il)

    def _call(self, st, e, site):
        cty = self.ty(e.func.name)
        name = callee_name(cty)
        sig = self.ct.get(e)
        if sig is None:
            raise Failed(f"{self.fn}: untyped call at `{site}`")
        args = list(e.args)
        kws = dict(e.kws)
        argtys = [self.ty(a.name) for a in args]
        if isinstance(cty, types.Dispatcher):
            self.callees.append((cty.dispatcher, tuple(sig.args)))
            return
        res = sig.return_type
        if isinstance(cty, types.NumberClass) or name in ("fn:int", "fn:float", "fn:bool", "method:array.astype"):
            src = args[0] if args else None
            if name == "method:array.astype":
                this = cty.this
                a, b = elem_dt(this), elem_dt(res)
            elif src is not None:
                a, b = self.val_dt(src), elem_dt(res)
            else:
                return
            if a != b and "other" not in (a, b) and name != "fn:bool":
                self.casts.add((site, "explicit", a, b))
            return
        # implicit argument coercion of scalars
        if not isinstance(cty, types.BoundFunction):
            for a, aty, pty in zip(args, argtys, sig.args):
                if is_num(aty) and is_num(pty) and not isinstance(aty, types.Array) and not isinstance(pty, types.Array):
                    x, y = self.val_dt(a), elem_dt(pty)
                    if x != y and x not in ("lit", "litneg"):
                        self.casts.add((site, "arg " + name.split(":", 1)[1], x, y))
        # stores through an `out` argument
        outv = None
        if "out" in kws:
            outv = kws["out"]
        elif name in OUT_POS and len(args) > OUT_POS[name]:
            outv = args[OUT_POS[name]]
        elif name.startswith("ufunc:"):
            k = cty.typing_key
            if len(args) > k.nin:
                outv = args[k.nin]
        if outv is not None and isinstance(self.ty(outv.name), types.Array):
            oty = self.ty(outv.name)
            # the value written is the (wide) result of the operation on the first argument
            src = elem_dt(argtys[0]) if argtys else "other"
            self.stores.add((site, self.arr_label(outv.name), self.role(outv.name), elem_dt(oty), src, name.split(":", 1)[1]))
        # arithmetic carried out by a library function in a narrow type
        if is_narrow_result(res):
            self.narrow.add((site, name, tuple(elem_dt(t) if (is_num(t) or isinstance(t, types.Array)) else "other" for t in argtys), elem_dt(res)))

    def _accum(self, st, site, il):
        tgt = st.target.name
        b = self.base(tgt)
        if b.startswith("$"):
            return
        e = self.resolve(st.value) if isinstance(st.value, ir.Var) else st.value
        if not (isinstance(e, ir.Expr) and e.op in ("binop", "inplace_binop")):
            return
        for side, other in ((e.lhs, e.rhs), (e.rhs, e.lhs)):
            s = self.resolve(side)
            if isinstance(s, ir.Var) and self.base(s.name) == b:
                res = self.expr_result(e)
                tty = self.ty(tgt)
                if isinstance(tty, types.Array):
                    return
                self.accums.add((site, b, elem_dt(tty), elem_dt(res) if res is not None else "other", tuple(self._feeds(other)), il))
                return


# ------------------------------------------------------------------------------------------------ observer in Numba's pipeline
def flags_rec(f):
    """the effective compiler flags of one compilation (numba.core.compiler.Flags as seen by the pipeline, i.e. after the
    inheritance from the caller that is compiling this function as a callee)"""
    fm = getattr(f.fastmath, "flags", None)
    fm = sorted(str(x) for x in fm) if fm else []
    par = f.auto_parallel
    return (tuple(fm), str(f.error_model), bool(f.boundscheck), bool(getattr(par, "enabled", False)), bool(f.release_gil),
            bool(f.enable_pyobject or f.force_pyobject), bool(f.nrt), bool(f.no_rewrites), bool(f.forceinline), str(f.inline),
            bool(f.no_cpython_wrapper))


FLAG_FIELDS = ["fastmath", "errorModel", "boundscheck", "parallel", "nogil", "pyobject", "nrt", "noRewrites", "forceinline", "inline",
               "noCpythonWrapper"]


def optval(v):
    if isinstance(v, (set, frozenset)):
        return "{" + ", ".join(sorted(map(repr, v))) + "}"
    if isinstance(v, dict):
        return "{" + ", ".join(f"{k!r}: {optval(x)}" for k, x in sorted(v.items())) + "}"
    return re.sub(r" at 0x[0-9a-f]+", "", repr(v))


def decorator_rec(obj):
    """what the decorator asked for (the request; `flags_rec` is what Numba then used)"""
    if isinstance(obj, GUFunc):
        b = obj.gufunc_builder
        opts = dict(b.nb_func.targetoptions)
        opts.update(b.targetoptions)
        return dict(kind="guvectorize", options=sorted((k, optval(v)) for k, v in opts.items()), cache=bool(b.cache),
                    identity=optval(obj.ufunc.identity if obj.ufunc is not None else b.identity),
                    writable=sorted(int(x) for x in (b.writable_args or ())), dynamic=bool(obj._is_dynamic))
    c = type(getattr(obj, "_cache", None)).__name__
    return dict(kind="jit", options=sorted((k, optval(v)) for k, v in obj.targetoptions.items()), cache=(c not in ("NullCache", "NoneType")),
                identity="None", writable=[], dynamic=False)


LOWERING = []      # type annotations of the functions currently being lowered (innermost last)


def install_hook():
    """Numba builds `cres.type_annotation` in its `annotate_types` pass, just before lowering; lowering of `parallel=True`
    functions then rewrites parts of that IR in place.  The summary is therefore taken right there, by an observer wrapped
    around the pass (it only reads `state.type_annotation`).  Fused array expressions (`a - b` on arrays) are compiled as
    scalar kernels `__numba_array_expr_*` while the enclosing function is being lowered: a second observer around the
    lowering pass keeps track of the enclosing function so that the typing of those kernels is attributed to it."""
    from numba.core import typed_passes

    if getattr(typed_passes.AnnotateTypes, "_hdc_hooked", False):
        return
    orig = typed_passes.AnnotateTypes.run_pass
    orig_lower = typed_passes.BaseNativeLowering.run_pass

    def run_pass(self, state):
        r = orig(self, state)
        ta = state.type_annotation
        name = state.func_id.func_name
        try:
            ta._hdc_summary = FnSummary(name, ta)
            ta._hdc_summary.flags = flags_rec(state.flags)
        except Failed as e:
            ta._hdc_summary = e
        except Exception as e:  # noqa
            import traceback
            ta._hdc_summary = Failed(f"{name}: internal error {type(e).__name__}: {e} @ "
                                     + " | ".join(x.strip() for x in traceback.format_exc().splitlines()[-4:-1]))
        if name.startswith("__numba_array_expr_") and LOWERING:
            parent = getattr(LOWERING[-1], "_hdc_summary", None)
            if isinstance(parent, FnSummary):
                parent.children.append((name, ta._hdc_summary))
        return r

    def lower_pass(self, state):
        LOWERING.append(state.type_annotation)
        try:
            return orig_lower(self, state)
        finally:
            LOWERING.pop()

    typed_passes.AnnotateTypes.run_pass = run_pass
    typed_passes.BaseNativeLowering.run_pass = lower_pass
    typed_passes.AnnotateTypes._hdc_hooked = True


def summary_of(pyname, cres):
    ta = cres.type_annotation
    s = getattr(ta, "_hdc_summary", None) if ta is not None else None
    if s is None:
        raise Failed(f"{pyname}: compile result carries no typed IR summary (annotate_types pass not observed)")
    if isinstance(s, Exception):
        raise s
    s.sig = cres.signature
    return s


# ------------------------------------------------------------------------------------------------ enumeration
def sigstr(sig):
    return re.sub(r" at 0x[0-9a-f]+", "", "(" + ", ".join(str(a) for a in sig.args) + ") -> " + str(sig.return_type))


def cells(w):
    return dict(zip(w.__code__.co_freevars, w.__closure__ or ()))


def is_lazy(obj):
    return inspect.isfunction(obj) and obj.__closure__ and {"internal_decorator", "inner_decorated", "f"} <= set(obj.__code__.co_freevars)


def live_modules(pkg_dir):
    """modules of hdc.algo.ops that some module of the package imports (directly or via the package __init__)"""
    names = [m.name for m in pkgutil.iter_modules([str(pkg_dir)])]
    imported = set()
    for p in (REPO / "hdc").rglob("*.py"):
        try:
            tree = ast.parse(p.read_text())
        except SyntaxError as e:
            raise Failed(f"{p}: {e}")
        me = p.stem
        for n in ast.walk(tree):
            if isinstance(n, ast.ImportFrom):
                mod = n.module or ""
                last = mod.split(".")[-1] if mod else ""
                if last in names and last != me:
                    imported.add(last)
                if (mod.endswith("ops") or (mod == "" and p.parent == pkg_dir)):
                    for a in n.names:
                        if a.name in names and a.name != me:
                            imported.add(a.name)
            elif isinstance(n, ast.Import):
                for a in n.names:
                    last = a.name.split(".")[-1]
                    if last in names and "ops" in a.name:
                        imported.add(last)
    live = [m for m in names if m in imported]
    dead = [m for m in names if m not in imported and not m.startswith("_")]
    return live, dead


def np_char_dtypes(tstr):
    ins, outs = tstr.split("->")
    return [str(np.dtype(c)) for c in ins], [str(np.dtype(c)) for c in outs]


def arg_rec(ty):
    d, nd, lay = ty_of(ty)
    return (d, nd, lay)


def discover():
    """import the package from REPO and enumerate its compiled objects (nothing is compiled here)"""
    install_hook()
    import hdc.algo  # noqa

    if not str(Path(hdc.algo.__file__).resolve()).startswith(str(REPO)):
        raise Failed(f"hdc.algo imported from {hdc.algo.__file__}, not from {REPO}")
    ops = importlib.import_module("hdc.algo.ops")
    pkg_dir = Path(ops.__file__).resolve().parent
    live, dead = live_modules(pkg_dir)
    lazy, gus, disps = {}, {}, {}
    srchash = hashlib.sha256()
    for m in sorted(live):
        srchash.update((pkg_dir / f"{m}.py").read_bytes())
        mod = importlib.import_module(f"hdc.algo.ops.{m}")
        for name, obj in sorted(vars(mod).items()):
            if is_lazy(obj) and obj.__module__ == mod.__name__:
                lazy[name] = obj
            elif isinstance(obj, GUFunc) and obj.gufunc_builder.py_func.__module__ == mod.__name__:
                gus[name] = obj
            elif isinstance(obj, Dispatcher) and obj.py_func.__module__ == mod.__name__:
                disps[name] = obj
    return dict(lazy=lazy, gufuncs=gus, disps=disps, dead=dead, sha=srchash.hexdigest()[:16])


def build_lazy(name, obj):
    c = cells(obj)
    try:
        inner = c["internal_decorator"].cell_contents(c["f"].cell_contents)
    except Exception as e:  # numba typing / lowering errors
        raise Failed(f"{name}: compilation failed: {type(e).__name__}: {str(e).splitlines()[0][:200]}")
    c["inner_decorated"].cell_contents = inner      # the package now uses exactly the object we inspect
    if not isinstance(inner, (GUFunc, Dispatcher)):
        raise Failed(f"{name}: lazycompile produced an unsupported object {type(inner).__name__}")
    return inner


class Collector:
    """summaries memoised per (function, signature, nout) + transitive closure over jit callees"""

    def __init__(self):
        self.fnsum = {}
        self.nouts = {}

    def summarise(self, pyname, cres, nout):
        s = summary_of(pyname, cres)
        key = (pyname, sigstr(cres.signature), nout, s.flags)
        if key in self.fnsum:
            return key
        self.nouts[key] = nout
        self.fnsum[key] = s
        s.callee_keys = []
        for disp, argtys in s.callees:
            sub = disp.overloads.get(tuple(argtys))
            if sub is None:
                match = [c for a, c in disp.overloads.items() if tuple(c.signature.args) == tuple(argtys)]
                if len(match) != 1:
                    raise Failed(f"{pyname}: callee {disp.py_func.__name__}{tuple(map(str, argtys))} has no compile result")
                sub = match[0]
            k = self.summarise(disp.py_func.__name__, sub, None)
            if k not in s.callee_keys:
                s.callee_keys.append(k)
        return key

    def closure(self, key, acc):
        if key in acc:
            return acc
        acc.append(key)
        for k in self.fnsum[key].callee_keys:
            self.closure(k, acc)
        return acc

    def plain(self):
        out = {}
        for k, s in self.fnsum.items():
            nout = self.nouts[k]
            npar = len(s.params)

            def role(r):
                if r.startswith("p"):
                    return "output" if (nout is not None and int(r[1:]) >= npar - nout) else "param"
                return r

            stores = sorted({(a, b, role(c), d, e, f) for (a, b, c, d, e, f) in s.stores})
            narrow, accums, casts = set(s.narrow), set(s.accums), set(s.casts)
            if len(s.children) != len(s.arrayexpr_sites) and not s.has_parfor:
                raise Failed(f"{s.fn}: {len(s.arrayexpr_sites)} array expressions but {len(s.children)} compiled array-expression kernels observed")
            for cname, c in s.children:
                if isinstance(c, Exception):
                    raise c
                site = s.arrayexpr_sites.get(cname, "<array expression>")
                narrow |= {(site,) + r[1:] for r in c.narrow}
                accums |= {(site,) + r[1:] for r in c.accums}
                casts |= {(site, "arrayexpr " + r[1]) + r[2:] for r in c.casts}
            for cname, c in s.children:
                if not isinstance(c, Exception) and c.flags[0] != s.flags[0]:
                    raise Failed(f"{s.fn}: an array-expression kernel was compiled with fastmath {c.flags[0]}, the function with {s.flags[0]}")
            out[k] = dict(fn=s.fn, sig=sigstr(s.sig), nout=nout, flags=list(s.flags),
                          vars={n: sorted(v) for n, v in sorted(s.vars.items())},
                          stores=stores, narrow=sorted(narrow), accums=sorted(accums), casts=sorted(casts),
                          callees=list(s.callee_keys))
        return out


def gufunc_kernel(name, g, col):
    b = g.gufunc_builder
    nbf = b.nb_func
    u = g.ufunc
    if u is None:
        raise Failed(f"{name}: gufunc has no built ufunc (dynamic gufunc without signatures)")
    sigs = list(nbf.overloads.keys())
    if len(sigs) != len(u.types) or not sigs:
        raise Failed(f"{name}: {len(sigs)} compiled loops but NumPy sees {len(u.types)}")
    loops = []
    nin, nout = u.nin, u.nout
    for i, (sg, tstr) in enumerate(zip(sigs, u.types)):
        cres = nbf.overloads[sg]
        a = list(cres.signature.args)
        if len(a) != nin + nout:
            raise Failed(f"{name}: loop {i} has {len(a)} parameters, NumPy expects {nin}+{nout}")
        ins_np, outs_np = np_char_dtypes(tstr)
        mine = [DT.get(x, "other") for x in ins_np + outs_np]
        theirs = [arg_rec(t)[0] for t in a]
        if mine != theirs:
            raise Failed(f"{name}: loop {i}: NumPy types {tstr} do not match the compiled signature {cres.signature}")
        key = col.summarise(name, cres, nout)
        loops.append(dict(ins=[arg_rec(t) for t in a[:nin]], outs=[arg_rec(t) for t in a[nin:]], npy=tstr, body=col.closure(key, [])))
    # NumPy's own resolution on a probe grid
    probes = {}
    inv = {v: k for k, v in DT.items()}
    # scalar `()` positions; a caller may fill the numeric ones with Python scalars
    a0 = list(nbf.overloads[sigs[0]].signature.args)[:nin]
    scal = [k for k, t in enumerate(a0) if not isinstance(t, types.Array)]
    weakable = [k for k in scal if isinstance(a0[k], (types.Integer, types.Float))]
    grid_np = [np.dtype(x) for x in NP_GRID]
    for lp in loops:
        exact = [np.dtype(inv[x[0]]) for x in lp["ins"]]
        bases = [list(exact)]
        for weak in (float, int):
            if weakable:
                bb = list(exact)
                for k in weakable:
                    bb[k] = weak
                bases.append(bb)
        for bb in bases:
            for pos in range(nin):
                for d in grid_np + ([int, float] if pos in scal else []):
                    q = list(bb)
                    q[pos] = d
                    kq = tuple("pyint" if x is int else "pyfloat" if x is float else DT[str(x)] for x in q)
                    if kq in probes:
                        continue
                    try:
                        r = u.resolve_dtypes(tuple(q) + (None,) * nout)
                    except TypeError:
                        probes[kq] = None
                        continue
                    rr = [DT.get(str(x), "other") for x in r[:nin]]
                    idx = [j for j, l2 in enumerate(loops) if [x[0] for x in l2["ins"]] == rr]
                    if not idx:
                        raise Failed(f"{name}: NumPy resolved {kq} to an undeclared loop {rr}")
                    probes[kq] = idx[0]
    return dict(name=name, kind="gufunc", layout=u.signature, loops=loops, probes=sorted(probes.items(), key=str), deco=decorator_rec(g))


def entry_kernel(name, d, sigs, col, which=()):
    loops = []
    for n, sg in enumerate(sigs):
        try:
            d.compile(tuple(sg))
        except Exception as e:
            raise Failed(f"{name}{sg}: compilation failed: {type(e).__name__}: {str(e).splitlines()[0][:200]}")
        cres = d.overloads.get(tuple(sg))
        if cres is None:
            raise Failed(f"{name}: documented signature {sg} has no compile result")
        key = col.summarise(name, cres, None)
        rt = cres.signature.return_type
        outs = [arg_rec(t) for t in (rt.types if isinstance(rt, types.BaseTuple) else [rt])]
        loops.append(dict(ins=[arg_rec(t) for t in cres.signature.args], outs=outs, npy=sigstr(cres.signature), body=col.closure(key, []),
                          order=(which[n] if n < len(which) else n)))
    return dict(name=name, kind="njit", layout="", loops=loops, probes=[], deco=decorator_rec(d))


def run_task(task):
    """worker: (kind, name, sig indices) -> (kernel fragment, plain fn summaries) or ('FAILED', reason)"""
    try:
        t = time.time()
        disc = discover()
        col = Collector()
        kind, name, which = task
        if kind == "gufunc":
            g = build_lazy(name, disc["lazy"][name]) if name in disc["lazy"] else disc["gufuncs"][name]
            if not isinstance(g, GUFunc):
                raise Failed(f"{name}: expected a gufunc")
            kern = gufunc_kernel(name, g, col)
        else:
            d = build_lazy(name, disc["lazy"][name]) if name in disc["lazy"] else disc["disps"][name]
            if not isinstance(d, Dispatcher):
                raise Failed(f"{name}: expected a jit dispatcher")
            kern = entry_kernel(name, d, [ENTRY_SIGS[name][i] for i in which], col, which)
        return ("ok", task, kern, col.plain(), time.time() - t)
    except Failed as e:
        return ("FAILED", task, str(e), None, 0.0)
    except Exception as e:  # anything unexpected must not produce a partial table
        import traceback
        return ("FAILED", task, f"{task[1]}: internal error {type(e).__name__}: {e} @ {traceback.format_exc().splitlines()[-3].strip()}", None, 0.0)


def main():
    import argparse

    ap = argparse.ArgumentParser()
    ap.add_argument("--json", default=None)
    ap.add_argument("--out", default=str(OUT))
    ap.add_argument("--jobs", type=int, default=min(16, os.cpu_count() or 1))
    ap.add_argument("--timing", action="store_true")
    ap.add_argument("--force", action="store_true", help="recompile even if the sources are unchanged since the last successful run")
    opts = ap.parse_args()

    # The summary is a function of the package source, of this script and of the Numba / NumPy versions (each run compiles in fresh
    # interpreters without a disk cache and gives byte-identical output for identical input): when none of them changed since the last
    # successful run that wrote the current output file, the ~30 s of compilation are skipped.
    import numba as _nb
    import numpy as _np
    h = hashlib.sha256()
    for f in sorted((REPO / "hdc").rglob("*.py")) + [Path(__file__).resolve()]:
        h.update(str(f.relative_to(f.anchor)).encode() + b"\0" + f.read_bytes())
    h.update(f"{_nb.__version__} {_np.__version__}".encode())
    stamp_file = Path(opts.out).resolve().parent.parent.parent / ".lake" / "types_stamp.json"
    outp = Path(opts.out)
    stamp = dict(inputs=h.hexdigest(), output=hashlib.sha256(outp.read_bytes()).hexdigest() if outp.exists() else None)
    if not opts.force and opts.json is None and stamp_file.exists() and outp.exists():
        try:
            if json.loads(stamp_file.read_text()) == stamp:
                print("ok Hdc.Gen.Types: sources unchanged since the last run, summary up to date")
                return 0
        except Exception:  # noqa: BLE001
            pass

    disc = discover()
    # what kind of object does each lazycompile wrapper produce?  read off the decorator without compiling:
    # guvectorize(...) returns a closure of numba.np.ufunc.decorators; jit/njit return a dispatcher factory or are `njit` itself
    tasks = []
    kinds = {}
    for name, obj in disc["lazy"].items():
        deco = cells(obj)["internal_decorator"].cell_contents
        isgu = getattr(deco, "__qualname__", "").startswith("guvectorize")
        kinds[name] = "gufunc" if isgu else "entry"
    for name in disc["gufuncs"]:
        kinds[name] = "gufunc"
    for name, k in kinds.items():
        if k == "gufunc":
            tasks.append(("gufunc", name, ()))
        elif name not in ENTRY_SIGS:
            raise Failed(f"{name}: njit entry point without documented signature (add it to ENTRY_SIGS)")
    for name, sigs in ENTRY_SIGS.items():
        if name not in disc["lazy"] and name not in disc["disps"]:
            raise Failed(f"documented entry point {name} not found in hdc.algo.ops")
        if kinds.get(name) == "gufunc":
            raise Failed(f"documented entry point {name} is a gufunc")
        for i in range(len(sigs)):
            tasks.append(("entry", name, (i,)))

    # One FRESH interpreter per task (max_tasks_per_child=1): a jit helper is compiled once per process, with the flags
    # (fastmath, error model) inherited from whichever kernel triggers its compilation first, so a reused worker would
    # report the flags of an earlier task.  Here every kernel is the first to compile its helpers.
    import multiprocessing as mp
    from concurrent.futures import ProcessPoolExecutor

    heavy = ["_mann_kendall_trend_gu_nd", "_mann_kendall_trend_gu", "ws2doptvplc_tyx", "ws2dwcvp", "ws2dwcv", "_ws2dwcvp", "gammastd_grp",
             "ws2doptvplc", "ws2doptvp", "ws2dgu", "ws2dpgu", "gammastd_yxt"]          # scheduling hint only: longest first
    tasks.sort(key=lambda t: (heavy.index(t[1]) if t[1] in heavy else len(heavy)))
    with ProcessPoolExecutor(max_workers=max(1, opts.jobs), mp_context=mp.get_context("spawn"), max_tasks_per_child=1) as ex:
        results = list(ex.map(run_task, tasks))
    bad = [r for r in results if r[0] != "ok"]
    if bad:
        raise Failed("; ".join(sorted(r[2] for r in bad)))
    if opts.timing:
        for r in sorted(results, key=lambda r: -r[4]):
            print(f"  {r[4]:6.1f}s  {r[1]}")

    fns = {}
    kernels = {}
    for _, task, kern, plain, _ in results:
        for k, v in plain.items():
            if k in fns and fns[k] != v:
                diff = [f for f in v if fns[k][f] != v[f]]
                raise Failed(f"{k[0]}{k[1]}: two compilations disagree on the typing ({diff})")
            fns[k] = v
        if kern["name"] in kernels:
            kernels[kern["name"]]["loops"] += kern["loops"]
        else:
            kernels[kern["name"]] = kern
    # entry signatures in documented order
    for kern in kernels.values():
        kern["loops"].sort(key=lambda lp: lp.get("order", 0))
    reached_fns = {k[0] for k in fns}
    for name in list(disc["disps"]) + [n for n, k in kinds.items() if k == "entry"]:
        if name not in reached_fns:
            raise Failed(f"{name}: never compiled (not reachable from a kernel and no documented signature in ENTRY_SIGS)")

    data = dict(numba=numba.__version__, numpy=np.__version__, sha=disc["sha"], skipped=disc["dead"],
                kernels=[kernels[k] for k in sorted(kernels)], fns=fns)
    if opts.json:
        dump_json(data, opts.json)
    emit_lean(data, Path(opts.out))
    try:
        stamp["output"] = hashlib.sha256(Path(opts.out).read_bytes()).hexdigest()
        stamp_file.parent.mkdir(parents=True, exist_ok=True)
        stamp_file.write_text(json.dumps(stamp))
    except OSError:
        pass
    print(f"ok {MODULE}: {len(kernels)} kernels, {len(fns)} typed functions, {time.time() - T0:.1f}s")


def dump_json(data, path):
    js = dict(data)
    js["fns"] = {" :: ".join(map(str, k)): v for k, v in data["fns"].items()}
    js["kernels"] = [dict(k, probes=[[" ".join(p), r] for p, r in k["probes"]],
                          loops=[dict(lp, body=[" :: ".join(map(str, b)) for b in lp["body"]]) for lp in k["loops"]]) for k in data["kernels"]]
    Path(path).write_text(json.dumps(js, indent=1, default=str))


TOKENS = ["unsafe", "sorry", "admit", "axiom", "native_decide", "bv_decide", "maxHeartbeats"]   # textual scan of the project


def lstr(x):
    x = str(x)
    for t in TOKENS:          # source text quoted in a site must not trip the project's token scan
        x = re.sub(t, t[0] + "\u00b7" + t[1:], x, flags=re.I)
    return '"' + str(x).replace("\\", "\\\\").replace('"', '\\"').replace("\n", " ") + '"'


def ldt(d):
    return "." + d


def llist(xs, f=str):
    return "[" + ", ".join(f(x) for x in xs) + "]"


def larg(a):
    d, nd, lay = a[0], a[1], a[2]
    return f"⟨{ldt(d)}, {nd}, .{'N' if lay == '-' else lay}⟩"


def short_sig(sig):
    return re.sub(r" at 0x[0-9a-f]+", "", sig.replace(", False, aligned=True", "").replace("Array(", "array("))


def wrap(items, indent, width=118):
    """comma separated items folded into lines"""
    lines, cur = [], ""
    for it in items:
        piece = it + ", "
        if cur and len(cur) + len(piece) > width - indent:
            lines.append(cur.rstrip())
            cur = ""
        cur += piece
    if cur:
        lines.append(cur.rstrip().rstrip(","))
    return ("\n" + " " * indent).join(lines)


def emit_lean(data, out):
    fns = data["fns"]
    # stable identifiers: fn_<name>_<k>, k = rank of the signature among the typings of that function
    by_name = {}
    for k in fns:
        by_name.setdefault(k[0], []).append(k)
    ident = {}
    for name, ks in by_name.items():
        for i, k in enumerate(sorted(ks, key=lambda k: (k[1], str(k[2]), str(k[3])))):
            ident[k] = f"fn_{name}_{i}"
    L = []
    L.append("import Hdc.Model.Types")
    L.append("/-")
    L.append(f"GENERATED by harness/summarise_types.py from the modules of hdc/algo/ops (sha256 {data['sha']}),")
    L.append(f"typing by numba {data['numba']}, loop resolution by numpy {data['numpy']}.  Do not edit.")
    L.append("-/")
    L.append("namespace Hdc.Gen.Types")
    L.append("open Hdc.Types")
    L.append("")
    L.append(f"def numbaVersion : String := {lstr(data['numba'])}")
    L.append(f"def numpyVersion : String := {lstr(data['numpy'])}")
    L.append("/-- modules of hdc/algo/ops that no module of the package imports: not compiled, not summarised -/")
    L.append(f"def skippedModules : List String := {llist(data['skipped'], lstr)}")
    L.append("")
    def lbool(x):
        return "true" if x else "false"

    flagsets = sorted({tuple(map(lambda x: tuple(x) if isinstance(x, list) else x, f["flags"])) for f in fns.values()}, key=str)
    fid = {fl: f"flags_{i}" for i, fl in enumerate(flagsets)}
    L.append("/-! the distinct sets of effective compiler flags (`numba.core.compiler.Flags` inside the pipeline) -/")
    for fl in flagsets:
        (fm, em, bc, par, nogil, pyo, nrt, norw, finl, inl, nowrap) = fl
        L.append(f"def {fid[fl]} : Flags := ⟨{llist(fm, lstr)}, {lstr(em)}, {lbool(bc)}, {lbool(par)}, {lbool(nogil)}, {lbool(pyo)}, "
                 f"{lbool(nrt)}, {lbool(norw)}, {lbool(finl)}, {lstr(inl)}, {lbool(nowrap)}⟩")
    L.append("")
    for k in sorted(fns, key=lambda k: ident[k]):
        f = fns[k]
        fl = tuple(map(lambda x: tuple(x) if isinstance(x, list) else x, f["flags"]))
        L.append(f"def {ident[k]} : FnTyping :=")
        L.append(f"  {{ fn := {lstr(f['fn'])},")
        L.append(f"    sig := {lstr(short_sig(f['sig']))},")
        L.append(f"    flags := {fid[fl]},")
        vs = [f"⟨{lstr(n)}, {llist(sorted({tuple(t[:3]) for t in tys}), larg)}⟩" for n, tys in f["vars"].items()]
        L.append("    vars := [" + wrap(vs, 6) + "],")
        st = [f"⟨{lstr(a)}, {lstr(b)}, .{c}, {ldt(d)}, {ldt(e)}, {lstr(v)}⟩" for (a, b, c, d, e, v) in f["stores"]]
        L.append("    stores := [" + wrap(st, 6) + "],")
        nr = [f"⟨{lstr(a)}, {lstr(b)}, {llist(c, ldt)}, {ldt(d)}⟩" for (a, b, c, d) in f["narrow"]]
        L.append("    narrow := [" + wrap(nr, 6) + "],")
        ac = [f"⟨{lstr(a)}, {lstr(b)}, {ldt(c)}, {ldt(d)}, {llist(e, ldt)}, {'true' if g else 'false'}⟩" for (a, b, c, d, e, g) in f["accums"]]
        L.append("    accums := [" + wrap(ac, 6) + "],")
        cs = [f"⟨{lstr(a)}, {lstr(b)}, {ldt(c)}, {ldt(d)}⟩" for (a, b, c, d) in f["casts"]]
        L.append("    casts := [" + wrap(cs, 6) + "] }")
        L.append("")
    for kern in data["kernels"]:
        nm = kern["name"]
        L.append(f"def k_{nm} : Kernel :=")
        L.append(f"  {{ name := {lstr(nm)}, gufunc := {'true' if kern['kind'] == 'gufunc' else 'false'}, layout := {lstr(kern['layout'])},")
        dc = kern["deco"]
        L.append(f"    deco := ⟨{lstr(dc['kind'])}, {llist(dc['options'], lambda kv: '(' + lstr(kv[0]) + ', ' + lstr(kv[1]) + ')')}, "
                 f"{'true' if dc['cache'] else 'false'}, {lstr(dc['identity'])}, {llist(dc['writable'])}, {'true' if dc['dynamic'] else 'false'}⟩,")
        lp = [f"⟨{llist(l['ins'], larg)}, {llist(l['outs'], larg)}, {lstr(short_sig(l['npy']))}⟩" for l in kern["loops"]]
        L.append("    loops := [" + (",\n      ").join(lp) + "],")
        bd = ["[" + ", ".join(ident[tuple(b)] for b in l["body"]) + "]" for l in kern["loops"]]
        L.append("    bodies := [" + (",\n      ").join(bd) + "],")
        pr = [f"({llist(p, ldt)}, {'none' if r is None else 'some ' + str(r)})" for p, r in kern["probes"]]
        L.append("    probes := [" + wrap(pr, 6) + "] }")
        L.append("")
    L.append("def kernels : List Kernel := " + llist([f"k_{k['name']}" for k in data["kernels"]]))
    L.append("")
    L.append("/-- every (function, signature, flags) typing, once -/")
    L.append("def typings : List FnTyping := [" + wrap([ident[k] for k in sorted(fns, key=lambda k: ident[k])], 2) + "]")
    L.append("")
    L.append("end Hdc.Gen.Types")
    text = "\n".join(L) + "\n"
    out.parent.mkdir(parents=True, exist_ok=True)
    tmp = out.with_suffix(".lean.tmp")
    tmp.write_text(text)
    tmp.replace(out)


if __name__ == "__main__":
    try:
        main()
    except Failed as e:
        fail(str(e))
