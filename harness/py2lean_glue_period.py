#!/venv/bin/python
"""py2lean_glue_period: translate the `.dekad` accessor layer of hdc/algo/accessors.py (classes `AccessorBase`, `AccessorTimeBase`,
`Period`, `DekadPeriod`) and the class `Anomalies` into Lean (via `ast`), re-using harness/py2lean_glue.py (its statement translator
`G`, its `Lib` patterns, `translate`, `write_if_changed`) by import.

Outputs (namespace Hdc.Gen.Glue):
  lean/Hdc/Gen/GluePeriod.lean
    * `structure PeriodCls T P D`: the period class as a PARAMETER (fields ofInstant, idx, yidx, ndays, str, start_date, end_date, raw)
    * one definition `period_<prop>` per property of `Period`:
        `self._obj.time.to_series()`                                   -> the parameter `time_to_series : List T` (the instants of the axis)
        `self.<prop>`                                                  -> the translated property `period_<prop>`
        `<series>.apply(lambda x: <body>).to_xarray()`                 -> `List.map (fun x => <body>) <series>`; `List.mapM` when the body can
                                                                          raise (`ndays`, `start_date`, `end_date` of the class raise)
        lambda bodies: `x`, `self._period_cls(<e>)`, `<e>.<field>`, `str(<e>)`   (anything else: Unsupported, e.g. an f-string)
        `<int list> + - * <int literal>`                               -> element-wise
        `warn(<text>, <Category>, <stacklevel>)`                       -> the property returns the pair (warnings, value)
    * `timebase_init`: `AccessorTimeBase.__init__` statement by statement (by `py2lean_glue.G`; `self._obj = e` is a local,
      `super().__init__(e)` is inlined after checking that `AccessorBase.__init__` is `self._obj = xarray_obj`); returns the stored object
    * `timebase_year/month/day`: `self._obj.time.dt.<f>` as a parameter
    * `dekadCls`: `DekadPeriod._period_cls = Dekad` is READ from the source and instantiates `PeriodCls` with the GENERATED definitions
      of Hdc/Gen/Dekad.lean (`Dekad(x)` for a Timestamp, a `datetime` subclass, is `ofDate x.year x.month x.day`)
  lean/Hdc/Gen/GlueAnomalies.lean
    * `anomalies_ratio`, `anomalies_diff` over an abstract carrier with + - * / and the literals of the source, and the
      `_default` forms with the default value of `offset` read from the signature
Everything else raises Unsupported: `FAILED Hdc.Gen.<Module>: reason`, exit code 1 (previous output left in place).
"""
import ast
import copy
import hashlib
import sys

import py2lean_glue as B
from py2lean_glue import G, Lib, Unsupported, translate, write_if_changed, GEN, REPO

TOOL = "harness/py2lean_glue_period.py"
ACC = "hdc/algo/accessors.py"


# ------------------------------------------------------------------------------------------------- helpers
def dump(src):
    return ast.dump(ast.parse(src, mode="eval").body)


def find_class(mod, name):
    hits = [n for n in mod.body if isinstance(n, ast.ClassDef) and n.name == name]
    if len(hits) != 1:
        raise Unsupported(f"class {name}: {len(hits)} definitions")
    return hits[0]


def bases_of(cls):
    if cls.keywords:
        raise Unsupported(f"class {cls.name}: keywords in the class header")
    return [ast.unparse(b) for b in cls.bases]


def is_doc(s):
    return isinstance(s, ast.Expr) and isinstance(s.value, ast.Constant) and isinstance(s.value.value, str)


def strip_doc(body):
    return [s for i, s in enumerate(body) if not (i == 0 and is_doc(s))]


def sha_of(src, nodes):
    h = hashlib.sha256()
    for n in nodes:
        h.update(ast.get_source_segment(src, n).encode())
        for d in getattr(n, "decorator_list", []):
            h.update(ast.get_source_segment(src, d).encode())
    return h.hexdigest()[:16]


def check_property(fn, clsname):
    if [ast.unparse(d) for d in fn.decorator_list] != ["property"]:
        raise Unsupported(f"{clsname}.{fn.name}: decorators {[ast.unparse(d) for d in fn.decorator_list]} (expected @property)")
    a = fn.args
    if [x.arg for x in a.args] != ["self"] or a.defaults or a.kwonlyargs or a.vararg or a.kwarg or a.posonlyargs:
        raise Unsupported(f"{clsname}.{fn.name}: signature")


# ------------------------------------------------------------------------------------------------- class Period
# field of the period class -> (Lean result type, may raise)
FIELDS = {"idx": ("Int", False), "yidx": ("Int", False), "raw": ("Int", False), "ndays": ("Int", True),
          "start_date": ("D", True), "end_date": ("D", True)}
STR_FIELD = ("String", False)
WARN_CATS = {"DeprecationWarning": "deprecationWarning", "FutureWarning": "futureWarning", "UserWarning": "userWarning"}
TSERIES_SRC = "self._obj.time.to_series()"
BINOPS = {ast.Add: "+", ast.Sub: "-", ast.Mult: "*"}


class PeriodTr:
    def __init__(self, cls):
        self.cls = cls
        self.props = {}
        for s in strip_doc(cls.body):
            if not isinstance(s, ast.FunctionDef):
                raise Unsupported(f"class Period: statement `{ast.unparse(s)[:50]}`")
            check_property(s, "Period")
            if s.name in self.props:
                raise Unsupported(f"Period.{s.name} defined twice")
            self.props[s.name] = s
        self.done = {}          # name -> (lean type of the value, raises, warnings, text)
        self.order = []
        self.active = []

    # -- lambda bodies: returns (term, type) with type in "T" | "P" | ("val", leantype, raises)
    def lam(self, e, var):
        if isinstance(e, ast.Name) and e.id == var:
            return ident(var), "T"
        if (isinstance(e, ast.Call) and isinstance(e.func, ast.Attribute) and isinstance(e.func.value, ast.Name)
                and e.func.value.id == "self" and e.func.attr == "_period_cls"):
            if e.keywords or len(e.args) != 1:
                raise Unsupported("call of self._period_cls: arguments")
            t, ty = self.lam(e.args[0], var)
            if ty != "T":
                raise Unsupported("self._period_cls applied to something else than the element")
            return f"(cls.ofInstant {t})", "P"
        if isinstance(e, ast.Attribute):
            t, ty = self.lam(e.value, var)
            if ty == "P" and e.attr in FIELDS:
                lt, r = FIELDS[e.attr]
                return f"(cls.{e.attr} {t})", ("val", lt, r)
            raise Unsupported(f"attribute .{e.attr} in a lambda body")
        if isinstance(e, ast.Call) and isinstance(e.func, ast.Name) and e.func.id == "str" and len(e.args) == 1 and not e.keywords:
            t, ty = self.lam(e.args[0], var)
            if ty == "P":
                return f"(cls.str {t})", ("val",) + STR_FIELD
            raise Unsupported("str(..) of something else than a period object")
        raise Unsupported(f"lambda body `{ast.unparse(e)[:60]}`")

    # -- expressions of a property body: returns (term, kind) with kind = ("series",) | ("list", leantype, raises)
    def expr(self, e):
        if ast.dump(e) == dump(TSERIES_SRC):
            return "time_to_series", ("series",)
        if isinstance(e, ast.Attribute) and isinstance(e.value, ast.Name) and e.value.id == "self":
            if e.attr not in self.props:
                raise Unsupported(f"self.{e.attr} is not a property of Period")
            ty, raises, warns = self.prop(e.attr)
            if warns:
                raise Unsupported(f"self.{e.attr} warns: use inside another property")
            app = f"(period_{e.attr[1:] if e.attr.startswith('_') else e.attr} cls time_to_series)"
            return app, ty
        if (isinstance(e, ast.Call) and isinstance(e.func, ast.Attribute) and e.func.attr == "to_xarray" and not e.args and not e.keywords):
            inner = e.func.value
            if (isinstance(inner, ast.Call) and isinstance(inner.func, ast.Attribute) and inner.func.attr == "apply"
                    and len(inner.args) == 1 and not inner.keywords and isinstance(inner.args[0], ast.Lambda)):
                st, sk = self.expr(inner.func.value)
                if sk != ("series",):
                    raise Unsupported(".apply on something else than the series of instants")
                lm = inner.args[0]
                a = lm.args
                if len(a.args) != 1 or a.defaults or a.kwonlyargs or a.vararg or a.kwarg or a.posonlyargs:
                    raise Unsupported("lambda signature")
                var = a.args[0].arg
                if var in ("self", "cls", "time_to_series"):
                    raise Unsupported("lambda variable name")
                bt, bty = self.lam(lm.body, var)
                if not (isinstance(bty, tuple) and bty[0] == "val"):
                    raise Unsupported("the lambda returns the element / the period object itself")
                _, lt, raises = bty
                fn = "List.mapM" if raises else "List.map"
                return f"({fn} (fun {ident(var)} => {bt}) {st})", ("list", lt, raises)
            raise Unsupported(f"`{ast.unparse(e)[:60]}`: not <series>.apply(lambda ..).to_xarray()")
        if isinstance(e, ast.BinOp) and type(e.op) in BINOPS:
            lt, lk = self.expr(e.left)
            r = e.right
            if not (isinstance(r, ast.Constant) and isinstance(r.value, int) and not isinstance(r.value, bool) and r.value >= 0):
                raise Unsupported("right operand of an element-wise operation is not a non-negative int literal")
            if lk != ("list", "Int", False):
                raise Unsupported(f"element-wise arithmetic on {lk}")
            return f"(List.map (fun v => v {BINOPS[type(e.op)]} ({r.value} : Int)) {lt})", lk
        raise Unsupported(f"expression `{ast.unparse(e)[:70]}`")

    def prop(self, name):
        if name in self.done:
            return self.done[name][:3]
        if name in self.active:
            raise Unsupported(f"Period.{name}: recursive")
        self.active.append(name)
        fn = self.props[name]
        body = strip_doc(fn.body)
        warns = []
        while body and isinstance(body[0], ast.Expr):
            c = body[0].value
            if not (isinstance(c, ast.Call) and isinstance(c.func, ast.Name) and c.func.id == "warn" and not c.keywords
                    and len(c.args) == 3 and isinstance(c.args[0], ast.Constant) and isinstance(c.args[0].value, str)
                    and isinstance(c.args[1], ast.Name) and c.args[1].id in WARN_CATS
                    and isinstance(c.args[2], ast.Constant) and isinstance(c.args[2].value, int)):
                raise Unsupported(f"Period.{name}: statement `{ast.unparse(body[0])[:50]}`")
            warns.append(f"PyWarning.{WARN_CATS[c.args[1].id]} {c.args[2].value}")
            body = body[1:]
        if len(body) != 1 or not isinstance(body[0], ast.Return) or body[0].value is None:
            raise Unsupported(f"Period.{name}: body is not [docstring] [warn(..)] return <expr>")
        term, kind = self.expr(body[0].value)
        if kind == ("series",):
            lt = "List T"
        else:
            lt = f"List {kind[1]}"
            if kind[2]:
                lt = f"Except PyErr ({lt})"
        lname = "period_" + (name[1:] if name.startswith("_") else name)
        src = ast.unparse(body[0].value)
        if warns:
            text = (f"/-- `Period.{name}`: warns, then `{src}` -/\n"
                    f"def {lname} {{T P D : Type}} (cls : PeriodCls T P D) (time_to_series : List T) : List PyWarning × ({lt}) :=\n"
                    f"  ([{', '.join(warns)}], {term})\n")
        else:
            text = (f"/-- `Period.{name}`: `{src}` -/\n"
                    f"def {lname} {{T P D : Type}} (cls : PeriodCls T P D) (time_to_series : List T) : {lt} :=\n  {term}\n")
        self.active.pop()
        self.done[name] = (kind, kind != ("series",) and kind[2], warns, text)
        self.order.append(name)
        return self.done[name][:3]

    def run(self):
        for name in self.props:
            self.prop(name)
        return "\n".join(self.done[n][3] for n in self.order)


def ident(n):
    return B.ident(n)


# ------------------------------------------------------------------------------------------------- AccessorTimeBase
class GP(G):
    """`G` plus: `self._obj = e` (a local `self__obj`), `super().__init__(e)` (inlined: `AccessorBase.__init__` is checked to be
    `self._obj = xarray_obj`), and the stored object as the result"""
    BASE_INIT_OK = False

    def __init__(self, cfg, fn, variant, types_hint=None):
        fn2 = copy.copy(fn)
        ret = ast.Return(value=ast.Name(id="self__obj", ctx=ast.Load()))
        fn2.body = list(fn.body) + [ast.fix_missing_locations(ast.copy_location(ret, fn.body[-1]))]
        super().__init__(cfg, fn2, variant, types_hint)

    def stmt(self, s, ind, rest):
        if (isinstance(s, ast.Assign) and len(s.targets) == 1 and isinstance(s.targets[0], ast.Attribute)
                and isinstance(s.targets[0].value, ast.Name) and s.targets[0].value.id == "self" and s.targets[0].attr == "_obj"):
            term, t = self.expr(s.value)
            self.declare_or_assign(ind, "self__obj", term, t)
            return False
        if (isinstance(s, ast.Expr) and isinstance(s.value, ast.Call) and isinstance(s.value.func, ast.Attribute)
                and s.value.func.attr == "__init__" and ast.dump(s.value.func.value) == dump("super()")):
            c = s.value
            if c.keywords or len(c.args) != 1 or not GP.BASE_INIT_OK:
                raise Unsupported("super().__init__(..): arguments / base class initialiser")
            if ind != 1:
                raise Unsupported("super().__init__(..) inside a block")
            term, t = self.expr(c.args[0])
            self.declare_or_assign(ind, "self__obj", term, t)
            self.skipped.append("super().__init__(e) is `self._obj = e` (AccessorBase.__init__, checked)")
            return False
        return super().stmt(s, ind, rest)


CTOR_CFG = dict(
    name="timebase_init", module="GluePeriod", file=ACC, cls="AccessorTimeBase", func="__init__",
    params=dict(xarray_obj="abs:Obj"),
    libs=[
        Lib("is_datetime64", "np.issubdtype($o, np.datetime64)", args=dict(o="abs:Obj"), ret="bool", doc="the dtype check"),
        Lib("has_time_attr", "hasattr($o, 'time')", args=dict(o="abs:Obj"), ret="bool"),
        Lib("time_in_dims", "'time' in $o.dims", args=dict(o="abs:Obj"), ret="bool"),
        Lib("expand_dims_time", "$o.expand_dims('time')", args=dict(o="abs:Obj"), ret="abs:Obj"),
    ],
)


def check_base_init(mod):
    base = find_class(mod, "AccessorBase")
    if bases_of(base):
        raise Unsupported("AccessorBase has base classes")
    init = [s for s in base.body if isinstance(s, ast.FunctionDef) and s.name == "__init__"]
    if len(init) != 1:
        raise Unsupported("AccessorBase.__init__")
    init = init[0]
    a = init.args
    if [x.arg for x in a.args] != ["self", "xarray_obj"] or a.defaults or a.kwonlyargs or a.vararg or a.kwarg or init.decorator_list:
        raise Unsupported("AccessorBase.__init__: signature")
    body = strip_doc(init.body)
    if len(body) != 1 or ast.dump(body[0]) != ast.dump(ast.parse("self._obj = xarray_obj").body[0]):
        raise Unsupported("AccessorBase.__init__ is not `self._obj = xarray_obj`")
    return init


def timebase(mod, src):
    cls = find_class(mod, "AccessorTimeBase")
    if bases_of(cls) != ["AccessorBase"] or cls.decorator_list:
        raise Unsupported("class AccessorTimeBase: bases / decorators")
    base_init = check_base_init(mod)
    out, seen = [], []
    for s in strip_doc(cls.body):
        if not isinstance(s, ast.FunctionDef):
            raise Unsupported(f"class AccessorTimeBase: statement `{ast.unparse(s)[:50]}`")
        seen.append(s.name)
        if s.name == "__init__":
            a = s.args
            if ([x.arg for x in a.args] != ["self", "xarray_obj"] or a.defaults or a.kwonlyargs or a.vararg or a.kwarg
                    or a.posonlyargs or s.decorator_list):
                raise Unsupported("AccessorTimeBase.__init__: signature")
            GP.BASE_INIT_OK = True
            saved = B.G
            B.G = GP
            try:
                text = translate(CTOR_CFG)
            finally:
                B.G = saved
            body = text.split("open Hdc.PyGlue\n\n", 1)[1].rsplit("\nend Hdc.Gen.Glue", 1)[0]
            out.append(body)
        elif s.name in ("year", "month", "day"):
            check_property(s, "AccessorTimeBase")
            body = strip_doc(s.body)
            want = f"self._obj.time.dt.{s.name}"
            if len(body) != 1 or not isinstance(body[0], ast.Return) or body[0].value is None or ast.dump(body[0].value) != dump(want):
                raise Unsupported(f"AccessorTimeBase.{s.name} is not `return {want}`")
            out.append(f"/-- `AccessorTimeBase.{s.name}`: `{want}` (library parameter) -/\n"
                       f"def timebase_{s.name} {{R : Type}} (time_dt_{s.name} : R) : R := time_dt_{s.name}\n")
        else:
            raise Unsupported(f"AccessorTimeBase.{s.name}: unknown member")
    if sorted(seen) != ["__init__", "day", "month", "year"]:
        raise Unsupported(f"AccessorTimeBase members {seen}")
    return "\n".join(out), [base_init, cls]


# ------------------------------------------------------------------------------------------------- DekadPeriod
PERIOD_CLASSES = {
    # python class name -> (import that must be present, Lean instantiation)
    "Dekad": (("dekad", 1, "Dekad"),
              "/-- `_period_cls = Dekad`: the GENERATED dekad class (Hdc/Gen/Dekad.lean); `Dekad(x)` for a Timestamp `x` (a `datetime`) is\n"
              "    `ofDate x.year x.month x.day` -/\n"
              "def dekadCls : PeriodCls Hdc.AccPeriod.Instant Int Hdc.PyDate.DateTime where\n"
              "  ofInstant := fun t => Hdc.Gen.Dekad.ofDate t.year t.month t.day\n"
              "  idx := Hdc.Gen.Dekad.idx\n  yidx := Hdc.Gen.Dekad.yidx\n  ndays := Hdc.Gen.Dekad.ndays\n  str := Hdc.Gen.Dekad.str\n"
              "  start_date := Hdc.Gen.Dekad.start_date\n  end_date := Hdc.Gen.Dekad.end_date\n  raw := Hdc.Gen.Dekad.raw\n"),
}
DEKAD_DECOS = ["xarray.register_dataset_accessor('dekad')", "xarray.register_dataarray_accessor('dekad')"]


def dekad_period(mod):
    cls = find_class(mod, "DekadPeriod")
    if bases_of(cls) != ["Period"]:
        raise Unsupported(f"class DekadPeriod: bases {bases_of(cls)}")
    if sorted(ast.unparse(d) for d in cls.decorator_list) != sorted(DEKAD_DECOS):
        raise Unsupported("class DekadPeriod: decorators (accessor registration)")
    body = strip_doc(cls.body)
    if (len(body) != 1 or not isinstance(body[0], ast.Assign) or len(body[0].targets) != 1
            or ast.unparse(body[0].targets[0]) != "_period_cls" or not isinstance(body[0].value, ast.Name)):
        raise Unsupported("class DekadPeriod: body is not `_period_cls = <Name>`")
    nm = body[0].value.id
    if nm not in PERIOD_CLASSES:
        raise Unsupported(f"_period_cls = {nm}: no generated Lean class of that name")
    (imod, ilevel, iname), text = PERIOD_CLASSES[nm]
    imps = [n for n in mod.body if isinstance(n, ast.ImportFrom) and any((a.asname or a.name) == nm for a in n.names)]
    if (len(imps) != 1 or imps[0].module != imod or imps[0].level != ilevel
            or not any(a.name == iname and a.asname is None for a in imps[0].names)):
        raise Unsupported(f"the name {nm} is not imported by `from .{imod} import {iname}`")
    for n in ast.walk(mod):
        if isinstance(n, ast.Name) and isinstance(n.ctx, ast.Store) and n.id == nm:
            raise Unsupported(f"the name {nm} is re-bound in the module")
        if isinstance(n, (ast.FunctionDef, ast.ClassDef)) and n.name == nm:
            raise Unsupported(f"the name {nm} is re-defined in the module")
    return text, cls


PRELUDE = """/-- the period class (`Dekad`, a pentad class ..) as a parameter: construction from an element of the time axis and the
    properties the accessor maps over the axis; `ndays`, `start_date`, `end_date` may raise -/
structure PeriodCls (T P D : Type) where
  ofInstant : T → P
  idx : P → Int
  yidx : P → Int
  ndays : P → Except PyErr Int
  str : P → String
  start_date : P → Except PyErr D
  end_date : P → Except PyErr D
  raw : P → Int

/-- `warnings.warn(<text>, <Category>, <stacklevel>)` (the text is dropped) -/
inductive PyWarning where
  | deprecationWarning (stacklevel : Int)
  | futureWarning (stacklevel : Int)
  | userWarning (stacklevel : Int)
  deriving DecidableEq, Repr
"""


def translate_period():
    src = (REPO / ACC).read_text()
    mod = ast.parse(src)
    if not any(isinstance(n, ast.ImportFrom) and n.module == "warnings" and n.level == 0
               and any(a.name == "warn" and a.asname is None for a in n.names) for n in mod.body):
        raise Unsupported("`from warnings import warn` not found")
    pcls = find_class(mod, "Period")
    if bases_of(pcls) != ["AccessorTimeBase"] or pcls.decorator_list:
        raise Unsupported("class Period: bases / decorators")
    tb_text, tb_nodes = timebase(mod, src)
    p_text = PeriodTr(pcls).run()
    d_text, dcls = dekad_period(mod)
    sha = sha_of(src, tb_nodes + [pcls, dcls])
    return ("import Hdc.PyGlue\nimport Hdc.Gen.Dekad\nimport Hdc.Model.AccPeriod\n/-\n"
            f"GENERATED by {TOOL} from {ACC}::AccessorBase.__init__, AccessorTimeBase, Period, DekadPeriod "
            f"(sha256 of the class sources {sha}).  Do not edit.\n"
            "The time axis is the list of its elements (`time_to_series : List T`); `Series.apply(f).to_xarray()` is `List.map f`\n"
            "(`List.mapM` in `Except PyErr` when `f` can raise); the period class is the parameter `cls : PeriodCls T P D`.\n"
            "-/\nnamespace Hdc.Gen.Glue\nopen Hdc Hdc.Py Hdc.PyGlue\n\n" + PRELUDE + "\n" + tb_text + "\n" + p_text + "\n" + d_text
            + "\nend Hdc.Gen.Glue\n")


# ------------------------------------------------------------------------------------------------- Anomalies
ARITH = {ast.Add: ("+", "Add"), ast.Sub: ("-", "Sub"), ast.Mult: ("*", "Mul"), ast.Div: ("/", "Div")}
ANOM_FUNCS = ["ratio", "diff"]


class AnomTr:
    def __init__(self, fn):
        self.fn = fn
        self.classes, self.lits = [], []

    def need(self, c):
        if c not in self.classes:
            self.classes.append(c)

    def expr(self, e):
        if ast.dump(e) == dump("self._obj"):
            return "obj"
        if isinstance(e, ast.Name) and e.id in ("reference", "offset"):
            return e.id
        if isinstance(e, ast.Constant) and isinstance(e.value, int) and not isinstance(e.value, bool) and e.value >= 0:
            if e.value not in self.lits:
                self.lits.append(e.value)
            return f"({e.value} : α)"
        if isinstance(e, ast.BinOp) and type(e.op) in ARITH:
            sym, c = ARITH[type(e.op)]
            l = self.expr(e.left)
            r = self.expr(e.right)
            self.need(c)
            return f"({l} {sym} {r})"
        raise Unsupported(f"expression `{ast.unparse(e)[:60]}`")

    def run(self):
        fn = self.fn
        a = fn.args
        if ([x.arg for x in a.args] != ["self", "reference", "offset"] or a.kwonlyargs or a.vararg or a.kwarg or a.posonlyargs
                or fn.decorator_list or len(a.defaults) != 1):
            raise Unsupported(f"Anomalies.{fn.name}: signature")
        d = a.defaults[0]
        if not (isinstance(d, ast.Constant) and isinstance(d.value, int) and not isinstance(d.value, bool) and d.value >= 0):
            raise Unsupported(f"Anomalies.{fn.name}: default of offset")
        body = strip_doc(fn.body)
        if len(body) != 1 or not isinstance(body[0], ast.Return) or body[0].value is None:
            raise Unsupported(f"Anomalies.{fn.name}: body is not [docstring] return <expr>")
        term = self.expr(body[0].value)
        order = ["Add", "Sub", "Mul", "Div"]
        inst = " ".join(f"[{c} α]" for c in order if c in self.classes) + "".join(f" [OfNat α {v}]" for v in sorted(self.lits))
        inst_d = inst + ("" if d.value in self.lits else f" [OfNat α {d.value}]")
        src = ast.unparse(body[0].value)
        return (f"/-- `Anomalies.{fn.name}(reference, offset)`: `{src}` (element-wise on the carrier `α`) -/\n"
                f"def anomalies_{fn.name} {{α : Type}} {inst.strip()} (obj reference offset : α) : α :=\n  {term}\n\n"
                f"/-- `Anomalies.{fn.name}(reference)`: the default `offset={d.value}` of the signature -/\n"
                f"def anomalies_{fn.name}_default {{α : Type}} {inst_d.strip()} (obj reference : α) : α :=\n"
                f"  anomalies_{fn.name} obj reference ({d.value} : α)\n")


def translate_anomalies():
    src = (REPO / ACC).read_text()
    mod = ast.parse(src)
    base_init = check_base_init(mod)
    cls = find_class(mod, "Anomalies")
    if bases_of(cls) != ["AccessorBase"]:
        raise Unsupported("class Anomalies: bases")
    fns = {}
    for s in strip_doc(cls.body):
        if not isinstance(s, ast.FunctionDef) or s.name not in ANOM_FUNCS or s.name in fns:
            raise Unsupported(f"class Anomalies: member `{ast.unparse(s)[:40]}`")
        fns[s.name] = s
    if sorted(fns) != sorted(ANOM_FUNCS):
        raise Unsupported(f"class Anomalies: members {sorted(fns)}")
    defs = "\n".join(AnomTr(fns[n]).run() for n in ANOM_FUNCS)
    sha = sha_of(src, [base_init] + [fns[n] for n in ANOM_FUNCS])
    return ("/-\n"
            f"GENERATED by {TOOL} from {ACC}::Anomalies.ratio, Anomalies.diff (and AccessorBase.__init__: `self._obj` is the accessed "
            f"object) (sha256 of the function sources {sha}).  Do not edit.\n"
            "The xarray objects are elements of an abstract carrier `α` with the arithmetic operators the source uses; an integer literal\n"
            "`k` of the source is `(k : α)`.\n-/\nnamespace Hdc.Gen.Glue\n\n" + defs + "\nend Hdc.Gen.Glue\n")


MODULES = [("GluePeriod", translate_period), ("GlueAnomalies", translate_anomalies)]


def main():
    rc = 0
    for module, fn in MODULES:
        try:
            write_if_changed(GEN / f"{module}.lean", fn())
        except (Unsupported, StopIteration, KeyError, IndexError, AttributeError, OSError, SyntaxError) as e:
            print(f"FAILED Hdc.Gen.{module}: unsupported construct: {e!r}")
            rc = 1
    return rc


if __name__ == "__main__":
    sys.exit(main())
