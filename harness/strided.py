"""Layout probe shared by C13 / C14: every gufunc kernel is called with each array argument in turn handed over as a NON-contiguous view
(a column of a 2-d array whose other columns hold different values; an every-other-cell view) and must return exactly what it returns for
a contiguous copy of the same values.  A signature that declares an argument C-contiguous (`int16[::1]`) makes the compiled loop ignore the
stride NumPy passes: it then reads the neighbouring cells - memory outside the argument it was given."""
import numpy as np


def _decoy(a, k):
    """plausible but different values for the cells beside / between the argument's own cells: a kernel that ignores the stride
    computes with them and (unlike with a constant filler) almost surely returns something else"""
    a = np.asarray(a)
    if a.dtype.kind == "f":
        return (a + (0.123 if k == 0 else -0.077) * (1.0 + np.abs(a))).astype(a.dtype)
    if a.dtype.kind == "b" or (a.size and a.min() >= 0 and a.max() <= 1):
        return (1 - a.astype("int64")).astype(a.dtype) if k == 0 else a[::-1].copy()
    return (a.astype("int64") + (37 if k == 0 else -11)).clip(np.iinfo(a.dtype).min, np.iinfo(a.dtype).max).astype(a.dtype)


def _views(a, rng):
    a = np.asarray(a)
    out = []
    if a.ndim == 1:
        big = np.empty((a.size, 3), dtype=a.dtype)
        big[:, 0], big[:, 1], big[:, 2] = _decoy(a, 0), a, _decoy(a, 1)
        out.append(("column of a 2-d array", big[:, 1]))
        big1 = np.empty(2 * a.size + 1, dtype=a.dtype)
        big1[0::2] = np.concatenate([_decoy(a, 1), _decoy(a, 1)[-1:]]) if a.size else 0
        big1[1::2] = a
        out.append(("every other cell", big1[1::2]))
    elif a.ndim == 2:
        out.append(("Fortran order", np.asfortranarray(a)))
        big = np.empty((a.shape[0], 2 * a.shape[1]), dtype=a.dtype)
        big[:, 1::2] = _decoy(a.ravel(), 0).reshape(a.shape)
        big[:, ::2] = a
        out.append(("every other column", big[:, ::2]))
    return out


def cases(rng):
    """(name, callable taking the argument list, argument list, indices of the array arguments)"""
    from hdc.algo import ops
    from hdc.algo.ops import stats
    n = 24
    y = np.array([3000 + 2000 * np.sin(i / 3.0) + rng.randint(-300, 300) for i in range(n)], dtype="float64")
    nd = -3000.0
    yg = y.copy()
    for i in rng.sample(range(2, n - 2), 4):
        yg[i] = nd
    sr = np.arange(-1.0, 2.5, 0.5)
    x16 = yg.astype("int16")
    rain = np.array([max(0, rng.gauss(300, 120)) for _ in range(n)])
    groups = np.array([i % 2 for i in range(n)], dtype="int16")
    cal = np.array([[0, n // 2], [0, n // 2]], dtype="int16")
    tmpl = np.zeros(10 * n - 5, dtype="float64")
    tmpl[::10] = 1
    labels = (np.arange(tmpl.size) // 10).astype("int32")
    tout = np.zeros(int(labels[-1]) + 1, dtype="uint8")
    ones = np.array([rng.random() < 0.6 for _ in range(n)], dtype="uint8")
    return [
        ("ws2dgu", ops.ws2dgu, [yg, 10.0, nd], [0]),
        ("ws2dpgu", ops.ws2dpgu, [yg, 10.0, nd, 0.9], [0]),
        ("ws2doptv", ops.ws2doptv, [yg, nd, sr], [0, 2]),
        ("ws2doptvp", ops.ws2doptvp, [yg, nd, 0.9, sr], [0, 3]),
        ("ws2doptvplc", ops.ws2doptvplc, [x16, nd, 0.9, 0.7], [0]),
        ("ws2dwcv", ops.ws2dwcv, [yg, nd, sr, False], [0, 2]),
        ("ws2dwcv robust", ops.ws2dwcv, [yg, nd, sr, True], [0, 2]),
        ("ws2dwcvp", ops.ws2dwcvp, [yg, nd, 0.9, sr, False], [0, 3]),
        ("tinterpolate", ops.tinterpolate, [x16[:n].clip(0), tmpl, labels, tout], [0, 1, 2]),
        ("lroo", ops.lroo, [ones], [0]),
        ("gammastd_grp int16", stats.gammastd_grp, [rain.astype("int16"), groups, 2.0, -9999.0, cal], [0, 1, 4]),
        ("gammastd_grp float32", stats.gammastd_grp, [rain.astype("float32"), groups, 2.0, -9999.0, cal], [0, 1, 4]),
        ("_mann_kendall_trend_gu int16", stats._mann_kendall_trend_gu, [x16], [0]),
        ("_mann_kendall_trend_gu_nd float32", stats._mann_kendall_trend_gu_nd, [yg.astype("float32"), -3000.0], [0]),
        ("mean_grp", stats.mean_grp, [x16, groups, 2.0, nd], [0, 1]),
        ("mean_grp int32", stats.mean_grp, [x16.astype("int32"), groups, 2.0, nd], [0]),
        ("mean_grp float32", stats.mean_grp, [x16.astype("float32"), groups, 2.0, nd], [0]),
        ("rolling_sum", stats.rolling_sum, [x16, 3.0, nd], [0]),
        ("rolling_sum int32", stats.rolling_sum, [x16.astype("int32"), 3.0, nd], [0]),
        ("rolling_sum int64", stats.rolling_sum, [x16.astype("int64"), 3.0, nd], [0]),
        ("rolling_sum float32", stats.rolling_sum, [x16.astype("float32"), 3.0, nd], [0]),
    ]


def _same(a, b):
    a = a if isinstance(a, tuple) else (a,)
    b = b if isinstance(b, tuple) else (b,)
    return len(a) == len(b) and all(np.array_equal(np.asarray(u), np.asarray(v), equal_nan=np.asarray(u).dtype.kind == "f") for u, v in zip(a, b))


def probe(ctx, required, only=None):
    for name, fn, args, arr_ix in cases(ctx.rng):
        if only is not None and not any(name == o or name.startswith(o + " ") for o in only):
            continue
        ref = fn(*args)
        for ix in arr_ix:
            for how, view in _views(args[ix], ctx.rng):
                alt = list(args)
                alt[ix] = view
                assert not view.flags["C_CONTIGUOUS"] or view.size <= 1
                ctx.case(("strided", name, ix, how), sample=dict(kernel=name, argument=ix, layout=how))
                ctx.count("non-contiguous argument layouts")
                try:
                    got = fn(*alt)
                except Exception as e:  # noqa: BLE001
                    ctx.fail(name, dict(argument=ix, layout=how), repr(e)[:200], "no exception for a non-contiguous argument")
                    continue
                if not _same(got, ref):
                    g0 = np.asarray(got[0] if isinstance(got, tuple) else got).ravel()[:8].tolist()
                    r0 = np.asarray(ref[0] if isinstance(ref, tuple) else ref).ravel()[:8].tolist()
                    ctx.fail(name, dict(argument=ix, layout=how, values=np.asarray(args[ix]).ravel()[:12].tolist()), g0, r0, note=required)
