"""Shared helpers for the SPI properties C07-C09."""
import math

import numpy as np

from . import core

_sc = None


def special():
    global _sc
    if _sc is None:
        import scipy.special as sc
        _sc = sc
    return _sc


NAN_PATH = [0]


def oracle_fn(name, args):
    """see below; also notes when the computation left the model's domain (NaN / non-positive abscissa)"""
    v = _oracle_fn(name, args)
    if v != v or any(a != a for a in args) or (name == "digamma" and args[0] <= 0):
        NAN_PATH[0] += 1
    return v


def _oracle_fn(name, args):
    """External special functions for the Lean model: SciPy's Python-level ufuncs (the compiled kernels are bound to the
    same implementations through cython_special pointers)."""
    sc = special()
    with np.errstate(all="ignore"):
        return float({"digamma": sc.digamma, "gammainc": sc.gammainc, "ndtri": sc.ndtri}[name](*args))


def real_spi(x, nodata, cs=None, ce=None):
    from hdc.algo.ops.stats import gammastd_yxt
    arr = np.asarray(x).reshape(1, 1, -1)
    return gammastd_yxt(arr, nodata, cs, ce)[0, 0].astype(np.int64)


def model_spi(dlg: core.Dialogue, x, nodata, cs, ce):
    before = NAN_PATH[0]
    a = dlg.ask(f"spi F {core.farr(np.asarray(x, dtype='float64'))} {core.f2h(float(nodata))} {cs} {ce}", oracle_fn)
    t = a.split()
    if t[0] != "ok":
        return None
    cells = [core.h2f(v) for v in t[1][1:-1].split(",")] if len(t[1]) > 2 else []
    # nan_path: a NaN or the logarithm of a non-positive number occurred (e.g. a numerically constant pixel whose
    # s = log(mean) - mean(log) rounds to a negative number); the model's equality test is not IEEE-faithful on NaN,
    # such cases are outside the model and only the property oracle judges them
    return dict(cells=np.array(cells), alpha=core.h2f(t[3]), beta=core.h2f(t[4]), nan_path=NAN_PATH[0] > before)


def scipy_spi(x, nodata, cs, ce, ds=0.0):
    """Independent evaluation of the definition: gamma MLE on the positive values of the window, zero mixture,
    normal quantile. Returns (values*1000 unrounded with nan at nodata cells, info) or (None, reason).
    `ds` is added to the sufficient statistic s = log(mean) - mean(log) before the likelihood equation is solved (interval
    oracle for float32 input: the compiled float32 loop takes single-precision logarithms)."""
    import scipy.optimize as so
    sc = special()
    x = np.asarray(x, dtype="float64")
    valid = (x != nodata) & (x >= 0)
    if valid.sum() == 0:
        return None, "no valid cell"
    p0 = float((x[valid] == 0).sum()) / float(valid.sum())
    win = x[cs:ce]
    pos = win[(win > 0)]
    if p0 > 0.9 or len(np.unique(pos)) < 2:
        return None, "outside the claim (p0 > 0.9 or fewer than two distinct positive values)"
    mean = pos.mean()
    s = math.log(mean) - np.log(pos).mean() + ds
    if not s > 0:
        return None, "s <= 0 (numerically constant)"
    f = lambda a: math.log(a) - float(sc.digamma(a)) - s  # noqa: E731
    lo, hi = 1e-6, 1e9
    if f(lo) * f(hi) > 0:
        return None, "no root in [1e-6, 1e9]"
    a = so.brentq(f, lo, hi, xtol=1e-15, rtol=4 * np.finfo(float).eps, maxiter=500)
    b = mean / a
    out = np.full(x.shape, np.nan)
    with np.errstate(all="ignore"):
        h = p0 + (1 - p0) * sc.gammainc(a, x[valid] / b)
        out[valid] = 1000.0 * sc.ndtri(h)
    return out, dict(alpha=a, beta=b, p0=p0, s=s, maxlog=float(np.abs(np.log(pos)).max()))


def rain_series(rng, n, dtype="float64"):
    shape = rng.choice([0.05, 0.3, 1.0, 2.5, 8.0, 60.0, 500.0])
    scale = rng.choice([0.1, 1.0, 10.0, 60.0, 1e3, 1e4])
    pz = rng.choice([0.0, 0.0, 0.1, 0.4, 0.8, 0.89])
    vals = []
    for _ in range(n):
        if rng.random() < pz:
            vals.append(0.0)
        else:
            v = rng.gammavariate(shape, scale)
            vals.append(v)
    arr = np.array(vals)
    if dtype == "int16":
        arr = np.clip(np.round(arr), 0, 32000)
    return arr
