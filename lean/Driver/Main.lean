import Hdc.Model.Ws2d
import Hdc.Model.Smooth
import Hdc.Model.Stats
import Hdc.Model.Discrete
import Hdc.Py
import Hdc.Model.PyDate
import Hdc.Model.Bounds
/-
Line-protocol driver: one case per input line, one answer per output line.
  <kernel> <F|Q> <args...>      numeric kernels at Float (binary64, values as 16-hex-digit bit
                                patterns `h...`) or at Rat (`p/q`)
  <kernel> <args...>            integer kernels
Arrays are `[a,b,c]` without spaces (`[]` empty).  Answers: `ok ...` or `err <kind>`.
-/
open Hdc

/-! ## encoding -/

def hexDigit (c : Char) : Option Nat :=
  if '0' ≤ c ∧ c ≤ '9' then some (c.toNat - '0'.toNat)
  else if 'a' ≤ c ∧ c ≤ 'f' then some (c.toNat - 'a'.toNat + 10)
  else none

def parseHex (s : String) : Option Nat :=
  s.toList.foldl (fun acc c => do let a ← acc; let d ← hexDigit c; pure (a * 16 + d)) (some 0)

def toHex16 (n : Nat) : String :=
  let ds := (List.range 16).map fun i => (n >>> (4 * (15 - i))) % 16
  String.ofList (ds.map fun d => if d < 10 then Char.ofNat (48 + d) else Char.ofNat (87 + d))

class Codec (α : Type) where
  enc : α → String
  dec : String → Option α

instance : Codec Float where
  enc x := "h" ++ toHex16 x.toBits.toNat
  dec s := if s.startsWith "h" then (parseHex (s.drop 1).toString).map fun n => Float.ofBits n.toUInt64 else none

def parseRat (s : String) : Option Rat :=
  match s.splitOn "/" with
  | [a] => a.toInt?.map fun i => (i : Rat)
  | [a, b] => do
    let i ← a.toInt?
    let j ← b.toNat?
    if j = 0 then none else pure ((i : Rat) / (j : Rat))
  | _ => none

instance : Codec Rat where
  enc x := if x.den = 1 then toString x.num else s!"{x.num}/{x.den}"
  dec := parseRat

instance : Codec Int where
  enc x := toString x
  dec s := s.toInt?

instance : Codec Nat where
  enc x := toString x
  dec s := s.toNat?

def decArr {α : Type} [Codec α] (s : String) : Option (List α) :=
  if s.startsWith "[" ∧ s.endsWith "]" then
    let inner := ((s.drop 1).dropEnd 1).toString
    if inner.isEmpty then some [] else (inner.splitOn ",").mapM Codec.dec
  else none

def encArr {α : Type} [Codec α] (l : List α) : String :=
  "[" ++ ",".intercalate (l.map Codec.enc) ++ "]"

instance : NatCast Float := ⟨Float.ofNat⟩

/-! ## carriers -/

class Carrier (α : Type) extends Add α, Sub α, Mul α, Div α, Neg α, NatCast α, LT α, Codec α where
  decLt : DecidableLT α
  isNonFinite : α → Bool
  round : α → α
  vf : VFns α
  gf : GFns α
  mkf : MKFns α
  rsqrt : α → α
  eps : α
  lam1em5 : α
  ofInt : Int → α

instance {α} [Carrier α] : DecidableLT α := Carrier.decLt

def piF : Float := Float.ofBits 0x400921FB54442D18

instance : Carrier Float where
  decLt := inferInstance
  isNonFinite x := x.isNaN || x.isInf
  round := Py.roundHalfEvenFloat
  vf := { log := Float.log, sqrt := Float.sqrt, pow10 := fun x => Float.pow 10.0 x, ln10 := Float.log 10.0 }
  gf := { eig := fun i m => -2.0 + 2.0 * Float.cos (Float.ofNat i * piF / Float.ofNat m),
          eig0 := 1e-15, sqrt := Float.sqrt, sqrtw := fun x => Float.pow x 0.5,
          pow10 := fun x => Float.pow 10.0 x, big := 1e15, c1 := 1.4826, c2 := 4.685, madtol := 1e-9 }
  mkf := { sqrt := Float.sqrt, erf := fun x => x, half := 0.5, zcrit := 1.959963984540054, ofInt := Float.ofInt }
  rsqrt x := Float.pow x (-0.5)
  eps := 1e-8
  lam1em5 := 0.00001
  ofInt := Float.ofInt

/-- surrogates at Rat: identical definitions are used on the Python side (harness/qnum.py) -/
instance : Carrier Rat where
  decLt := inferInstance
  isNonFinite _ := false
  round x := (Py.roundHalfEvenRat x : Rat)
  vf := { log := fun x => x, sqrt := fun x => x, pow10 := fun x => x, ln10 := 1 }
  gf := { eig := fun _ _ => 0, eig0 := 0, sqrt := fun x => x, sqrtw := fun x => x, pow10 := fun x => x,
          big := 1000000000000000, c1 := (7413 : Rat) / 5000, c2 := (937 : Rat) / 200, madtol := (1 : Rat) / 1000000000 }
  mkf := { sqrt := fun x => x, erf := fun x => x, half := (1 : Rat) / 2, zcrit := 2, ofInt := fun i => (i : Rat) }
  rsqrt x := x
  eps := (1 : Rat) / 100000000
  lam1em5 := (1 : Rat) / 100000
  ofInt i := (i : Rat)

/-! ## kernels -/

section
variable {α : Type} [Carrier α]

def missAll (nodata : α) (x : α) : Bool := eqv x nodata || Carrier.isNonFinite x
def missNd (nodata : α) (x : α) : Bool := eqv x nodata

def answerCurve (r : Option (List α)) : String :=
  match r with
  | none => "ok pass"
  | some z => s!"ok curve {encArr z} {encArr (z.map Carrier.round)}"

def answerCurveL (r : Option (List α × α)) : String :=
  match r with
  | none => "ok pass"
  | some (z, l) => s!"ok curve {encArr z} {encArr (z.map Carrier.round)} {Codec.enc l}"

def answerGcv (r : GcvOut α) : String :=
  match r with
  | .passthrough => "ok pass"
  | .unbound => "err unbound"
  | .ok z l => s!"ok curve {encArr z} {encArr (z.map Carrier.round)} {Codec.enc l}"

def runNumeric (k : String) (args : List String) : Option String := do
  match k, args with
  | "ws2d", [y, lam, w] =>
    let y ← decArr (α := α) y; let lam ← Codec.dec (α := α) lam; let w ← decArr (α := α) w
    if y.length < 3 ∨ w.length ≠ y.length then pure "err contract"
    else pure s!"ok {encArr (ws2d y lam w)}"
  | "pivots", [y, lam, w] =>
    let y ← decArr (α := α) y; let lam ← Codec.dec (α := α) lam; let w ← decArr (α := α) w
    pure s!"ok {encArr ((ws2dRows y lam w).map (·.d))}"
  | "gu", [y, lam, nd] =>
    let y ← decArr (α := α) y; let lam ← Codec.dec (α := α) lam; let nd ← Codec.dec (α := α) nd
    pure (answerCurve (gu (missAll nd) y lam))
  | "pgu", [y, lam, nd, p] =>
    let y ← decArr (α := α) y; let lam ← Codec.dec (α := α) lam; let nd ← Codec.dec (α := α) nd
    let p ← Codec.dec (α := α) p
    pure (answerCurve (pgu (missAll nd) y lam p))
  | "optv", [y, nd, llas] =>
    let y ← decArr (α := α) y; let nd ← Codec.dec (α := α) nd; let llas ← decArr (α := α) llas
    pure (answerCurveL (optv Carrier.vf (missNd nd) y llas))
  | "optvp", [y, nd, p, llas] =>
    let y ← decArr (α := α) y; let nd ← Codec.dec (α := α) nd; let p ← Codec.dec (α := α) p
    let llas ← decArr (α := α) llas
    pure (answerCurveL (optvp Carrier.vf (missNd nd) y p llas))
  | "optvplc", [y, nd, p, hi, lo, g1, g2, g3] =>
    let y ← decArr (α := α) y; let nd ← Codec.dec (α := α) nd; let p ← Codec.dec (α := α) p
    let g1 ← decArr (α := α) g1; let g2 ← decArr (α := α) g2; let g3 ← decArr (α := α) g3
    pure (answerCurveL (optvplc Carrier.vf (missNd nd) y p (hi == "1") (lo == "1") g1 g2 g3))
  | "optvpcore", [y, w, p, llas] =>
    let y ← decArr (α := α) y; let w ← decArr (α := α) w; let p ← Codec.dec (α := α) p
    let llas ← decArr (α := α) llas
    pure (answerCurveL (optvpCore Carrier.vf y w p llas))
  | "wcv", [y, nd, llas, robust] =>
    let y ← decArr (α := α) y; let nd ← Codec.dec (α := α) nd; let llas ← decArr (α := α) llas
    pure (answerGcv (wcv Carrier.gf (missAll nd) y llas (robust == "1")))
  | "wcvp", [y, nd, p, llas, robust] =>
    let y ← decArr (α := α) y; let nd ← Codec.dec (α := α) nd; let p ← Codec.dec (α := α) p
    let llas ← decArr (α := α) llas
    pure (answerGcv (wcvp Carrier.gf (missAll nd) y p llas (robust == "1")))
  | "wcvdiag", [y, nd, llas, robust] =>
    -- best (score, lambda) after each robust iteration, on the cleaned data (diagnostic for criterion ties)
    let y ← decArr (α := α) y; let nd ← Codec.dec (α := α) nd; let llas ← decArr (α := α) llas
    let yc := cleanOf (missAll nd) y
    let w := weightsOf (missAll nd) y
    let G : GFns α := Carrier.gf
    match gcvIter G yc w (deigs G yc.length) (llas.map G.pow10) (robust == "1") (sumF w)
        (if robust == "1" then 4 else 1) 0 ⟨G.big, nat 0, none⟩ (yc.map fun _ => nat 1) [] with
    | none => pure "err unbound"
    | some (hist, rw) => pure s!"ok {encArr (hist.map (·.score))} {encArr (hist.map (·.lam))} {encArr (mul2 w rw)}"
  | "autocorr", [vals, mask] =>
    let v ← decArr (α := α) vals; let m ← decArr (α := Nat) mask
    let data := (v.zip m).map fun (x, k) => if k = 1 then some x else none
    pure s!"ok {Codec.enc (autocorr1d Carrier.rsqrt Carrier.eps data)}"
  | "mk", [x] =>
    let x ← decArr (α := α) x
    let (tau, _, slope, _) := mkTrend Carrier.mkf x
    let vs : α := Carrier.ofInt (mkVar18 x) / nat 18
    let z := mkZ Carrier.mkf (mkS x) vs
    pure s!"ok {mkS x} {Codec.enc tau} {mkVar18 x} {Codec.enc z} {Codec.enc slope}"
  | "tinterp", [x, template, labels] =>
    let x ← decArr (α := α) x; let t ← decArr (α := α) template; let l ← decArr (α := Int) labels
    let r := tinterp Carrier.lam1em5 x t l
    pure s!"ok {encArr (r.map fun (v, k) => v / nat k)} {encArr (r.map fun (v, k) => Carrier.round (v / nat k))}"
  | _, _ => none
end

def encPairs (l : List (Nat × Nat)) : String :=
  "[" ++ ",".intercalate (l.map fun (a, b) => s!"{a}:{b}") ++ "]"

def runDiscrete (k : String) (args : List String) : Option String := do
  match k, args with
  | "lroo", [d] =>
    let d ← decArr (α := Nat) d
    pure s!"ok {lroo d} {wrapS 32 (lroo d)} {wrapU 8 (lroo d)}"
  | "croo", [t, v] =>
    let t ← decArr (α := Int) t; let v ← decArr (α := Nat) v
    pure s!"ok {croo (t.zip v)}"
  | "rolling", [x, w, nd] =>
    let x ← decArr (α := Int) x; let w ← Codec.dec (α := Nat) w; let nd ← Codec.dec (α := Int) nd
    if w = 0 ∨ w > x.length then pure "err contract"
    else pure s!"ok {encArr (rollingSum x w nd)} {encArr (rollingSumPinned x w nd)}"
  | "meangrp", [x, g, ng, nd] =>
    let x ← decArr (α := Int) x; let g ← decArr (α := Int) g; let ng ← Codec.dec (α := Nat) ng
    let nd ← Codec.dec (α := Int) nd
    let r := meanGrp x g ng nd
    pure ("ok [" ++ ",".intercalate (r.map fun o => match o with
      | none => "u" | some (s, c) => if c = 0 then "nd" else s!"{s}:{c}") ++ "]")
  | "zonal", [p, z, nz, nd, znd] =>
    let p ← decArr (α := Int) p; let z ← decArr (α := Int) z; let nz ← Codec.dec (α := Nat) nz
    let nd ← Codec.dec (α := Int) nd; let znd ← Codec.dec (α := Int) znd
    let r := zonalMean p z nz nd znd
    pure ("ok [" ++ ",".intercalate (r.map fun (s, c) => s!"{s}:{c}") ++ "]")
  | "iteragg", [size, n, b, e] =>
    let size ← Codec.dec (α := Nat) size; let n ← Codec.dec (α := Nat) n
    let b : Option Int ← if b == "none" then pure none else (Codec.dec (α := Int) b).map some
    let e : Option Int ← if e == "none" then pure none else (Codec.dec (α := Int) e).map some
    match iterAgg size n b e with
    | .ok ws => pure s!"ok {encPairs ws}"
    | .error _ => pure "err ValueError"
  | "calidx", [t, b, e] =>
    let t ← decArr (α := Int) t; let b ← Codec.dec (α := Int) b; let e ← Codec.dec (α := Int) e
    let (i, j) := calIndices t b e
    pure s!"ok {i} {j}"
  | "calidxgrp", [t, g, ng, b, e] =>
    let t ← decArr (α := Int) t; let g ← decArr (α := Nat) g; let ng ← Codec.dec (α := Nat) ng
    let b ← Codec.dec (α := Int) b; let e ← Codec.dec (α := Int) e
    pure s!"ok {encPairs (calIndicesGrp t g ng b e)}"
  | "ord2ymd", [n] =>
    let n ← Codec.dec (α := Int) n
    let (y, m, d) := PyDate.ord2ymd n
    pure s!"ok {y} {m} {d}"
  | "ymd2ord", [y, m, d] =>
    let y ← Codec.dec (α := Int) y; let m ← Codec.dec (α := Int) m; let d ← Codec.dec (α := Int) d
    pure s!"ok {PyDate.ymd2ord y m d}"
  | "trace", kind :: rest =>
    let showT := fun (t : List Bounds.Acc) =>
      "ok [" ++ ",".intercalate (t.map fun a => s!"{a.arr}:{a.idx}:{a.len}:{if a.write then 1 else 0}") ++ "]"
    match kind, rest with
    | "ws2d", [n] => do let n ← Codec.dec (α := Nat) n; pure (showT (Bounds.ws2dTrace n))
    | "tscatter", [n, t] => do let n ← Codec.dec (α := Nat) n; let t ← decArr (α := Int) t; pure (showT (Bounds.tinterpScatter n t))
    | "truns", [l, n] => do let l ← decArr (α := Int) l; let n ← Codec.dec (α := Nat) n; pure (showT (Bounds.tinterpRuns l n))
    | "zonal", [p, z, nz, nd, znd] => do
      let p ← decArr (α := Int) p; let z ← decArr (α := Int) z; let nz ← Codec.dec (α := Nat) nz
      let nd ← Codec.dec (α := Int) nd; let znd ← Codec.dec (α := Int) znd
      pure (showT (Bounds.zonalTrace p z nz nd znd))
    | "rolling", [n, w] => do let n ← Codec.dec (α := Nat) n; let w ← Codec.dec (α := Int) w; pure (showT (Bounds.rollingTrace n w))
    | "vcurve", [m, nl] => do let m ← Codec.dec (α := Nat) m; let nl ← Codec.dec (α := Nat) nl; pure (showT (Bounds.vcurveTrace m nl))
    | _, _ => none
  | "spiwindow", [t, b, e] =>
    let t ← decArr (α := Int) t
    let b : Option Int ← if b == "none" then pure none else (Codec.dec (α := Int) b).map some
    let e : Option Int ← if e == "none" then pure none else (Codec.dec (α := Int) e).map some
    let attrs := match b, e with
      | some b, some e => let (x, y) := spiAttrs t b e; s!"{x} {y}"
      | _, _ => "- -"
    match spiWindow t b e with
    | .ok (i, j) => pure s!"ok {i} {j} {attrs}"
    | .error _ => pure "err ValueError"
  | "spiwindowgrp", [t, g, ng, b, e] =>
    let t ← decArr (α := Int) t; let g ← decArr (α := Nat) g; let ng ← Codec.dec (α := Nat) ng
    let b : Option Int ← if b == "none" then pure none else (Codec.dec (α := Int) b).map some
    let e : Option Int ← if e == "none" then pure none else (Codec.dec (α := Int) e).map some
    match spiWindowGrp t g ng b e with
    | .ok ws => pure s!"ok {encPairs ws}"
    | .error _ => pure "err ValueError"
  | "linspace", [x] =>
    let x ← decArr (α := Int) x
    let (idx, keys) := toLinspace x
    pure s!"ok {encArr idx} {encArr keys}"
  | _, _ => none

/-! ## SPI with an external oracle for digamma / gammainc / ndtri (interactive: `? name args` -> answer line) -/

def askOracle (out inp : IO.FS.Stream) (name : String) (args : List Float) : IO Float := do
  out.putStrLn ("? " ++ name ++ " " ++ " ".intercalate (args.map Codec.enc))
  out.flush
  let line ← inp.getLine
  match Codec.dec (α := Float) line.trimAscii.toString with
  | some v => pure v
  | none => throw (IO.userError s!"bad oracle answer: {line}")

/-- `brentq` of the model with `f a = log a - digamma a - s`, digamma asked from the oracle.
    Uses the model's own `brentStep`; only the evaluation of `f` at the new abscissa is external. -/
def brentIO (out inp : IO.FS.Stream) (xa xb s : Float) : IO Float := do
  let f := fun (a : Float) => do
    let dg ← askOracle out inp "digamma" [a]
    pure (Float.log a - dg - s)
  let fpre ← f xa
  let fcur ← f xb
  if 0 < fpre * fcur then return 0
  if eqv fpre 0 then return xa
  if eqv fcur 0 then return xb
  let mut st : BState Float := ⟨xa, xb, 0, fpre, fcur, 0, 0, 0⟩
  for _ in [0:100] do
    match brentStep (fun _ => (0 : Float)) 2e-12 8.881784197001252e-16 st with
    | .inl x => return x
    | .inr s' =>
      let v ← f s'.xcur
      st := { s' with fcur := v }
  return st.xcur

def lookup2 (tbl : List ((Float × Float) × Float)) (a b : Float) : Float :=
  match tbl.find? (fun e => e.1.1.toBits == a.toBits && e.1.2.toBits == b.toBits) with
  | some e => e.2
  | none => 0.0 / 0.0

def lookup1 (tbl : List (Float × Float)) (a : Float) : Float :=
  match tbl.find? (fun e => e.1.toBits == a.toBits) with
  | some e => e.2
  | none => 0.0 / 0.0

/-- SPI of one series at Float through the pure model `gammastd`, special functions from the oracle -/
def spiIO (out inp : IO.FS.Stream) (x : List Float) (nd : Float) (cs ce : Nat) : IO String := do
  let base : GamFns Float := { log := Float.log, sqrt := Float.sqrt, root := fun _ _ _ => 0, gammainc := fun _ v => v,
                               ndtri := fun v => v, c04 := 0.4, c09 := 0.9 }
  let win := (x.drop cs).take (ce - cs)
  -- the arguments the model passes to the root finder, read off by making `root` return them
  let xa := (gammafit { base with root := fun a _ _ => a } win).1
  let xb := (gammafit { base with root := fun _ b _ => b } win).1
  let s := (gammafit { base with root := fun _ _ c => c } win).1
  let a ← if eqv xa 0 && eqv xb 0 then pure 0.0 else brentIO out inp xa xb s
  let F1 : GamFns Float := { base with root := fun _ _ _ => a }
  let (alpha, beta) := gammafit F1 win
  -- gammainc arguments: valid cells v / beta
  let mut tinc : List ((Float × Float) × Float) := []
  if !(eqv alpha 0) && !(eqv beta 0) then
    for v in x do
      if !(eqv v nd) && !(v < 0) then
        let arg := v / beta
        if (tinc.find? (fun e => e.1.2.toBits == arg.toBits)).isNone then
          let g ← askOracle out inp "gammainc" [alpha, arg]
          tinc := ((alpha, arg), g) :: tinc
  let tincF := tinc
  let F2 : GamFns Float := { F1 with gammainc := lookup2 tincF }
  -- ndtri arguments: run the pure model with ndtri = id
  let pre := gammastd F2 x nd cs ce
  let mut tnd : List (Float × Float) := []
  for o in pre do
    match o with
    | some p =>
      if (tnd.find? (fun e => e.1.toBits == p.toBits)).isNone then
        let q ← askOracle out inp "ndtri" [p]
        tnd := (p, q) :: tnd
    | none => pure ()
  let tndF := tnd
  let F3 : GamFns Float := { F2 with ndtri := lookup1 tndF }
  let res := gammastd F3 x nd cs ce
  let cells := res.map fun o => spiCell Py.roundHalfEvenFloat (-32768.0) 32767.0 1000.0 nd o
  let raw := res.map fun o => match o with | some v => v | none => nd
  pure s!"ok {encArr cells} {encArr raw} {Codec.enc alpha} {Codec.enc beta}"

def step (line : String) : String :=
  let toks := (line.trimAscii.toString.splitOn " ").filter (· ≠ "")
  match toks with
  | [] => "err empty"
  | k :: "F" :: args => (runNumeric (α := Float) k args).getD "err bad-op"
  | k :: "Q" :: args => (runNumeric (α := Rat) k args).getD "err bad-op"
  | k :: args => (runDiscrete k args).getD "err bad-op"

partial def loop (h : IO.FS.Stream) (out : IO.FS.Stream) : IO Unit := do
  let line ← h.getLine
  if line.isEmpty then return ()
  let toks := (line.trimAscii.toString.splitOn " ").filter (· ≠ "")
  match toks with
  | ["spi", "F", x, nd, cs, ce] =>
    match decArr (α := Float) x, Codec.dec (α := Float) nd, cs.toNat?, ce.toNat? with
    | some x, some nd, some cs, some ce =>
      let r ← spiIO out h x nd cs ce
      out.putStrLn r
    | _, _, _, _ => out.putStrLn "err bad-op"
  | _ => out.putStrLn (step line)
  out.flush
  loop h out

def main : IO Unit := do
  let stdin ← IO.getStdin
  let stdout ← IO.getStdout
  loop stdin stdout
